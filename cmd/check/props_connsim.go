package main

func init() {
	props["C32"] = &propCfg{Engine: "connsim", Test: "TestC32", Level: "exploration",
		Quick:    tierCfg{Runs: 16000, BudgetS: 120},
		Thorough: tierCfg{Runs: 400000, JobSize: 5000, BudgetS: 1500}}
}
