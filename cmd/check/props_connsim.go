package main

func init() {
	props["C32"] = &propCfg{Engine: "connsim", Test: "TestC32", Level: "exploration",
		Quick:    tierCfg{Runs: 32000, BudgetS: 120},
		Thorough: tierCfg{Runs: 2400000, JobSize: 15000, BudgetS: 1500}}
}
