package main

func init() {
	props["C03"] = &propCfg{Engine: "nodesim", Test: "TestC03", Level: "exploration",
		Quick: tierCfg{Runs: 480, JobSize: 30, BudgetS: 150}, Thorough: tierCfg{Runs: 24000, JobSize: 150, BudgetS: 1500}}
	props["C04"] = &propCfg{Engine: "nodesim", Test: "TestC04", Level: "exploration",
		Quick: tierCfg{Runs: 480, JobSize: 30, BudgetS: 150}, Thorough: tierCfg{Runs: 24000, JobSize: 150, BudgetS: 1500}}
}
