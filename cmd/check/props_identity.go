package main

func init() {
	props["C03"] = &propCfg{Engine: "nodesim", Test: "TestC03", Level: "exploration",
		Quick: tierCfg{Runs: 960, JobSize: 60, BudgetS: 150}, Thorough: tierCfg{Runs: 32000, JobSize: 200, BudgetS: 1500}}
	props["C04"] = &propCfg{Engine: "nodesim", Test: "TestC04", Level: "exploration",
		Quick: tierCfg{Runs: 960, JobSize: 60, BudgetS: 150}, Thorough: tierCfg{Runs: 32000, JobSize: 200, BudgetS: 1500}}
}
