package main

func init() {
	props["C01"] = &propCfg{Engine: "nodesim", Test: "TestC01", Level: "exploration",
		Quick: tierCfg{Runs: 1600, JobSize: 100, BudgetS: 150}, Thorough: tierCfg{Runs: 48000, JobSize: 200, BudgetS: 1500}}
	props["C02"] = &propCfg{Engine: "nodesim", Test: "TestC02", Level: "exploration",
		Quick: tierCfg{Runs: 1600, JobSize: 100, BudgetS: 150}, Thorough: tierCfg{Runs: 48000, JobSize: 200, BudgetS: 1500}}
}
