package main

// C01 / C02: transaction-rule scenarios on nodesim (sim/nodesim/txrules.go, c01.go, c02.go).
// Quick = 1200 runs: measured 0.14-0.26 s per run on a loaded 16-core box; every seeded
// breakage of the sensitivity experiments was found within 480 runs.
func init() {
	props["C01"] = &propCfg{Engine: "nodesim", Test: "TestC01", Level: "exploration",
		Quick: tierCfg{Runs: 1200, JobSize: 75, BudgetS: 150}, Thorough: tierCfg{Runs: 48000, JobSize: 200, BudgetS: 1500}}
	props["C02"] = &propCfg{Engine: "nodesim", Test: "TestC02", Level: "exploration",
		Quick: tierCfg{Runs: 1200, JobSize: 75, BudgetS: 150}, Thorough: tierCfg{Runs: 48000, JobSize: 200, BudgetS: 1500}}
}
