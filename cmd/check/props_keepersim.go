package main

func init() {
	props["C26"] = &propCfg{Engine: "keepersim", Test: "TestC26", Level: "exploration", Overlay: "simrt",
		Quick:    tierCfg{Runs: 24000, BudgetS: 120},
		Thorough: tierCfg{Runs: 4000000, JobSize: 4000, BudgetS: 1500}}
}
