package main

func init() {
	props["C34"] = &propCfg{Engine: "dhtsim", Test: "TestC34", Level: "exploration",
		Quick:    tierCfg{Runs: 16000, BudgetS: 120},
		Thorough: tierCfg{Runs: 2000000, JobSize: 25000, BudgetS: 1500}}
}
