package main

func init() {
	props["C34"] = &propCfg{Engine: "dhtsim", Test: "TestC34", Level: "exploration",
		Quick:    tierCfg{Runs: 64000, BudgetS: 120},
		Thorough: tierCfg{Runs: 8000000, JobSize: 50000, BudgetS: 1500}}
}
