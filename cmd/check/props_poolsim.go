package main

func init() {
	props["C22"] = &propCfg{Engine: "poolsim", Test: "TestC22", Level: "exploration",
		Quick:    tierCfg{Runs: 32000, BudgetS: 120},
		Thorough: tierCfg{Runs: 800000, JobSize: 25000, BudgetS: 1500}}
}
