package main

type tierCfg struct {
	Runs    int // total simulated runs
	JobSize int // runs per worker process (0 = Runs/workers)
	BudgetS int // wall-clock cap for the batch
}

type propCfg struct {
	ID       string
	Engine   string // package under /verif/sim
	Test     string // Test function in that package
	Race     bool   // build with the race detector
	Overlay  string // instrumentation profile ("" = none)
	Level    string
	Quick    tierCfg
	Thorough tierCfg
}

var props = map[string]*propCfg{
	"C20": {Engine: "dbsim", Test: "TestC20", Level: "exploration",
		Quick: tierCfg{Runs: 6400, BudgetS: 120}, Thorough: tierCfg{Runs: 1600000, JobSize: 20000, BudgetS: 1500}},
}
