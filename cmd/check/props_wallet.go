package main

// Wallet configuration of nodesim: C24 (wallet UTXOs follow the main chain),
// C25 (maturity of reported outputs), C27 (built and signed transactions).
func init() {
	props["C24"] = &propCfg{Engine: "nodesim", Test: "TestC24", Level: "exploration",
		Quick: tierCfg{Runs: 960, JobSize: 60, BudgetS: 150}, Thorough: tierCfg{Runs: 32000, JobSize: 200, BudgetS: 1500}}
	props["C25"] = &propCfg{Engine: "nodesim", Test: "TestC25", Level: "exploration",
		Quick: tierCfg{Runs: 960, JobSize: 60, BudgetS: 150}, Thorough: tierCfg{Runs: 32000, JobSize: 200, BudgetS: 1500}}
	props["C27"] = &propCfg{Engine: "nodesim", Test: "TestC27", Level: "exploration",
		Quick: tierCfg{Runs: 960, JobSize: 60, BudgetS: 150}, Thorough: tierCfg{Runs: 32000, JobSize: 200, BudgetS: 1500}}
}
