package main

func init() {
	q := tierCfg{Runs: 1600, JobSize: 100, BudgetS: 150}
	th := tierCfg{Runs: 64000, JobSize: 200, BudgetS: 1500}
	props["C19"] = &propCfg{Engine: "nodesim", Test: "TestC19", Level: "fault_enumeration", Overlay: "pin",
		Quick: tierCfg{Runs: 1920, JobSize: 30, BudgetS: 150}, Thorough: tierCfg{Runs: 9600, JobSize: 40, BudgetS: 1700}}
	for _, id := range []string{"C10", "C11", "C12", "C13", "C14", "C15", "C16", "C17", "C18"} {
		props[id] = &propCfg{Engine: "nodesim", Test: "Test" + id, Level: "exploration", Overlay: "pin", Quick: q, Thorough: th}
	}
}

func init() {
	props["C37"] = &propCfg{Engine: "nodesim", Test: "TestC37", Level: "exploration", Race: true, Overlay: "simrt",
		Quick: tierCfg{Runs: 320, JobSize: 10, BudgetS: 170}, Thorough: tierCfg{Runs: 16000, JobSize: 25, BudgetS: 1700}}
}

func init() {
	// deterministic-scheduler half of C37 (instrumented build); registered under its own key for development
	props["C37d"] = &propCfg{Engine: "nodesim", Test: "TestC37d", Level: "exploration", Overlay: "simrt",
		Quick: tierCfg{Runs: 320, JobSize: 10, BudgetS: 150}, Thorough: tierCfg{Runs: 16000, JobSize: 25, BudgetS: 1500}}
}

func init() {
	// single-validator-node half of C18 (registered under its own key for development)
	props["C18s"] = &propCfg{Engine: "nodesim", Test: "TestC18Solo", Level: "exploration", Overlay: "pin",
		Quick: tierCfg{Runs: 1600, JobSize: 100, BudgetS: 150}, Thorough: tierCfg{Runs: 64000, JobSize: 200, BudgetS: 1500}}
}

func init() {
	// C23: sequential mode + scheduled concurrent mode (instrumented build)
	props["C23"] = &propCfg{Engine: "nodesim", Test: "TestC23", Level: "exploration", Overlay: "simrt",
		Quick: tierCfg{Runs: 1600, JobSize: 100, BudgetS: 150}, Thorough: tierCfg{Runs: 64000, JobSize: 200, BudgetS: 1500}}
}

func init() {
	// C38 runs on a build whose block gas limit is a few transactions' worth (see smallBlockGas in pin.go)
	props["C38"] = &propCfg{Engine: "nodesim", Test: "TestC38", Level: "exploration", Overlay: "pin-smallgas",
		Quick: tierCfg{Runs: 1600, JobSize: 100, BudgetS: 150}, Thorough: tierCfg{Runs: 64000, JobSize: 200, BudgetS: 1500}}
}
