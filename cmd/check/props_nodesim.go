package main

func init() {
	q := tierCfg{Runs: 1600, JobSize: 100, BudgetS: 150}
	th := tierCfg{Runs: 64000, JobSize: 200, BudgetS: 1500}
	for _, id := range []string{"C10", "C11", "C12", "C14", "C15", "C23", "C38"} {
		props[id] = &propCfg{Engine: "nodesim", Test: "Test" + id, Level: "exploration", Quick: q, Thorough: th}
	}
}
