package main

import (
	"bytes"
	"go/ast"
	"go/parser"
	"go/printer"
	"go/token"
	"os"
	"path/filepath"
	"strings"
)

// simrtPackages are the Bytom packages whose goroutines, locks and channel
// operations are put under the cooperative scheduler in "simrt" builds.
var simrtPackages = []string{"protocol", "protocol/casper", "event", "account", "wallet"}

// instrumentForSimrt writes instrumented copies of the CURRENT sources of the
// scheduled packages into dir and returns the overlay replacements:
//   - import "sync"            -> import sync "verif/sim/simsync"
//   - go f(x)                  -> simrt.Go(func() { f(x) })
//   - after a statement with a channel send/receive, at the top of every select
//     case body and of every `for … range <chan>` body: simrt.Yield()
//
// A file the tool cannot parse aborts the build (exit 2) — never silently un-instrumented.
func instrumentForSimrt(dir string, replace map[string]string) {
	for _, pkg := range simrtPackages {
		src := filepath.Join(repoPath, pkg)
		ents, err := os.ReadDir(src)
		if err != nil {
			fatal2("instrument: %v", err)
		}
		for _, e := range ents {
			name := e.Name()
			if e.IsDir() || !strings.HasSuffix(name, ".go") || strings.HasSuffix(name, "_test.go") {
				continue
			}
			path := filepath.Join(src, name)
			if already, ok := replace[path]; ok {
				path = already // instrument on top of an earlier overlay of the same file
			}
			out, changed := instrumentFile(path)
			if !changed {
				continue
			}
			dst := filepath.Join(dir, strings.ReplaceAll(pkg, "/", "_")+"_"+name)
			if err := os.WriteFile(dst, out, 0o644); err != nil {
				fatal2("instrument: %v", err)
			}
			replace[filepath.Join(src, name)] = dst
		}
	}
}

func instrumentFile(path string) ([]byte, bool) {
	fset := token.NewFileSet()
	f, err := parser.ParseFile(fset, path, nil, parser.ParseComments)
	if err != nil {
		fatal2("instrument: cannot parse %s: %v", path, err)
	}
	changed := false
	needSimrt := false
	for _, im := range f.Imports {
		if im.Path.Value == `"sync"` {
			im.Path.Value = `"verif/sim/simsync"`
			im.Name = ast.NewIdent("sync")
			changed = true
		}
	}
	yield := func() ast.Stmt {
		needSimrt = true
		return &ast.ExprStmt{X: &ast.CallExpr{Fun: &ast.SelectorExpr{X: ast.NewIdent("simrt"), Sel: ast.NewIdent("Yield")}}}
	}
	hasChanOp := func(s ast.Stmt) bool {
		found := false
		ast.Inspect(s, func(n ast.Node) bool {
			switch x := n.(type) {
			case *ast.FuncLit, *ast.BlockStmt, *ast.SelectStmt:
				if n != ast.Node(s) {
					return false // nested bodies are handled where they are visited
				}
			case *ast.SendStmt:
				found = true
			case *ast.UnaryExpr:
				if x.Op == token.ARROW {
					found = true
				}
			}
			return true
		})
		return found
	}
	var fixList func(list []ast.Stmt) []ast.Stmt
	fixList = func(list []ast.Stmt) []ast.Stmt {
		var out []ast.Stmt
		for _, st := range list {
			switch s := st.(type) {
			case *ast.GoStmt:
				needSimrt = true
				changed = true
				st = &ast.ExprStmt{X: &ast.CallExpr{
					Fun:  &ast.SelectorExpr{X: ast.NewIdent("simrt"), Sel: ast.NewIdent("Go")},
					Args: []ast.Expr{&ast.FuncLit{Type: &ast.FuncType{Params: &ast.FieldList{}}, Body: &ast.BlockStmt{List: []ast.Stmt{&ast.ExprStmt{X: s.Call}}}}},
				}}
				out = append(out, st)
				continue
			}
			out = append(out, st)
			switch s := st.(type) {
			case *ast.SelectStmt, *ast.ReturnStmt, *ast.BranchStmt, *ast.BlockStmt, *ast.IfStmt, *ast.ForStmt, *ast.RangeStmt, *ast.SwitchStmt, *ast.TypeSwitchStmt, *ast.DeferStmt, *ast.LabeledStmt:
				_ = s
			default:
				if hasChanOp(st) {
					out = append(out, yield())
					changed = true
				}
			}
		}
		return out
	}
	ast.Inspect(f, func(n ast.Node) bool {
		switch x := n.(type) {
		case *ast.BlockStmt:
			x.List = fixList(x.List)
		case *ast.CaseClause:
			x.Body = fixList(x.Body)
		case *ast.CommClause:
			x.Body = append([]ast.Stmt{yield()}, fixList(x.Body)...)
			changed = true
		case *ast.RangeStmt:
			// `for v := range ch`: yield at the top of the body (cheap even when X is not a channel)
			if x.Body != nil {
				if id, ok := x.X.(*ast.SelectorExpr); ok && (strings.HasSuffix(id.Sel.Name, "Ch") || id.Sel.Name == "C") {
					x.Body.List = append([]ast.Stmt{yield()}, x.Body.List...)
					changed = true
				}
			}
		}
		return true
	})
	if !changed {
		return nil, false
	}
	if needSimrt {
		spec := &ast.ImportSpec{Path: &ast.BasicLit{Kind: token.STRING, Value: `"verif/sim/simrt"`}}
		added := false
		for _, d := range f.Decls {
			if gd, ok := d.(*ast.GenDecl); ok && gd.Tok == token.IMPORT {
				gd.Specs = append(gd.Specs, spec)
				if !gd.Lparen.IsValid() {
					gd.Lparen = gd.Pos()
					gd.Rparen = gd.End()
				}
				added = true
				break
			}
		}
		if !added {
			f.Decls = append([]ast.Decl{&ast.GenDecl{Tok: token.IMPORT, Specs: []ast.Spec{spec}}}, f.Decls...)
		}
	}
	var buf bytes.Buffer
	if err := (&printer.Config{Mode: printer.UseSpaces | printer.TabIndent, Tabwidth: 8}).Fprint(&buf, fset, f); err != nil {
		fatal2("instrument: print %s: %v", path, err)
	}
	return buf.Bytes(), true
}
