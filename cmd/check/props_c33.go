package main

func init() {
	props["C33"] = &propCfg{Engine: "nodesim", Test: "TestC33", Level: "exploration",
		Quick: tierCfg{Runs: 1600, JobSize: 100, BudgetS: 150}, Thorough: tierCfg{Runs: 64000, JobSize: 200, BudgetS: 1500}}
}
