package main

func init() {
	props["C21"] = &propCfg{Engine: "dbsim", Test: "TestC21", Level: "exploration",
		Quick:    tierCfg{Runs: 3200, BudgetS: 120},
		Thorough: tierCfg{Runs: 400000, JobSize: 5000, BudgetS: 1500}}
}
