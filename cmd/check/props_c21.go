package main

func init() {
	props["C21"] = &propCfg{Engine: "dbsim", Test: "TestC21", Level: "exploration",
		Quick:    tierCfg{Runs: 4800, BudgetS: 120},
		Thorough: tierCfg{Runs: 160000, JobSize: 2500, BudgetS: 1500}}
}
