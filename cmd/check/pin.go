package main

import (
	"encoding/json"
	"os"
	"path/filepath"
	"strings"
)

// pinOverlay generates, from the CURRENT repository tree, a build overlay that
// pins sources of nondeterminism the simulator cannot seed otherwise. Nothing of
// it is written to the repository. Today there is one: the block proposer walks
// the reward table (a Go map) to lay out the coinbase outputs, so the coinbase id
// — hence the block hash and every hash tie-break — changes from run to run. The
// overlay walks the same map in sorted key order (one of the legal orders).
// If the expected source line is not found (the file was changed), no pin is
// applied and the engine still builds; runs are then less repeatable, which the
// replay confirmation step reports as harness nondeterminism rather than as a
// violation.
func pinOverlay(dir string) string {
	os.MkdirAll(dir, 0o755)
	replace := map[string]string{}
	src := filepath.Join(repoPath, "proposal", "proposal.go")
	if b, err := os.ReadFile(src); err == nil {
		s := string(b)
		const loop = "for controlProgram, amount := range checkpoint.Rewards {"
		if strings.Count(s, loop) == 1 && strings.Contains(s, "\t\"sort\"\n") {
			s = strings.Replace(s, loop, "for _, controlProgram := range verifSortedRewardKeys(checkpoint.Rewards) {\n\t\t\tamount := checkpoint.Rewards[controlProgram]", 1)
			s += "\n// verifSortedRewardKeys is added by the verification build overlay (not part of the repository).\nfunc verifSortedRewardKeys(m map[string]uint64) []string {\n\tkeys := make([]string, 0, len(m))\n\tfor k := range m {\n\t\tkeys = append(keys, k)\n\t}\n\tsort.Strings(keys)\n\treturn keys\n}\n"
			dst := filepath.Join(dir, "proposal.go")
			if os.WriteFile(dst, []byte(s), 0o644) == nil {
				replace[src] = dst
			}
		}
	}
	if strings.Contains(dir, "overlay-simrt") {
		instrumentForSimrt(dir, replace)
	}
	ov, _ := json.Marshal(map[string]any{"Replace": replace})
	out := filepath.Join(dir, "overlay.json")
	if err := os.WriteFile(out, ov, 0o644); err != nil {
		fatal2("%v", err)
	}
	return out
}
