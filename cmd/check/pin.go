package main

import (
	"encoding/json"
	"os"
	"path/filepath"
	"strings"
)

// pinOverlay generates, from the CURRENT repository tree, a build overlay that
// pins sources of nondeterminism the simulator cannot seed otherwise. Nothing of
// it is written to the repository. Today there is one: the block proposer walks
// the reward table (a Go map) to lay out the coinbase outputs, so the coinbase id
// — hence the block hash and every hash tie-break — changes from run to run. The
// overlay walks the same map in sorted key order (one of the legal orders).
// If the expected source line is not found (the file was changed), no pin is
// applied and the engine still builds; runs are then less repeatable, which the
// replay confirmation step reports as harness nondeterminism rather than as a
// violation.
func pinOverlay(dir string) string {
	os.MkdirAll(dir, 0o755)
	replace := map[string]string{}
	src := filepath.Join(repoPath, "proposal", "proposal.go")
	if b, err := os.ReadFile(src); err == nil {
		s := string(b)
		const loop = "for controlProgram, amount := range checkpoint.Rewards {"
		if strings.Count(s, loop) == 1 && strings.Contains(s, "\t\"sort\"\n") {
			s = strings.Replace(s, loop, "for _, controlProgram := range verifSortedRewardKeys(checkpoint.Rewards) {\n\t\t\tamount := checkpoint.Rewards[controlProgram]", 1)
			s += "\n// verifSortedRewardKeys is added by the verification build overlay (not part of the repository).\nfunc verifSortedRewardKeys(m map[string]uint64) []string {\n\tkeys := make([]string, 0, len(m))\n\tfor k := range m {\n\t\tkeys = append(keys, k)\n\t}\n\tsort.Strings(keys)\n\treturn keys\n}\n"
			dst := filepath.Join(dir, "proposal.go")
			if os.WriteFile(dst, []byte(s), 0o644) == nil {
				replace[src] = dst
			}
		}
	}
	pinUnconfirmedOrder(dir, replace)
	if strings.Contains(dir, "overlay-simrt") {
		// scheduled builds: pinned only while no scheduler is active (their sequential modes), under a
		// scheduler the tape decides who wins the race
		pinCachedVotes(dir, replace, true)
		instrumentForSimrt(dir, replace)
	} else {
		pinCachedVotes(dir, replace, false)
	}
	if strings.Contains(dir, "smallgas") {
		smallBlockGas(dir, replace)
	}
	ov, _ := json.Marshal(map[string]any{"Replace": replace})
	out := filepath.Join(dir, "overlay.json")
	if err := os.WriteFile(out, ov, 0o644); err != nil {
		fatal2("%v", err)
	}
	return out
}

// pinCachedVotes pins the one race inside the finality engine that changes what a
// node does: ApplyBlock of the first block of an epoch hands the previous
// checkpoint to the cached-vote goroutine through a buffered channel and goes on;
// whether the cached votes (which may justify that checkpoint) or the block are
// applied first decides the source of the node's own next vote. Both orders are
// legal. The sequential engines pin "cached votes first, validators in key
// order" by calling the loop's body in place; the scheduled (simrt) builds are
// not pinned, there the plan's tape decides the order.
func pinCachedVotes(dir string, replace map[string]string, unlessScheduled bool) {
	src := filepath.Join(repoPath, "protocol", "casper", "apply_block.go")
	b, err := os.ReadFile(src)
	if err != nil {
		return
	}
	s := string(b)
	const send = "c.newEpochCh <- block.PreviousBlockHash"
	const imp = "import (\n\t\"fmt\"\n"
	av, err := os.ReadFile(filepath.Join(repoPath, "protocol", "casper", "auth_verification.go"))
	if err != nil || strings.Count(s, send) != 1 || !strings.Contains(s, imp) || strings.Contains(s, "\t\"sort\"\n") ||
		!strings.Contains(string(av), "func (c *Casper) authCachedMsg(msg *ValidCasperSignMsg, msgKey string) error") ||
		!strings.Contains(string(av), "func verificationCacheKey(") {
		return
	}
	if unlessScheduled {
		s = strings.Replace(s, send, "if verifsimrt.Active() != nil {\n\t\t\t"+send+"\n\t\t} else {\n\t\t\tc.verifPinnedCachedMsgs(block.PreviousBlockHash)\n\t\t}", 1)
		s = strings.Replace(s, imp, "import (\n\t\"fmt\"\n\t\"sort\"\n\n\tverifsimrt \"verif/sim/simrt\"\n", 1)
	} else {
		s = strings.Replace(s, send, "c.verifPinnedCachedMsgs(block.PreviousBlockHash)", 1)
		s = strings.Replace(s, imp, "import (\n\t\"fmt\"\n\t\"sort\"\n", 1)
	}
	s += `
// verifPinnedCachedMsgs is added by the verification build overlay (not part of the
// repository): the body of authVerificationLoop for one checkpoint, run in place.
func (c *Casper) verifPinnedCachedMsgs(blockHash bc.Hash) {
	validators, err := c.validators(&blockHash)
	if err != nil {
		return
	}
	keys := make([]string, 0, len(validators))
	for k := range validators {
		keys = append(keys, k)
	}
	sort.Strings(keys)
	for _, k := range keys {
		key := verificationCacheKey(blockHash, validators[k].PubKey)
		data, ok := c.verificationCache.Get(key)
		if !ok {
			continue
		}
		c.authCachedMsg(data.(*ValidCasperSignMsg), key)
	}
}
`
	dst := filepath.Join(dir, "apply_block.go")
	if os.WriteFile(dst, []byte(s), 0o644) == nil {
		replace[src] = dst
	}
}

// smallBlockGas re-tunes one knob for the builds that ask for it (C38): the block gas limit is a Go
// constant (10,000,000), far above anything a simulated mempool of a few dozen transactions reaches, so
// the proposer's "does not fit any more" path would never run. The overlay sets it to a few
// transactions' worth (VERIF_SMALLGAS, default 4000); proposer and validator read the same constant.
func smallBlockGas(dir string, replace map[string]string) {
	src := filepath.Join(repoPath, "consensus", "general.go")
	b, err := os.ReadFile(src)
	if err != nil {
		return
	}
	s := string(b)
	const decl = "MaxBlockGas    = uint64(10000000)"
	if strings.Count(s, decl) != 1 {
		return
	}
	n := os.Getenv("VERIF_SMALLGAS")
	if n == "" {
		n = "4000"
	}
	s = strings.Replace(s, decl, "MaxBlockGas    = uint64("+n+")", 1)
	dst := filepath.Join(dir, "general.go")
	if os.WriteFile(dst, []byte(s), 0o644) == nil {
		replace[src] = dst
	}
}

// pinUnconfirmedOrder: the reservation code lists the unconfirmed outputs by walking a Go map, so
// which of several equally good outputs a reservation takes changes from run to run (every choice is
// legal and the reference keeper is told the choice, so no oracle depends on it - but runs did not
// repeat: determinism self-test, C26 25 of 29 repetitions differed). The overlay walks the map in
// output-id order.
func pinUnconfirmedOrder(dir string, replace map[string]string) {
	src := filepath.Join(repoPath, "account", "utxo_keeper.go")
	b, err := os.ReadFile(src)
	if err != nil {
		return
	}
	s := string(b)
	const loop = "\tfor _, u := range uk.unconfirmed {\n\t\tappendUtxo(u)\n\t}\n"
	if strings.Count(s, loop) != 1 || !strings.Contains(s, "\t\"sort\"\n") {
		return
	}
	s = strings.Replace(s, loop, "\tfor _, u := range verifSortedUnconfirmed(uk.unconfirmed) {\n\t\tappendUtxo(u)\n\t}\n", 1)
	s += `
// verifSortedUnconfirmed is added by the verification build overlay (not part of the repository).
func verifSortedUnconfirmed(m map[bc.Hash]*UTXO) []*UTXO {
	out := make([]*UTXO, 0, len(m))
	for _, u := range m {
		out = append(out, u)
	}
	sort.Slice(out, func(i, j int) bool { return out[i].OutputID.String() < out[j].OutputID.String() })
	return out
}
`
	dst := filepath.Join(dir, "utxo_keeper.go")
	if os.WriteFile(dst, []byte(s), 0o644) == nil {
		replace[src] = dst
	}
}
