package main

func init() {
	props["C05"] = &propCfg{Engine: "seamfuzz", Test: "TestC05", Level: "exploration",
		Quick:    tierCfg{Runs: 6400, JobSize: 400, BudgetS: 120},
		Thorough: tierCfg{Runs: 640000, JobSize: 10000, BudgetS: 1500}}
}
