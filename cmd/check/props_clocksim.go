package main

func init() {
	props["C35"] = &propCfg{Engine: "clocksim", Test: "TestC35", Level: "exploration",
		Quick: tierCfg{Runs: 12800, BudgetS: 120}, Thorough: tierCfg{Runs: 1000000, JobSize: 20000, BudgetS: 1500}}
	props["C36"] = &propCfg{Engine: "clocksim", Test: "TestC36", Level: "exploration",
		Quick: tierCfg{Runs: 12800, BudgetS: 120}, Thorough: tierCfg{Runs: 1000000, JobSize: 20000, BudgetS: 1500}}
}
