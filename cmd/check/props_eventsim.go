package main

func init() {
	props["C39"] = &propCfg{Engine: "eventsim", Test: "TestC39", Level: "exploration", Overlay: "simrt",
		Quick: tierCfg{Runs: 16000, BudgetS: 120}, Thorough: tierCfg{Runs: 2000000, JobSize: 20000, BudgetS: 1500}}
}
