// Command check is the single entry point of the verification machinery:
//
//	check <Cxx> [--tier quick|thorough] [--seed n] [--replay file] [--runs n] [--workers n]
//
// It rebuilds the engine for the property from /repo's current working tree
// (build tag verif), fans seeded simulation jobs out to worker processes, confirms
// every reported violation by replaying it in a fresh process, merges the worker
// reports into /verif/evidence/<id>.json and prints
//
//	VIOLATION property=<id> replay=<path>     (exit 1)
//	KNOWN-FINDING: property=<id> <what>       (exit 0)
//
// Exit 2 means harness trouble (build failure, worker time-out, replay that does
// not reproduce) and is never a statement about the property.
package main

import (
	"bytes"
	"encoding/json"
	"fmt"
	"hash/fnv"
	"os"
	"os/exec"
	"path/filepath"
	"regexp"
	"sort"
	"strconv"
	"strings"
	"sync"
	"time"

	"verif/sim/simkit"
)

var root = "/verif"

// repoPath is the Bytom tree the engines are built from: /repo, or a scratch
// copy named by VERIF_REPO (used only for sensitivity experiments; evidence of
// such runs is written under .build, never to /verif/evidence).
var repoPath = "/repo"
var altTag = ""

func altModfile() string {
	dir := filepath.Join(root, ".build", "alt-"+altTag)
	os.MkdirAll(dir, 0o755)
	b, err := os.ReadFile(filepath.Join(root, "go.mod"))
	if err != nil {
		fatal2("%v", err)
	}
	s := strings.ReplaceAll(string(b), "=> /repo", "=> "+repoPath)
	os.WriteFile(filepath.Join(dir, "go.mod"), []byte(s), 0o644)
	sum, _ := os.ReadFile(filepath.Join(root, "go.sum"))
	os.WriteFile(filepath.Join(dir, "go.sum"), sum, 0o644)
	return filepath.Join(dir, "go.mod")
}

func fatal2(format string, args ...any) {
	fmt.Fprintf(os.Stderr, "check: HARNESS ERROR: "+format+"\n", args...)
	os.Exit(2)
}

type knownFinding struct {
	Property  string `json:"property"`
	Signature string `json:"signature"`
	What      string `json:"what"`
	Status    string `json:"status"`
	Commit    string `json:"commit,omitempty"`
}

func loadKnown() []knownFinding {
	b, err := os.ReadFile(filepath.Join(root, "known_findings.json"))
	if err != nil {
		return nil
	}
	var all []knownFinding
	if err := json.Unmarshal(b, &all); err != nil {
		fatal2("known_findings.json: %v", err)
	}
	return all
}

func goEnv() []string {
	env := os.Environ()
	env = append(env, "GOFLAGS=-mod=mod", "GOPROXY=off", "GOSUMDB=off", "GOTOOLCHAIN=local", "CGO_ENABLED=1")
	return env
}

func buildEngine(p *propCfg) string {
	suffix := ""
	if altTag != "" {
		suffix = "." + altTag
	}
	if p.Overlay != "" && p.Overlay != "pin" {
		suffix += "." + p.Overlay // instrumented / re-tuned build: its own binary
	}
	out := filepath.Join(root, ".build", p.Engine+suffix+".test")
	args := []string{"test", "-c", "-tags", "verif", "-o", out}
	if p.Race {
		out = filepath.Join(root, ".build", p.Engine+suffix+".race.test")
		args = []string{"test", "-c", "-race", "-tags", "verif", "-o", out}
	}
	if altTag != "" {
		args = append(args, "-modfile", altModfile())
	}
	if p.Overlay != "" || p.Engine == "nodesim" {
		ov := buildOverlay(p)
		args = append(args, "-overlay", ov)
	}
	args = append(args, "./sim/"+p.Engine)
	cmd := exec.Command("go1.26.8", args...)
	cmd.Dir = root
	cmd.Env = goEnv()
	var buf bytes.Buffer
	cmd.Stdout, cmd.Stderr = &buf, &buf
	if err := cmd.Run(); err != nil {
		fatal2("build of engine %s failed: %v\n%s", p.Engine, err, buf.String())
	}
	return out
}

// buildOverlay regenerates the instrumentation overlay from the current /repo.
func buildOverlay(p *propCfg) string {
	return pinOverlay(filepath.Join(root, ".build", "overlay-"+p.Overlay+altTag))
}

type job struct {
	idx    int
	seed   uint64
	checks int
}

type jobResult struct {
	job     job
	rep     *simkit.Report
	died    bool
	log     string
	current string
	exit    int
}

func propHash(s string) uint64 {
	h := fnv.New64a()
	h.Write([]byte(s))
	return h.Sum64()
}

func runWorker(bin string, p *propCfg, dir string, name string, env []string, timeout time.Duration) (rep *simkit.Report, exit int, logPath string) {
	outPath := filepath.Join(dir, name+".json")
	logPath = filepath.Join(dir, name+".log")
	os.Remove(outPath)
	lf, err := os.Create(logPath)
	if err != nil {
		fatal2("%v", err)
	}
	defer lf.Close()
	cmd := exec.Command(bin, "-test.run", "^"+p.Test+"$", "-test.timeout", "0", "-test.count", "1")
	cmd.Dir = dir
	cmd.Env = append(os.Environ(), env...)
	cmd.Env = append(cmd.Env, "VERIF_OUT="+outPath, "VERIF_KNOWN="+filepath.Join(root, "known_findings.json"))
	if os.Getenv("GOMAXPROCS") == "" {
		cmd.Env = append(cmd.Env, "GOMAXPROCS=2")
	}
	if p.Race {
		cmd.Env = append(cmd.Env, "GORACE=halt_on_error=0 exitcode=0 log_path="+filepath.Join(dir, name+".race"))
	}
	cmd.Stdout, cmd.Stderr = lf, lf
	if err := cmd.Start(); err != nil {
		fatal2("start worker: %v", err)
	}
	done := make(chan error, 1)
	go func() { done <- cmd.Wait() }()
	select {
	case err = <-done:
	case <-time.After(timeout):
		cmd.Process.Kill()
		<-done
		return nil, -9, logPath
	}
	exit = 0
	if err != nil {
		if ee, ok := err.(*exec.ExitError); ok {
			exit = ee.ExitCode()
		} else {
			exit = -1
		}
	}
	b, rerr := os.ReadFile(outPath)
	if rerr == nil {
		rep = &simkit.Report{}
		if json.Unmarshal(b, rep) != nil {
			rep = nil
		}
	}
	return rep, exit, logPath
}

var panicLine = regexp.MustCompile(`(?m)^(panic: .*|fatal error: .*)$`)

// crashSignature extracts a stable signature from a dead worker's log.
func crashSignature(prop, log string) (sig, head string) {
	b, _ := os.ReadFile(log)
	s := string(b)
	m := panicLine.FindString(s)
	if m == "" {
		return "", ""
	}
	idx := strings.Index(s, m)
	where := "unknown"
	for _, l := range strings.Split(s[idx:], "\n") {
		if strings.HasPrefix(l, "github.com/bytom/bytom/") {
			fn := l
			if i := strings.LastIndex(fn, "("); i > 0 {
				fn = fn[:i]
			}
			where = strings.TrimPrefix(fn, "github.com/bytom/bytom/")
			break
		}
	}
	tail := s[idx:]
	if len(tail) > 1200 {
		tail = tail[:1200]
	}
	return prop + "/process-died/" + where, tail
}

func replayOnce(bin string, p *propCfg, dir, name, replay string) (*simkit.Report, int, string) {
	env := []string{"VERIF_MODE=replay", "VERIF_REPLAY=" + replay}
	if os.Getenv("VERIF_VERBOSE") != "" {
		env = append(env, "VERIF_VERBOSE=1")
	}
	return runWorker(bin, p, dir, name, env, 10*time.Minute)
}

func main() {
	if len(os.Args) < 2 {
		fmt.Fprintln(os.Stderr, "usage: check <Cxx> [--tier quick|thorough] [--seed n] [--replay file] [--runs n] [--workers n]")
		os.Exit(2)
	}
	if r := os.Getenv("VERIF_ROOT"); r != "" {
		root = r
	}
	prop := os.Args[1]
	if r := os.Getenv("VERIF_REPO"); r != "" && r != "/repo" {
		abs, err := filepath.Abs(r)
		if err != nil {
			fatal2("%v", err)
		}
		repoPath = abs
		altTag = fmt.Sprintf("%x", propHash(abs))[:8]
	}
	tier := os.Getenv("VERIF_TIER")
	if tier == "" {
		tier = "quick"
	}
	seed := uint64(1)
	if v := os.Getenv("VERIF_SEED"); v != "" {
		n, err := strconv.ParseInt(v, 10, 64)
		if err != nil {
			fatal2("VERIF_SEED=%q is not an integer", v)
		}
		seed = uint64(n)
	}
	replay := ""
	runsOverride, workers := 0, 16
	for i := 2; i < len(os.Args); i++ {
		next := func() string {
			i++
			if i >= len(os.Args) {
				fatal2("missing value for %s", os.Args[i-1])
			}
			return os.Args[i]
		}
		switch os.Args[i] {
		case "--tier":
			tier = next()
		case "--seed":
			n, err := strconv.ParseInt(next(), 10, 64)
			if err != nil {
				fatal2("bad --seed")
			}
			seed = uint64(n)
		case "--replay":
			replay = next()
		case "--runs":
			runsOverride, _ = strconv.Atoi(next())
		case "--workers":
			workers, _ = strconv.Atoi(next())
		default:
			fatal2("unknown argument %q", os.Args[i])
		}
	}
	if tier != "quick" && tier != "thorough" {
		fatal2("unknown tier %q", tier)
	}
	if v := os.Getenv("VERIF_RUNS"); v != "" && runsOverride == 0 {
		runsOverride, _ = strconv.Atoi(v)
	}
	p, ok := props[prop]
	if !ok {
		fatal2("property %s has no check (not applicable or unknown)", prop)
	}
	p.ID = prop
	start := time.Now()
	bin := buildEngine(p)
	if os.Getenv("VERIF_PRINT_BIN") != "" {
		// maintenance (tools/determinism.sh): build exactly as the check does and say where the engine is
		fmt.Printf("%s %s\n", bin, p.Test)
		os.Exit(0)
	}
	runDir := filepath.Join(root, ".build", "run", prop+altTag)
	os.RemoveAll(runDir)
	if err := os.MkdirAll(runDir, 0o755); err != nil {
		fatal2("%v", err)
	}
	replayDir := filepath.Join(root, "replays")
	if altTag != "" {
		// a run against a scratch tree keeps its replay files apart (several may run at once)
		replayDir = filepath.Join(root, "replays", "alt-"+altTag)
	}
	os.MkdirAll(replayDir, 0o755)

	if replay != "" {
		abs, _ := filepath.Abs(replay)
		rep, exit, log := replayOnce(bin, p, runDir, "replay", abs)
		if rep == nil || rep.Replay == nil {
			if sig, head := crashSignature(prop, log); sig != "" {
				fmt.Printf("replay: process died: %s\n%s\n", sig, head)
				fmt.Printf("VIOLATION property=%s replay=%s\n", prop, abs)
				os.Exit(1)
			}
			fatal2("replay worker failed (exit %d), see %s", exit, log)
		}
		if os.Getenv("VERIF_VERBOSE") != "" {
			b, _ := os.ReadFile(log)
			os.Stdout.Write(b)
		}
		if rep.Replay.Violated {
			fmt.Printf("replay: %s\n%s\n", rep.Replay.Sig, rep.Replay.Detail)
			for _, k := range loadKnown() {
				if k.Property == prop && k.Status == "known" && regexp.MustCompile("^(?:"+k.Signature+")$").MatchString(rep.Replay.Sig) {
					fmt.Printf("note: this signature is listed in known_findings.json (the search tiers report it as KNOWN-FINDING); a replay reproduces it as asked\n")
				}
			}
			fmt.Printf("VIOLATION property=%s replay=%s\n", prop, abs)
			os.Exit(1)
		}
		fmt.Printf("replay: no violation\n")
		os.Exit(0)
	}

	tc := p.Quick
	if tier == "thorough" {
		tc = p.Thorough
	}
	if runsOverride > 0 {
		tc.Runs = runsOverride
	}
	if v := os.Getenv("VERIF_BUDGET_S"); v != "" {
		if n, err := strconv.Atoi(v); err == nil {
			tc.BudgetS = n
		}
	}
	jobSize := tc.JobSize
	if jobSize == 0 {
		jobSize = (tc.Runs + workers - 1) / workers
		if jobSize < 1 {
			jobSize = 1
		}
	}
	var jobs []job
	for done, i := 0, 0; done < tc.Runs; i++ {
		n := jobSize
		if tc.Runs-done < n {
			n = tc.Runs - done
		}
		jobs = append(jobs, job{idx: i, seed: simkit.SplitMix(seed ^ simkit.SplitMix(propHash(prop)+uint64(i))), checks: n})
		done += n
	}
	// the run budget starts after the build (a cold build cache must not eat it)
	deadline := time.Now().Add(time.Duration(tc.BudgetS) * time.Second)

	results := make([]*jobResult, len(jobs))
	var wg sync.WaitGroup
	sem := make(chan struct{}, workers)
	for ji := range jobs {
		wg.Add(1)
		sem <- struct{}{}
		go func(ji int) {
			defer wg.Done()
			defer func() { <-sem }()
			j := jobs[ji]
			remain := time.Until(deadline)
			if remain < 2*time.Second {
				results[ji] = &jobResult{job: j, rep: &simkit.Report{Complete: true, Counters: map[string]int64{}, Known: map[string]int{}}}
				return
			}
			name := fmt.Sprintf("w%04d", j.idx)
			cur := filepath.Join(runDir, name+".current")
			env := []string{
				"VERIF_MODE=search",
				"VERIF_TIER=" + tier,
				"VERIF_WORKER_SEED=" + strconv.FormatUint(j.seed, 10),
				"VERIF_CHECKS=" + strconv.Itoa(j.checks),
				"VERIF_DEADLINE_S=" + strconv.Itoa(int(remain.Seconds())),
				"VERIF_REPLAY_DIR=" + replayDir,
				"VERIF_CURRENT=" + cur,
			}
			rep, exit, log := runWorker(bin, p, runDir, name, env, remain+10*time.Minute)
			jr := &jobResult{job: j, rep: rep, log: log, exit: exit, current: cur}
			if rep == nil || !rep.Complete {
				jr.died = true
			}
			results[ji] = jr
		}(ji)
	}
	wg.Wait()

	known := loadKnown()
	knownRe := map[int]*regexp.Regexp{}
	for i, k := range known {
		if k.Property == prop && k.Status == "known" {
			knownRe[i] = regexp.MustCompile("^(?:" + k.Signature + ")$")
		}
	}
	knownHit := map[int]int{}

	merged := &simkit.Report{Counters: map[string]int64{}, Known: map[string]int{}}
	fpset := map[string]struct{}{}
	type confirmed struct {
		sig, detail, replay string
	}
	var violations []confirmed
	seenSig := map[string]bool{}
	harnessTrouble := []string{}
	// search findings that a fresh process did not show again: harness trouble (exit 2) when nothing
	// else was confirmed; a note beside the confirmed violations otherwise
	unreproduced := []string{}

	for _, jr := range results {
		if jr == nil {
			continue
		}
		if jr.exit == 2 {
			// exit 2 is both the harness-error code and the Go runtime's code for an
			// unrecovered panic; harness errors carry the HARNESS marker.
			b, _ := os.ReadFile(jr.log)
			if strings.Contains(string(b), "HARNESS") || !panicLine.Match(b) {
				harnessTrouble = append(harnessTrouble, fmt.Sprintf("worker %d exit 2:\n%s", jr.job.idx, head(string(b), 1200)))
				continue
			}
			jr.died = true
		}
		if jr.died {
			if jr.exit == -9 {
				harnessTrouble = append(harnessTrouble, fmt.Sprintf("worker %d timed out (log %s)", jr.job.idx, jr.log))
				continue
			}
			// The worker process died: its write-ahead plan is the candidate.
			if _, err := os.Stat(jr.current); err != nil {
				b, _ := os.ReadFile(jr.log)
				harnessTrouble = append(harnessTrouble, fmt.Sprintf("worker %d died (exit %d) without a write-ahead plan:\n%s", jr.job.idx, jr.exit, tail(string(b), 2000)))
				continue
			}
			sig1, _ := crashSignature(prop, jr.log)
			if sig1 != "" && seenSig[sig1] {
				continue // same crash already confirmed from another worker
			}
			keep := filepath.Join(replayDir, fmt.Sprintf("%s-%d-died.json", prop, jr.job.seed))
			b, _ := os.ReadFile(jr.current)
			os.WriteFile(keep, b, 0o644)
			rep2, exit2, log2 := replayOnce(bin, p, runDir, fmt.Sprintf("confirm-died-%04d", jr.job.idx), keep)
			sig2, head2 := crashSignature(prop, log2)
			if rep2 != nil && rep2.Replay != nil && rep2.Replay.Violated {
				// replay survived and reports an in-process violation instead
				sig2, head2 = rep2.Replay.Sig, rep2.Replay.Detail
			} else if rep2 != nil && rep2.Replay != nil {
				harnessTrouble = append(harnessTrouble, fmt.Sprintf("worker %d died (%s) but its plan replays cleanly: nondeterminism (log %s)", jr.job.idx, sig1, jr.log))
				continue
			}
			if sig2 == "" {
				harnessTrouble = append(harnessTrouble, fmt.Sprintf("worker %d died, replay exit %d without recognisable panic (log %s)", jr.job.idx, exit2, log2))
				continue
			}
			matchedKnown := false
			for i, re := range knownRe {
				if re.MatchString(sig2) {
					knownHit[i]++
					matchedKnown = true
				}
			}
			if !matchedKnown && !seenSig[sig2] {
				seenSig[sig2] = true
				// stamp the signature into the replay file
				var rf simkit.ReplayFile
				json.Unmarshal(b, &rf)
				rf.Sig, rf.Detail = sig2, head2
				nb, _ := json.MarshalIndent(&rf, "", " ")
				os.WriteFile(keep, nb, 0o644)
				violations = append(violations, confirmed{sig2, head2, keep})
			}
			continue
		}
		rep := jr.rep
		merged.Evaluations += rep.Evaluations
		merged.ShrinkRuns += rep.ShrinkRuns
		merged.NonTrivial += rep.NonTrivial
		merged.SimSeconds += rep.SimSeconds
		for k, v := range rep.Counters {
			merged.Counters[k] += v
		}
		for _, f := range rep.Fingerprints {
			fpset[f] = struct{}{}
		}
		if len(merged.Samples) < 3 {
			merged.Samples = append(merged.Samples, rep.Samples...)
		}
		if rep.Rule != "" {
			merged.Rule, merged.Components, merged.Assumptions = rep.Rule, rep.Components, rep.Assumptions
			merged.FaultKinds, merged.Probes = rep.FaultKinds, rep.Probes
		}
		for sig, n := range rep.Known {
			for i, re := range knownRe {
				if re.MatchString(sig) {
					knownHit[i] += n
				}
			}
		}
		for _, v := range rep.Violations {
			if seenSig[v.Sig] {
				continue
			}
			// confirm by replaying in a fresh process
			rep2, exit2, log2 := replayOnce(bin, p, runDir, fmt.Sprintf("confirm-%04d-%d", jr.job.idx, len(violations)), v.Replay)
			if rep2 == nil || rep2.Replay == nil {
				harnessTrouble = append(harnessTrouble, fmt.Sprintf("replay of %s failed (exit %d, log %s)", v.Replay, exit2, log2))
				continue
			}
			if (!rep2.Replay.Violated || rep2.Replay.Sig != v.Sig) && strings.Contains(v.Sig, "/data-race/") {
				// A report of the Go race detector is sound by itself (it observed two accesses with no
				// happens-before edge between them); whether the same pair shows again depends on the
				// runtime's goroutine timing, which the free-running mode does not control. It is
				// reported, and labelled as not reproduced by the replay.
				seenSig[v.Sig] = true
				violations = append(violations, confirmed{v.Sig, "[race detector report; the replay of the same concurrent workload did not show the same pair again]\n" + v.Detail, v.Replay})
				continue
			}
			if rep2.Replay.Violated && rep2.Replay.Sig != v.Sig {
				// The replay file does reproduce a violation of the property, but the oracle names it
				// differently than the search did (state outside the plan - allocator pools, caches
				// warmed by earlier runs of the same worker - moved the first observable difference).
				// What the fresh process shows is what is reported, under its own signature.
				sig2 := rep2.Replay.Sig
				isKnown := false
				for i, re := range knownRe {
					if re.MatchString(sig2) {
						knownHit[i]++
						isKnown = true
					}
				}
				if !isKnown && !seenSig[sig2] {
					seenSig[sig2] = true
					violations = append(violations, confirmed{sig2, "[the search reported " + v.Sig + "; the replay in a fresh process shows]\n" + rep2.Replay.Detail, v.Replay})
				}
				continue
			}
			if !rep2.Replay.Violated {
				unreproduced = append(unreproduced, fmt.Sprintf("replay of %s does not reproduce %s (no violation in a fresh process): harness nondeterminism", v.Replay, v.Sig))
				continue
			}
			seenSig[v.Sig] = true
			violations = append(violations, confirmed{v.Sig, v.Detail, v.Replay})
		}
	}

	if len(violations) == 0 {
		harnessTrouble = append(harnessTrouble, unreproduced...)
	} else {
		for _, u := range unreproduced {
			fmt.Fprintf(os.Stderr, "check: note: %s\n", u)
		}
	}
	wall := time.Since(start).Seconds()
	// evidence
	writeEvidence(p, tier, seed, merged, len(fpset), len(violations), wall, knownHit, known, harnessTrouble)

	for i, n := range knownHit {
		if n > 0 {
			fmt.Printf("KNOWN-FINDING: property=%s %s (hit %d times)\n", prop, known[i].What, n)
		}
	}
	fmt.Printf("check %s tier=%s seed=%d: %d runs (%d non-trivial, %d distinct), %d shrink runs, %.1fs\n",
		prop, tier, int64(seed), merged.Evaluations, merged.NonTrivial, len(fpset), merged.ShrinkRuns, wall)
	keys := make([]string, 0, len(merged.Counters))
	for k := range merged.Counters {
		keys = append(keys, k)
	}
	sort.Strings(keys)
	for _, k := range keys {
		fmt.Printf("  %-40s %d\n", k, merged.Counters[k])
	}
	if len(harnessTrouble) > 0 {
		for i, h := range harnessTrouble {
			if i == 3 {
				fmt.Fprintf(os.Stderr, "check: … and %d more\n", len(harnessTrouble)-3)
				break
			}
			fmt.Fprintf(os.Stderr, "check: HARNESS ERROR: %s\n", h)
		}
		os.Exit(2)
	}
	if merged.Evaluations == 0 && len(violations) == 0 {
		fatal2("no runs executed")
	}
	if len(violations) > 0 {
		for _, v := range violations {
			fmt.Printf("violation %s\n%s\n", v.sig, indent(v.detail))
			fmt.Printf("VIOLATION property=%s replay=%s\n", prop, v.replay)
		}
		os.Exit(1)
	}
	os.Exit(0)
}

func indent(s string) string { return "    " + strings.ReplaceAll(s, "\n", "\n    ") }

func head(s string, n int) string {
	if len(s) > n {
		return s[:n] + "\n…"
	}
	return s
}

func tail(s string, n int) string {
	if len(s) > n {
		return s[len(s)-n:]
	}
	return s
}

func writeEvidence(p *propCfg, tier string, seed uint64, m *simkit.Report, distinct, nviol int, wall float64,
	knownHit map[int]int, known []knownFinding, trouble []string) {
	faults := map[string]int64{}
	for _, k := range m.FaultKinds {
		faults[k] = m.Counters[k]
	}
	probes := map[string]int64{}
	assumptions := append([]string{}, m.Assumptions...)
	for _, k := range m.Probes {
		probes[k] = m.Counters[k]
		if m.Counters[k] == 0 {
			assumptions = append(assumptions, "probe "+k+" stayed at zero in this run: that branch was not reached")
		}
	}
	samples := []any{}
	for i, s := range m.Samples {
		if i >= 2 {
			break
		}
		// keep evidence files readable: a sample is a plan plus the head of its trace
		if len(s.Trace) > 40 {
			s.Trace = append(append([]string{}, s.Trace[:39]...), fmt.Sprintf("… (%d more lines)", len(s.Trace)-39))
		}
		if len(s.Plan) > 6000 {
			s.Plan = json.RawMessage(fmt.Sprintf("%q", string(s.Plan[:6000])+"… (truncated)"))
		}
		samples = append(samples, s)
	}
	if len(samples) == 0 {
		samples = append(samples, "no non-trivial sample recorded")
	}
	kf := []string{}
	for i, n := range knownHit {
		if n > 0 {
			kf = append(kf, fmt.Sprintf("%s (hit %d times)", known[i].What, n))
		}
	}
	ev := map[string]any{
		"property_id": p.ID,
		"tier":        tier,
		"seed":        int64(seed),
		"level":       p.Level,
		"coverage": map[string]any{
			"evaluations":         m.Evaluations,
			"distinct_nontrivial": distinct,
			"rule":                m.Rule,
			"samples":             samples,
			"nontrivial_runs":     m.NonTrivial,
			"shrink_runs":         m.ShrinkRuns,
			"runs_per_hour":       int(float64(m.Evaluations) / wall * 3600),
			"simulated_seconds":   m.SimSeconds,
			"fault_kinds_fired":   faults,
			"probes":              probes,
			"counters":            m.Counters,
			"components":          m.Components,
			"known_findings_hit":  kf,
			"engine":              p.Engine,
			"race_detector":       p.Race,
			"technique":           "deterministic simulation with fault injection: seeded search over operation/fault/schedule plans (rapid tape), step-wise oracle vs reference model, shrink + replay",
		},
		"assumptions": assumptions,
		"wall_s":      wall,
		"violations":  nviol,
	}
	if len(trouble) > 0 {
		ev["harness_trouble"] = trouble
	}
	b, _ := json.MarshalIndent(ev, "", " ")
	evDir := filepath.Join(root, "evidence")
	if altTag != "" {
		evDir = filepath.Join(root, ".build", "run", p.ID+altTag)
	}
	os.MkdirAll(evDir, 0o755)
	if err := os.WriteFile(filepath.Join(evDir, p.ID+".json"), b, 0o644); err != nil {
		fatal2("%v", err)
	}
}
