#!/usr/bin/env python3
"""Regenerates /verif/MANIFEST.json from tools/manifest_data.py.
Every property in properties.jsonl is either a claimed check or listed under
not_applicable with a reason."""
import json, os, subprocess, sys

here = os.path.dirname(os.path.dirname(os.path.abspath(__file__)))
sys.path.insert(0, os.path.join(here, "tools"))
import manifest_data as md

import glob
for f in sorted(glob.glob(os.path.join(here, "tools", "manifest.d", "*.json"))):
    d = json.load(open(f))
    md.CHECKS.update(d.get("checks", {}))
    md.ENGINES.extend(d.get("engines", []))
for _p in md.CHECKS:
    md.NOT_APPLICABLE.pop(_p, None)

props = [json.loads(l) for l in open(os.path.join(here, "properties.jsonl"))]
ids = [p["id"] for p in props]

checks = []
for pid in ids:
    c = md.CHECKS.get(pid)
    if not c:
        continue
    checks.append({
        "property_id": pid,
        "quick_cmd": f"bin/check {pid} --tier quick",
        "thorough_cmd": f"bin/check {pid} --tier thorough",
        "evidence_file": f"/verif/evidence/{pid}.json",
        "replay_cmd_template": f"bin/check {pid} --replay {{path}}",
        "engine": c["engine"],
        "level_claimed": {"category": c.get("level", "exploration"), "text": c["text"], "design_ref": c.get("design_ref", f"DESIGN.md §6 {pid}")},
        "level_note": c["note"],
        "technique": c.get("technique", "deterministic simulation with fault injection (seeded search over simulated histories/schedules/faults, reference-model oracle, shrink + replay)"),
    })

na = []
for pid in ids:
    if pid in md.CHECKS:
        continue
    if pid not in md.NOT_APPLICABLE:
        raise SystemExit(f"{pid}: neither claimed nor listed not applicable")
    na.append({"property_id": pid, "reason": md.NOT_APPLICABLE[pid]})

hooks_commits = md.HOOK_COMMITS
manifest = {
    "version": 1,
    "setup_cmd": "bin/setup",
    "hooks": {
        "guard": "verif",
        "enable": "go build tag: engines are built with `go1.26.8 test -c -tags verif` (files named verif_hooks.go carry //go:build verif); engines additionally use a build-time `go build -overlay` generated from the current /repo tree by cmd/check/pin.go (pins of legal-but-random choices: reward map order, cached-vote race, unconfirmed-output map order; a small block gas limit for C38) and cmd/check/instrument.go (cooperative-scheduler instrumentation of protocol, protocol/casper, event, account, wallet) - nothing of that is written or committed to /repo",
        "baseline_off_cmd": md.BASELINE_OFF_CMD,
        "source_commits": hooks_commits,
        "add_only": True,
    },
    "engines": md.ENGINES,
    "checks": checks,
    "notes": md.NOTES,
    "not_applicable": na,
}
json.dump(manifest, open(os.path.join(here, "MANIFEST.json"), "w"), indent=1)
print(f"MANIFEST.json: {len(checks)} checks, {len(na)} not applicable")
try:
    import jsonschema
    jsonschema.validate(manifest, json.load(open("/root/.vp/MANIFEST.schema.json")))
    print("schema ok")
except ImportError:
    print("jsonschema not importable here; validate with python3-vt")
