#!/bin/bash
# tools/determinism.sh <Cxx> [repetitions=30] [runs per repetition=24]
# Determinism self-test: the same worker seed is executed <repetitions> times in separate processes at
# GOMAXPROCS 1, 4 and 16 (round robin); run fingerprints (hash of every trace line/observation) and all
# counters must be identical. Prints DETERMINISTIC or the first differing pair.
prop=$1; reps=${2:-30}; runs=${3:-24}
cd "$(dirname "$0")/.."
export GOFLAGS=-mod=mod GOPROXY=off GOSUMDB=off GOTOOLCHAIN=local
read bin test < <(VERIF_PRINT_BIN=1 bin/check $prop | tail -n 1)   # builds the engine exactly as the check does
[ -x "$bin" ] || { echo "HARNESS: no engine binary for $prop"; exit 2; }
cp $bin .build/determinism.$prop.test; bin=$PWD/.build/determinism.$prop.test   # private copy: other checks may rebuild meanwhile
d=.build/determinism/$prop; rm -rf $d; mkdir -p $d
for i in $(seq 1 $reps); do
  case $((i % 3)) in 0) gmp=1;; 1) gmp=4;; 2) gmp=16;; esac
  ( cd $d && GOMAXPROCS=$gmp VERIF_MODE=search VERIF_WORKER_SEED=424242 VERIF_CHECKS=$runs VERIF_OUT=$PWD/r$i.json VERIF_KNOWN=/verif/known_findings.json \
      GORACE="halt_on_error=0 exitcode=0 log_path=$PWD/race$i" $bin -test.run "^$test\$" -test.timeout 0 >/dev/null 2>&1 )
  jq -S '{evaluations,nontrivial,fingerprints,counters,known,violations:[.violations[]?.sig]}' $d/r$i.json > $d/n$i.json 2>/dev/null
done
ref=$d/n1.json; bad=0
for i in $(seq 2 $reps); do
  if ! cmp -s $ref $d/n$i.json; then bad=$((bad+1)); [ $bad -eq 1 ] && { echo "DIFF between repetition 1 and $i:"; diff <(jq -c . $ref | fold -w 200) <(jq -c . $d/n$i.json | fold -w 200) | head -6; }; fi
done
n=$(jq '.evaluations' $ref)
rm -f $bin
if [ $bad -eq 0 ]; then echo "DETERMINISTIC $prop: $reps processes x $n runs identical (GOMAXPROCS 1/4/16)"; else echo "NONDETERMINISTIC $prop: $bad of $((reps-1)) repetitions differ"; fi
