#!/bin/bash
# tools/sweep_seeds.sh [ids...]: run each seeded change's own check (quick tier) against a scratch worktree
# of /repo HEAD with the change applied; append one line per seed to seeded/RESULTS.tsv
# (id, check, exit code, first violation signature, seconds, repo commit).
cd "$(dirname "$0")/.."
ids="$@"; [ -z "$ids" ] && ids=$(ls seeded | grep -E '^C[0-9]+-[0-9]+$')
head=$(git -C /repo log --format=%h -1)
for id in $ids; do
  prop=${id%-*}
  s=$(date +%s)
  out=$(tools/try_seed.sh /verif/seeded/$id/patch.diff $prop sw$id 2>&1)
  rc=$(echo "$out" | grep -o 'RESULT.*exit=[0-9]*' | grep -o '[0-9]*$')
  sig=$(echo "$out" | grep -m1 '^violation ' | cut -d' ' -f2)
  [ -z "$sig" ] && sig=$(echo "$out" | grep -m1 -o 'HARNESS ERROR.*' | cut -c1-120)
  echo -e "$id\t$prop\t$rc\t${sig:--}\t$(( $(date +%s) - s ))s\t$head" | tee -a seeded/RESULTS.tsv
done
