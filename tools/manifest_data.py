# Data for tools/gen_manifest.py. Edit here, then run tools/gen_manifest.py.

BASELINE_OFF_CMD = "for m in . ./lib/github.com/tendermint/ed25519 ./lib/golang.org/x/crypto ./lib/golang.org/x/net; do (cd /repo/$m && GOFLAGS=-mod=mod go test -json -vet=off -count=1 -timeout 25m ./...); done"

HOOK_COMMITS = [
    "e130613c6118b2bccc044c1295555ecbc3b1fc83",  # protocol.Chain accessors (Casper(), OrphanCount)
    "dca40b7b43cfa90413d800325ceb85edb6e48918",  # database store constructor with small caches; DHT table wrapper
    "ca6a8d0d97301c593089a216372d29876c9942e5",  # account utxo keeper wrapper
    "dd87a44dfd89f0fe61078668f4918d67c4282bdf",  # TxPool snapshot and limits
    "03e20765e0c05ea152255cc016f7598aa345ce2f",  # netsync message decode / receive entry points
]

NOTES = ("One technique family: deterministic simulation with fault injection. bin/check <id> rebuilds the engine from /repo's "
         "working tree with -tags verif, runs seeded simulated histories in worker processes, confirms each violation by replay in a "
         "fresh process, and writes evidence/<id>.json. Exit 2 = harness trouble, never a verdict. See DESIGN.md.")

ENGINES = [
    {"name": "simkit", "path": "sim/simkit", "serves_properties": [], "kind_free_text": "worker core: rapid tape -> plan -> simulated run, shrinking, replay files, reports"},
    {"name": "simdisk", "path": "sim/simdisk", "serves_properties": ["C19", "C20", "C21"], "kind_free_text": "simulated disk implementing dbm.DB: atomic durable write boundaries, snapshots, crash-at-boundary"},
    {"name": "dbsim", "path": "sim/dbsim", "serves_properties": ["C20", "C21"], "kind_free_text": "storage histories with close/reopen faults on memdb, goleveldb and simdisk, compared step by step"},
]

PURE = "pure function of its input: the statement has no schedule, clock, fault, interleaving, durable state or second party for a simulator to control; generating inputs for it would be property-based testing under another name (DESIGN.md §1)"
TODO = "claimed in DESIGN.md but its simulation check is not built yet at this commit; not claimed until it is"

NOT_APPLICABLE = {
    "C06": PURE + " — memory-layout property of one VM run",
    "C07": PURE + " — (program, args, gas limit) -> result",
    "C08": PURE + " — per-opcode semantics need a reference VM, not a simulator",
    "C09": PURE + " — byte string -> instructions",
    "C28": PURE + " — cryptographic identities; key file written and read once with no fault in the statement",
    "C29": PURE + " — encodings",
    "C30": PURE + " — merkle proofs over a list and a subset",
    "C31": PURE + " — checked arithmetic on two integers",
}
for _p in ["C01","C02","C03","C04","C05","C10","C11","C12","C13","C14","C15","C16","C17","C18","C19","C21","C22","C23","C24","C25","C26","C27","C32","C33","C34","C35","C36","C37","C38","C39"]:
    NOT_APPLICABLE[_p] = TODO

CHECKS = {
    "C20": {
        "engine": "dbsim",
        "text": "Seeded operation histories (get/set/delete/sync variants/batches/all three iteration forms, close+reopen of the LevelDB files mid-history) run step by step on the real MemDB, the real GoLevelDB and the simulated disk; every observation must be identical and Get must match a map model. Exploration: a sampled, shrunk, replayable search, not a proof.",
        "note": "goleveldb itself is trusted as the reference behaviour; iteration is atomic (no writes while an iterator is open); forward iteration only; keys 1-3 bytes over a 5-letter alphabet.",
    },
}
for _p in CHECKS:
    NOT_APPLICABLE.pop(_p, None)
