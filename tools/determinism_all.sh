#!/bin/bash
# tools/determinism_all.sh [reps=30]: determinism self-test of every claimed check; results to determinism_results.txt
cd "$(dirname "$0")/.."
reps=${1:-30}
: > determinism_results.txt.new
for p in $(jq -r '.checks[].property_id' MANIFEST.json); do
  runs=16
  case $p in C20|C21|C22|C26|C32|C34|C35|C36|C39|C05) runs=200;; esac
  tools/determinism.sh $p $reps $runs 2>&1 | tail -n 4 >> determinism_results.txt.new
done
echo "# $(date -u +%FT%TZ) repo=$(git -C /repo log --format=%h -1) verif=$(git log --format=%h -1); $reps processes per check" >> determinism_results.txt.new
mv determinism_results.txt.new determinism_results.txt
