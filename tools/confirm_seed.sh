#!/bin/bash
# tools/confirm_seed.sh <seed dir (…/SEED/k)> <id, e.g. C10-1>
# Confirms in a scratch worktree that the seeded change compiles, passes the existing tests of the packages it touches,
# and that its demonstration passes without and fails with the change; then stores it under /verif/seeded/<id>/.
sd="$1"; id="$2"
export GOFLAGS=-mod=mod GOPROXY=off GOSUMDB=off
wt=/tmp/wt-confirm-$id
git -C /repo worktree remove --force $wt >/dev/null 2>&1
git -C /repo worktree add -q $wt HEAD || exit 2
out=/verif/seeded/$id; mkdir -p $out
demo_path=$(jq -r '.demo_path_in_repo' $sd/meta.json)
demo_cmd=$(jq -r '.demo_cmd' $sd/meta.json)
demo_file=$(ls $sd/*_test.go | head -1)
cp $sd/patch.diff $out/patch.diff; cp $demo_file $out/; cp $sd/meta.json $out/agent_meta.json
cd $wt
applies=true; git apply --check $sd/patch.diff 2>/dev/null || applies=false
mkdir -p $(dirname $demo_path); cp $demo_file $demo_path
base_demo=fail; timeout 900 bash -c "$demo_cmd -count=1" >/tmp/confirm-$id-base.log 2>&1 && base_demo=pass
git apply $sd/patch.diff 2>/dev/null
pkgs=$(git diff --name-only | grep '\.go$' | xargs -n1 dirname | sort -u | sed 's#^#./#')
build=fail; go build ./protocol/... ./database/... ./account/... ./wallet/... ./netsync/... ./p2p/... ./proposal/... ./blockchain/... ./consensus/... ./event/... >/tmp/confirm-$id-build.log 2>&1 && build=pass
mut_demo=pass; timeout 900 bash -c "$demo_cmd -count=1" >/tmp/confirm-$id-mut.log 2>&1 || mut_demo=fail
rm -f $demo_path
tests=pass; timeout 1500 go test -count=1 $pkgs >/tmp/confirm-$id-tests.log 2>&1 || tests=fail
# failures that exist on the unmodified tree as well (checked at the pinned commit and at HEAD) do not count
newfail=$(grep -h "^--- FAIL" /tmp/confirm-$id-tests.log | grep -v "TestOptUTXOs\|TestNetAddress\|TestBlockVerificationMsgBroadcastLoop\|TestBlockProposeMsgBroadcastLoop" | head -5)
if [ "$tests" = fail ] && [ -z "$newfail" ] && ! grep -q "build failed\|panic:" /tmp/confirm-$id-tests.log; then tests="pass (only failures that the unmodified tree has too)"; fi
failing=$(grep -h "^--- FAIL\|^FAIL" /tmp/confirm-$id-tests.log | head -5 | tr '\n' ';')
cd /verif
jq -n --arg id "$id" --arg prop "$(jq -r .property $sd/meta.json)" --arg needs "$(jq -r .needs_to_manifest $sd/meta.json)" --arg summary "$(jq -r .summary $sd/meta.json)" \
  --arg demo_path "$demo_path" --arg demo_cmd "$demo_cmd" --arg applies "$applies" --arg build "$build" --arg base "$base_demo" --arg mut "$mut_demo" --arg tests "$tests" --arg failing "$failing" --arg pkgs "$pkgs" \
  '{id:$id, property:$prop, summary:$summary, needs_to_manifest:$needs, demo_path_in_repo:$demo_path, demo_cmd:$demo_cmd,
    confirmed_by_lead:{patch_applies_at_repo_head:$applies, builds_with_change:$build, demo_without_change:$base, demo_with_change:$mut, existing_tests_of_touched_packages_with_change:$tests, failing_tests:$failing, packages_tested:$pkgs,
    how:"tools/confirm_seed.sh in a scratch worktree of /repo HEAD (go 1.23, offline)"}}' > $out/meta.json
git -C /repo worktree remove --force $wt
echo "CONFIRM $id applies=$applies build=$build demo_base=$base_demo demo_mut=$mut_demo tests=$tests $failing"
