#!/bin/bash
# tools/run_all.sh [quick|thorough]: run every claimed check once, print one line per check.
tier=${1:-quick}
cd "$(dirname "$0")/.."
for p in $(jq -r '.checks[].property_id' MANIFEST.json); do
  s=$(date +%s)
  out=$(bin/check $p --tier $tier 2>&1); rc=$?
  e=$(( $(date +%s) - s ))
  echo "$p exit=$rc ${e}s $(echo "$out" | grep -m1 '^check ' | cut -c1-140)"
  if [ $rc -ne 0 ]; then echo "$out" | grep -v '^  ' | head -8 | cut -c1-300; fi
done
