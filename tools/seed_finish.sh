#!/bin/bash
# tools/seed_finish.sh: regenerate seeded/TABLE.md from RESULTS.tsv and write the latest detection result into every
# seeded/<id>/meta.json that has none yet.
cd "$(dirname "$0")/.."
{ head -4 seeded/TABLE.md; python3-vt tools/seed_table.py; } > /tmp/TABLE.new && mv /tmp/TABLE.new seeded/TABLE.md
for d in seeded/C*-*/; do id=$(basename $d)
  [ "$(jq '.detection' $d/meta.json)" != null ] && continue
  l=$(grep -P "^$id\t" seeded/RESULTS.tsv | tail -1); [ -z "$l" ] && continue
  IFS=$'\t' read -r _ chk rc sig secs commit <<<"$l"
  oc=MISSED; [ "$rc" = 1 ] && oc=caught; [ "$rc" = 2 ] && oc="harness trouble"
  jq --arg chk "$chk" --argjson rc "$rc" --arg oc "$oc" --arg sig "$sig" --arg commit "$commit" \
   '.detection=[{check:$chk,tier:"quick",command:("VERIF_REPO=<scratch worktree of /repo HEAD with patch.diff applied> bin/check "+$chk),exit_code:$rc,outcome:$oc,first_signature:$sig,repo_commit:$commit}]' $d/meta.json > /tmp/m.json && mv /tmp/m.json $d/meta.json
done
