#!/usr/bin/env python3
"""tools/seed_table.py: markdown table 'seeded change -> which check caught it' from seeded/*/meta.json and seeded/RESULTS.tsv
(the latest line per (id, check) wins)."""
import json, os, sys
root = os.path.join(os.path.dirname(os.path.abspath(__file__)), '..')
res = {}
p = os.path.join(root, 'seeded', 'RESULTS.tsv')
if os.path.exists(p):
    for l in open(p):
        f = l.rstrip('\n').split('\t')
        if len(f) >= 6:
            res.setdefault(f[0], {})[f[1]] = f
print('| seeded change | what was changed (one line) | check run | outcome | first signature |')
print('|---|---|---|---|---|')
for sid in sorted(os.listdir(os.path.join(root, 'seeded'))):
    mp = os.path.join(root, 'seeded', sid, 'meta.json')
    if not os.path.exists(mp):
        continue
    m = json.load(open(mp))
    summ = m.get('summary', '').replace('|', '/').replace('\n', ' ')
    if len(summ) > 150:
        summ = summ[:147] + '...'
    rr = res.get(sid, {})
    if not rr:
        print(f'| {sid} | {summ} | - | not run | |')
    for chk, f in sorted(rr.items()):
        out = {'1': 'caught', '0': 'MISSED', '2': 'harness trouble (exit 2)'}.get(f[2], 'exit ' + f[2])
        print(f'| {sid} | {summ} | {chk} ({f[4]}) | {out} | `{f[3]}` |')
