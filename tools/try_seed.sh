#!/bin/bash
# tools/try_seed.sh <patch.diff> <Cxx> <tag> [extra bin/check args]: apply a seeded change in a scratch worktree and run the check on it.
patch="$1"; prop="$2"; tag="$3"; shift 3
wt=/tmp/wt-try-$tag
git -C /repo worktree remove --force $wt >/dev/null 2>&1
git -C /repo worktree add -q $wt HEAD || exit 2
for f in $(git -C /repo ls-files --others --exclude-standard | grep verif_hooks); do mkdir -p $wt/$(dirname $f); cp /repo/$f $wt/$f; done
if ! git -C $wt apply "$patch"; then echo "PATCH DOES NOT APPLY"; git -C /repo worktree remove --force $wt; exit 3; fi
cd /verif && VERIF_REPO=$wt bin/check $prop "$@" 2>&1 | cut -c1-500 | grep -v "^  " | head -14
rc=${PIPESTATUS[0]}
echo "RESULT tag=$tag prop=$prop exit=$rc"
git -C /repo worktree remove --force $wt
rm -rf /verif/.build/alt-* 2>/dev/null
# engine binaries and overlays built for the scratch tree (8-hex tag of its path)
(cd /verif/.build 2>/dev/null && ls | grep -E '\.[0-9a-f]{8}\.' | xargs -r rm -f; ls -d overlay-* 2>/dev/null | grep -E '[0-9a-f]{8}$' | xargs -r rm -rf)
exit $rc
