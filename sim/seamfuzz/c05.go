package seamfuzz

import (
	"encoding/hex"
	"fmt"
	"os"
	"runtime"
	"runtime/debug"
	"strings"
	"sync"
	"testing"

	"pgregory.net/rapid"

	"github.com/bytom/bytom/database"
	"github.com/bytom/bytom/netsync/chainmgr"
	"github.com/bytom/bytom/netsync/consensusmgr"
	msgs "github.com/bytom/bytom/netsync/messages"
	"github.com/bytom/bytom/protocol/bc/types"

	"verif/sim/model"
	"verif/sim/nodesim"
	"verif/sim/simkit"

	"github.com/bytom/bytom/protocol/bc"
)

func mainChainOf(w *nodesim.World, tip bc.Hash) []*model.BlockState {
	return model.MainChain(w.Tree.Nodes[tip])
}

// Case is one damaged input.
type Case struct {
	Slot  int   `json:"t,omitempty"` // seam (index into seamSlots, modulo)
	Seed  int   `json:"s"`           // which harvested input of that seam (modulo)
	Inner bool  `json:"in,omitempty"` // damage the binary payload (re-framed by the real message struct) instead of the outer bytes
	Part  int   `json:"p,omitempty"`
	Muts  []Mut `json:"m,omitempty"` // none = the valid input
	Other int   `json:"o,omitempty"` // second input for splices
}

// Plan is one run: a batch of cases.
type Plan struct {
	Cases []Case `json:"cases"`
}

func genC05(rt *rapid.T) any {
	p := &Plan{}
	n := rapid.IntRange(8, 96).Draw(rt, "ncases")
	for i := 0; i < n; i++ {
		c := Case{Slot: rapid.IntRange(0, len(seamSlots)-1).Draw(rt, "seam"), Seed: rapid.IntRange(0, 4095).Draw(rt, "seed")}
		nm := rapid.SampledFrom([]int{1, 1, 1, 2, 2, 3, 0}).Draw(rt, "nmut")
		c.Inner = rapid.IntRange(0, 2).Draw(rt, "layer") > 0
		c.Part = rapid.IntRange(0, 2).Draw(rt, "part")
		for j := 0; j < nm; j++ {
			c.Muts = append(c.Muts, Mut{K: rapid.SampledFrom(mutKinds).Draw(rt, "mut"),
				A: rapid.IntRange(0, 1<<12).Draw(rt, "a"), B: rapid.IntRange(0, 1<<14).Draw(rt, "b"), C: rapid.IntRange(0, 1<<10).Draw(rt, "c")})
		}
		c.Other = rapid.IntRange(0, 4095).Draw(rt, "other")
		p.Cases = append(p.Cases, c)
	}
	return p
}

var replayMode = os.Getenv("VERIF_MODE") == "replay"

var (
	corpusOnce sync.Once
	theCorpus  *corpus
)

// memory bound of the statement: at most proportional to the input length
const (
	memFactor = 64
	memSlack  = 64 << 10
)

// seamSlots weights the seams: the chain channel has fifteen message types.
var seamSlots = []string{seamChain, seamChain, seamChain, seamChain, seamChain, seamConsensus, seamConsensus,
	seamTxText, seamBlockText, seamHeaderText, seamStoreHdr, seamStoreTxs, seamStoreCp}

// pick selects a seed: the seam, then the kind of input of that seam (every
// message type has the same weight), then one of the harvested inputs of that kind.
func (c *corpus) pick(slot, i int) *seed {
	groups := c.bySeam[seamSlots[slot%len(seamSlots)]]
	g := groups[i%len(groups)]
	return g[i/len(groups)%len(g)]
}

// build renders the input bytes of a case.
func (c *corpus) build(cs Case) (s *seed, input []byte, desc string, faults []string) {
	s = c.pick(cs.Slot, cs.Seed)
	other := c.pick(cs.Slot, cs.Other)
	if len(cs.Muts) == 0 {
		return s, append([]byte{}, s.Valid...), "valid", nil
	}
	var descs []string
	inner := cs.Inner && len(s.Parts) > 0
	parts := make([][]byte, len(s.Parts))
	copy(parts, s.Parts)
	pi := 0
	if len(parts) > 0 {
		pi = cs.Part % len(parts)
	}
	var outer []byte
	pristine := true
	for _, m := range cs.Muts {
		d := ""
		switch {
		case m.K == "version":
			// semantic: only on an undamaged payload (parsed and re-written by the real codec)
			if len(parts) == 0 || !pristine || outer != nil {
				continue
			}
			np, what, ok := applyVersion(parts[pi], s.PartKind, m)
			if !ok {
				continue
			}
			parts[pi], d = np, what
			faults = append(faults, "version")
		case inner && outer == nil && m.K != "wirelen" && m.K != "hexbreak" && m.K != "tiny":
			var otherPart []byte
			if len(other.Parts) > 0 {
				otherPart = other.Parts[cs.Other%len(other.Parts)]
			}
			parts[pi], d = applyBytes(parts[pi], s.PartKind, m, otherPart)
			d = "in:" + d
			faults = append(faults, m.K)
		default:
			if outer == nil {
				outer = s.Frame(parts)
			}
			outer, d = applyBytes(outer, "", m, other.Valid)
			faults = append(faults, m.K)
		}
		pristine = false
		descs = append(descs, d)
	}
	if outer == nil {
		outer = s.Frame(parts)
	}
	return s, outer, strings.Join(descs, ","), faults
}

// decode pushes input through the receive path of the seed's seam. It returns a
// short outcome ("ok", "err") and whether a decoder returned neither error nor value.
func (c *corpus) decode(s *seed, input []byte) (outcome string, novalue string) {
	switch s.Seam {
	case seamChain:
		_, msg, err := chainmgr.VerifDecodeMessage(input)
		if err != nil {
			return "err", ""
		}
		if msg == nil {
			return "nil", "chainmgr decodeMessage returned a nil message and a nil error"
		}
		_ = msg.String() // processMsg logs the message's String() before dispatching
		var e error
		switch m := msg.(type) {
		case *msgs.BlockMessage:
			var b *types.Block
			if b, e = m.GetBlock(); e == nil && b == nil {
				return "nil", "BlockMessage.GetBlock returned a nil block and a nil error"
			}
		case *msgs.MineBlockMessage:
			var b *types.Block
			if b, e = m.GetMineBlock(); e == nil && b == nil {
				return "nil", "MineBlockMessage.GetMineBlock returned a nil block and a nil error"
			}
		case *msgs.HeadersMessage:
			_, e = m.GetHeaders()
		case *msgs.BlocksMessage:
			_, e = m.GetBlocks()
		case *msgs.TransactionMessage:
			var tx *types.Tx
			if tx, e = m.GetTransaction(); e == nil && (tx == nil || tx.Tx == nil) {
				return "nil", "TransactionMessage.GetTransaction returned no (mapped) transaction and a nil error"
			}
		case *msgs.TransactionsMessage:
			_, e = m.GetTransactions()
		case *msgs.GetHeadersMessage:
			m.GetBlockLocator()
			m.GetStopHash()
			m.GetSkip()
		case *msgs.GetBlocksMessage:
			m.GetBlockLocator()
			m.GetStopHash()
		case *msgs.GetBlockMessage:
			m.GetHash()
		case *msgs.GetMerkleBlockMessage:
			m.GetHash()
		case *msgs.StatusMessage:
			m.GetBestHash()
			m.GetIrreversibleHash()
		case *msgs.MerkleBlockMessage:
			// the node has no handler for it; what an SPV peer does with the header text:
			e = (&types.BlockHeader{}).UnmarshalText(m.RawBlockHeader)
		}
		if e != nil {
			return "msg-err", ""
		}
		return "ok", ""
	case seamConsensus:
		_, msg, err := consensusmgr.VerifDecodeMessage(input)
		if err != nil {
			return "err", ""
		}
		if msg == nil {
			return "nil", "consensusmgr decodeMessage returned a nil message and a nil error"
		}
		_ = msg.String()
		if m, ok := msg.(*consensusmgr.BlockProposeMsg); ok {
			b, e := m.GetProposeBlock()
			if e != nil {
				return "msg-err", ""
			}
			if b == nil {
				return "nil", "BlockProposeMsg.GetProposeBlock returned a nil block and a nil error"
			}
		}
		return "ok", ""
	case seamTxText:
		if err := (&types.Tx{}).UnmarshalText(input); err != nil {
			return "err", ""
		}
		return "ok", ""
	case seamBlockText:
		if err := (&types.Block{}).UnmarshalText(input); err != nil {
			return "err", ""
		}
		return "ok", ""
	case seamHeaderText:
		if err := (&types.BlockHeader{}).UnmarshalText(input); err != nil {
			return "err", ""
		}
		return "ok", ""
	case seamStoreHdr:
		h := s.Hash
		hdr, err := database.GetBlockHeader(c.disk, &h)
		if err != nil {
			return "err", ""
		}
		if hdr == nil {
			return "nil", "database.GetBlockHeader returned a nil header and a nil error"
		}
		return "ok", ""
	case seamStoreTxs:
		h := s.Hash
		if _, err := database.GetBlockTransactions(c.disk, &h); err != nil {
			return "err", ""
		}
		return "ok", ""
	case seamStoreCp:
		h := s.Hash
		st := c.store
		cp, err1 := st.GetCheckpoint(&h)
		_, err2 := st.GetCheckpointsByHeight(s.Height)
		if err1 == nil && cp == nil {
			return "nil", "Store.GetCheckpoint returned a nil checkpoint and a nil error"
		}
		if err1 != nil || err2 != nil {
			return "err", ""
		}
		return "ok", ""
	}
	harness("unknown seam %q", s.Seam)
	return "", ""
}

func execC05(t *testing.T, plan any, r *simkit.Run) {
	p := plan.(*Plan)
	corpusOnce.Do(func() { theCorpus = harvest(t, r) })
	c := theCorpus
	c.disk.ReadFault = nil
	var ms runtime.MemStats
	okCount := 0
	for i, cs := range p.Cases {
		s, input, desc, faults := c.build(cs)
		// ---- arm the disk fault for store seams; a fresh Store (empty caches) per case
		extra := 0
		if s.Key != "" {
			key, val := s.Key, input
			c.disk.ReadFault = func(k string, v []byte) []byte {
				if k == key {
					return append([]byte{}, val...)
				}
				return v
			}
			if s.Seam == seamStoreCp {
				c.store = database.NewStore(c.disk)
				if rec, ok := c.disk.Raw(string(database.CalcBlockHeaderKey(&s.Hash))); ok {
					extra = len(rec) // GetCheckpoint also reads the (undamaged) header record
				}
			}
		}
		// ---- the metered, single-threaded decode step (on the exec goroutine: a panic becomes a violation)
		measure := func() (out, nov string, delta uint64) {
			defer func() {
				// a panic of the decoder is a violation; report it with the input that caused it
				if p := recover(); p != nil {
					st := string(debug.Stack())
					where := bytomFrame(st)
					if where == "" {
						panic(p) // not in the code under test: simkit reports a harness panic
					}
					c.disk.ReadFault = nil
					r.Violate("panic", where, "panic: %v\n%s\n%s", p, c.current, trimStack(st, 24))
					out = "panic"
				}
			}()
			runtime.ReadMemStats(&ms)
			before := ms.TotalAlloc
			out, nov = c.decode(s, input)
			runtime.ReadMemStats(&ms)
			return out, nov, ms.TotalAlloc - before
		}
		c.current = fmt.Sprintf("case %d: %s [%s] %d bytes: %s", i, s.Name, desc, len(input), hexCap(input))
		r.FP(c.current) // progress for the watchdog; also part of the fingerprint
		if replayMode {
			fmt.Fprintln(os.Stderr, c.current) // a replay shows the input it dies on
		}
		outcome, novalue, delta := measure()
		if r.Failed() {
			return
		}
		bound := uint64(memFactor*(len(input)+extra) + memSlack)
		if delta > bound {
			// a timer of the harness may allocate concurrently: believe only what repeats
			if _, _, d2 := measure(); d2 < delta {
				delta = d2
			}
		}
		c.disk.ReadFault = nil
		r.Tracef("%s [%s] len=%d -> %s", s.Name, desc, len(input), outcome)
		r.Count("decodes", 1)
		r.Count("seam."+s.Seam, 1)
		r.Count("outcome."+outcome, 1)
		for _, f := range faults {
			r.Count("fault."+f, 1)
		}
		if outcome == "ok" || outcome == "msg-err" {
			okCount++
		}
		if len(cs.Muts) == 0 && outcome != "ok" {
			harness("the undamaged input %s does not decode (%s)", s.Name, outcome)
		}
		if len(input) == 0 {
			r.Count("probe.empty_input", 1)
		}
		if novalue != "" {
			r.Violate("no-error-no-value", s.Seam, "%s\n%s", novalue, c.current)
			return
		}
		if delta > bound {
			r.Violate("memory", s.Seam, "decoding allocated %d bytes for an input of %d bytes (bound %d·len + %d KiB = %d)\n%s",
				delta, len(input)+extra, memFactor, memSlack>>10, bound, c.current)
			return
		}
		if delta > bound/2 {
			r.Count("probe.alloc_above_half_bound", 1)
			if os.Getenv("SEAMFUZZ_DEBUG") != "" {
				fmt.Fprintf(os.Stderr, "ABOVE-HALF delta=%d bound=%d %s [%s] len=%d -> %s\n", delta, bound, s.Name, desc, len(input), outcome)
			}
		}
	}
	r.Count("corpus."+c.sum, 1)
	if okCount > 0 && okCount < len(p.Cases) {
		r.NonTrivial()
	}
}

// bytomFrame returns the first function of the code under test on a panic stack.
func bytomFrame(stack string) string {
	for _, l := range strings.Split(stack, "\n") {
		if strings.HasPrefix(l, "github.com/bytom/bytom/") {
			if i := strings.LastIndex(l, "("); i > 0 {
				l = l[:i]
			}
			return strings.TrimPrefix(l, "github.com/bytom/bytom/")
		}
	}
	return ""
}

func trimStack(s string, n int) string {
	lines := strings.Split(s, "\n")
	if len(lines) > n {
		lines = lines[:n]
	}
	return strings.Join(lines, "\n")
}

func hexCap(b []byte) string {
	if len(b) > 1500 {
		return hex.EncodeToString(b[:1500]) + fmt.Sprintf("… (%d bytes)", len(b))
	}
	return hex.EncodeToString(b)
}

// SpecC05: decoding untrusted bytes.
func SpecC05() simkit.Spec {
	return simkit.Spec{
		Prop: "C05", Gen: genC05, NewPlan: func() any { return &Plan{} }, Exec: execC05,
		Rule: "every worker process first runs a fixed nodesim scenario (real proposers: warm-up, then blocks with pay/vote/veto/retire/issue/chained transactions, two forks; delivered to an observed node) and harvests blocks, stored headers with sup links, transactions, signed votes, their wire messages (real constructors of netsync/messages and netsync/consensusmgr, go-wire framing; all 15 chain message types and both consensus types) and the header / transactions / checkpoint records of the node's simulated disk. " +
			"A run is 8-96 cases: a harvested input, damaged by 0-3 drawn faults applied either to the outer bytes or to a binary tx/block/header payload that is then re-framed (truncation classes, 1-4 bit flips, byte set to a boundary, LEB128 varint / element count replaced by 0, 1, 2^31-1, 2^31, 2^32, 2^63-1, 2^63, 2^64-1, overlong and unterminated encodings, go-wire length prefix replaced by boundary values, unknown asset/transaction/header versions re-encoded by the real writer, splice of two inputs, trailing bytes, doubling, zero-length and one-byte inputs, broken hex), " +
			"decoded through the seam's receive path (chainmgr/consensusmgr decodeMessage + String() + the payload accessor; Tx/Block/BlockHeader.UnmarshalText; database.GetBlockHeader / GetBlockTransactions / Store.GetCheckpoint + GetCheckpointsByHeight over a simdisk whose read returns the damaged record). " +
			"Oracle per decode: error or value (a nil message with a nil error is neither), no panic, TotalAlloc delta of the single-threaded decode step <= 64*len + 64 KiB (re-measured once before reporting); the worker runs under a 6 GiB address-space limit so that an attacker-sized allocation kills the worker and is reported through the write-ahead plan. non-trivial = the batch has both accepted and rejected inputs; distinct = hash of inputs and outcomes",
		Components: map[string]string{
			"netsync/chainmgr decodeMessage, netsync/consensusmgr decodeMessage": "real (hooks VerifDecodeMessage)",
			"netsync/messages, consensusmgr message types and accessors":           "real",
			"protocol/bc/types decoders, encoding/blockchain":                      "real",
			"database getters, database.Store + caches, protocol/state.Checkpoint": "real",
			"go-wire (go-amino v0.6.2)":                                            "real",
			"producer of the inputs":                                               "real nodes (nodesim: chain, proposer, mempool, store) under the simulated clock",
			"storage engine":                                                       "stub: simdisk with a read fault",
			"transport":                                                            "stub: bytes are handed to the decoder the reactor's Receive calls",
		},
		FaultKinds: func() []string {
			var out []string
			for _, k := range mutKinds {
				out = append(out, "fault."+k)
			}
			return out
		}(),
		Probes: []string{"probe.empty_input", "probe.alloc_above_half_bound", "outcome.ok", "outcome.err", "outcome.msg-err", "outcome.nil",
			"seam.chain", "seam.consensus", "seam.text-tx", "seam.text-block", "seam.text-header", "seam.store-header", "seam.store-txs", "seam.store-checkpoint"},
		Assumptions: []string{
			"mutation-based and seeded from real traffic, no coverage feedback; inputs stay below ~20 KiB",
			"the memory bound is the concrete reading 64 bytes per input byte plus 64 KiB (covers go-wire's 1024-element slice chunks and the hash/entry objects built for a transaction)",
			"the peer-level effects of a decoded message (ban score, relay) are not part of this property",
		},
	}
}
