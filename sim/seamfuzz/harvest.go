// Package seamfuzz checks the node's input seams against damaged bytes (C05).
// The inputs are real: blocks, headers, transactions and votes produced by real
// proposers in a short nodesim run at the start of every worker process, their
// wire messages built with the constructors of netsync/messages and
// netsync/consensusmgr and framed with go-wire as MConnection does, and the
// records the node wrote to its simulated disk. They are then damaged by the
// fault kinds of the simulated network and disk and pushed through the decoders
// of the receive paths.
package seamfuzz

import (
	"bytes"
	"crypto/sha256"
	"encoding/hex"
	"encoding/json"
	"fmt"
	"os"
	"sort"
	"testing"

	"github.com/tendermint/go-wire"

	"github.com/bytom/bytom/database"
	"github.com/bytom/bytom/netsync/consensusmgr"
	msgs "github.com/bytom/bytom/netsync/messages"
	"github.com/bytom/bytom/protocol/bc"
	"github.com/bytom/bytom/protocol/bc/types"

	"verif/sim/nodesim"
	"verif/sim/simdisk"
	"verif/sim/simkit"
)

func harness(format string, args ...any) {
	fmt.Fprintf(os.Stderr, "seamfuzz: HARNESS: "+format+"\n", args...)
	os.Exit(2)
}

// seams
const (
	seamChain      = "chain"      // chainmgr decodeMessage + accessors
	seamConsensus  = "consensus"  // consensusmgr decodeMessage + accessors
	seamTxText     = "text-tx"    // types.Tx.UnmarshalText
	seamBlockText  = "text-block" // types.Block.UnmarshalText
	seamHeaderText = "text-header"
	seamStoreHdr   = "store-header"     // database.GetBlockHeader over a disk returning the damaged record
	seamStoreTxs   = "store-txs"        // database.GetBlockTransactions
	seamStoreCp    = "store-checkpoint" // Store.GetCheckpoint / GetCheckpointsByHeight
)

// part kinds (what a binary payload is)
const (
	partTx     = "tx"
	partBlock  = "block"
	partHeader = "header"
	partTxs    = "blocktxs" // SerBlockTransactions form
)

// seed is one real input.
type seed struct {
	Name     string
	Seam     string
	Parts    [][]byte // the binary tx/block/header payloads it carries (decoded from their hex text)
	PartKind string
	// Frame renders the input bytes from (possibly damaged) parts: hex / JSON
	// string encoding, the real message struct, go-wire framing.
	Frame func(parts [][]byte) []byte
	// store seams
	Key    string
	Hash   bc.Hash
	Height uint64
	// valid: the undamaged bytes
	Valid []byte
}

type corpus struct {
	seeds  []*seed
	bySeam map[string][][]*seed // seam -> groups of seeds with the same name
	disk  *simdisk.Disk // the observed node's chain database after the run
	store *database.Store
	sum   string
	// current describes the case being decoded (shown when the process dies)
	current string
}

func hx(b []byte) []byte {
	out := make([]byte, hex.EncodedLen(len(b)))
	hex.Encode(out, b)
	return out
}

func unhx(t []byte) []byte {
	out := make([]byte, hex.DecodedLen(len(t)))
	if _, err := hex.Decode(out, t); err != nil {
		harness("harvested text is not hex: %v", err)
	}
	return out
}

func jsonHex(b []byte) []byte { return append(append([]byte{'"'}, hx(b)...), '"') }

func frameChain(m msgs.BlockchainMessage) []byte {
	return wire.BinaryBytes(struct{ msgs.BlockchainMessage }{m})
}

func frameConsensus(m consensusmgr.ConsensusMessage) []byte {
	return wire.BinaryBytes(struct{ consensusmgr.ConsensusMessage }{m})
}

func mapParts(parts [][]byte, f func([]byte) []byte) [][]byte {
	out := make([][]byte, len(parts))
	for i, p := range parts {
		out[i] = f(p)
	}
	return out
}

// harvestPlan is the fixed scenario: warm-up until rewards mature, then blocks
// with every transaction kind, two forks, skipped slots.
func harvestPlan() *nodesim.TreePlan {
	cfg := nodesim.WorldCfg{E: 3, Validators: 2, ExtraKeys: 2, VotePending: 2, MinVotes: 100000000}
	op := func(k string, a, b, c int) nodesim.TxOp { return nodesim.TxOp{Kind: k, A: a, B: b, C: c} }
	return &nodesim.TreePlan{Cfg: cfg, Warm: nodesim.WarmupLen(cfg), Steps: []nodesim.BlockStep{
		{Txs: []nodesim.TxOp{op("pay", 0, 1, 0), op("vote", 1, 0, 1)}},
		{Txs: []nodesim.TxOp{op("pay2", 0, 2, 1), op("issue", 2, 1, 2), op("chain", 0, 1, 0)}},
		{Back: 1, Txs: []nodesim.TxOp{op("retire", 0, 1, 0)}},
		{Txs: []nodesim.TxOp{op("vote", 0, 1, 0), op("pay", 1, 3, 2)}},
		{Skip: 1, Txs: []nodesim.TxOp{op("pay", 0, 0, 0), op("expiring", 1, 1, 1)}},
		{Txs: []nodesim.TxOp{op("veto", 0, 1, 0), op("pay", 2, 2, 1)}},
		{Txs: []nodesim.TxOp{op("veto", 1, 0, 0), op("issue", 1, 2, 3), op("retire", 2, 0, 1)}},
		{Back: 2, Jit: 2999},
		{Txs: []nodesim.TxOp{op("pay", 3, 1, 1), op("chain", 0, 2, 0)}},
		{},
		{Txs: []nodesim.TxOp{op("pay2", 1, 0, 0)}},
	}}
}

// harvest runs the scenario and builds the corpus. It is deterministic: every
// worker process (and every replay) gets the same corpus.
func harvest(t *testing.T, r *simkit.Run) *corpus {
	c := &corpus{}
	nodesim.Bubble(t, func() {
		plan := harvestPlan()
		w := nodesim.NewWorld(t, r, plan.Cfg)
		prods := w.ProduceTree(plan, nodesim.Oracles{})
		if r.Failed() || len(prods) < plan.Warm+8 {
			harness("harvest scenario failed (%d blocks produced)", len(prods))
		}
		o := w.NewObserver(nodesim.ObsOracles{}, prods)
		if o == nil {
			harness("harvest: observer")
		}
		for _, p := range prods {
			o.Deliver(p.Hash, false)
		}
		if r.Failed() {
			harness("harvest: delivery failed")
		}
		c.disk = o.N.Disk.Clone()

		// ---- pick the material
		var blocks []*types.Block
		var txs []*types.Tx
		seenTx := map[bc.Hash]bool{}
		for i, h := range w.Order {
			b := w.Blocks[h]
			// the node's stored header carries the sup links collected for it
			if sh, err := o.N.Store.GetBlockHeader(&h); err == nil && len(sh.SupLinks) > len(b.SupLinks) {
				cpy := *b
				cpy.BlockHeader = *sh
				b = &cpy
			}
			if i == 0 || i == 2 || len(b.Transactions) > 1 || len(b.SupLinks) > 0 || i == len(w.Order)-1 {
				blocks = append(blocks, b)
			}
			for _, tx := range b.Transactions {
				if !seenTx[tx.ID] && (len(b.Transactions) > 1 || i < 2) {
					seenTx[tx.ID] = true
					txs = append(txs, tx)
				}
			}
		}
		for _, p := range prods { // offered but never included (conflicts, expired): still real traffic
			for _, tx := range p.Txs {
				if !seenTx[tx.ID] {
					seenTx[tx.ID] = true
					txs = append(txs, tx)
				}
			}
		}
		if len(blocks) > 14 {
			blocks = append(blocks[:7:7], blocks[len(blocks)-7:]...)
		}
		if len(txs) > 24 {
			txs = txs[:24]
		}
		withSup := 0
		for _, b := range blocks {
			if len(b.SupLinks) > 0 {
				withSup++
			}
		}
		if withSup == 0 {
			harness("harvest: no block header with sup links")
		}

		binOf := func(m interface{ MarshalText() ([]byte, error) }) []byte {
			t, err := m.MarshalText()
			if err != nil {
				harness("marshal: %v", err)
			}
			return unhx(t)
		}
		add := func(s *seed, want []byte) {
			s.Valid = s.Frame(s.Parts)
			if want != nil && !bytes.Equal(s.Valid, want) {
				harness("%s: framing from parts differs from the real constructor's bytes", s.Name)
			}
			c.seeds = append(c.seeds, s)
		}
		must := func(m msgs.BlockchainMessage, err error) msgs.BlockchainMessage {
			if err != nil {
				harness("constructor: %v", err)
			}
			return m
		}

		// ---- per block
		for _, b := range blocks {
			b := b
			full := binOf(b)
			hdr := binOf(&b.BlockHeader)
			hash := b.Hash()
			add(&seed{Name: "chain/BlockMessage", Seam: seamChain, Parts: [][]byte{full}, PartKind: partBlock,
				Frame: func(p [][]byte) []byte { return frameChain(&msgs.BlockMessage{RawBlock: hx(p[0])}) }},
				frameChain(must(msgs.NewBlockMessage(b))))
			add(&seed{Name: "chain/MineBlockMessage", Seam: seamChain, Parts: [][]byte{full}, PartKind: partBlock,
				Frame: func(p [][]byte) []byte { return frameChain(&msgs.MineBlockMessage{RawBlock: hx(p[0])}) }},
				frameChain(must(msgs.NewMinedBlockMessage(b))))
			pm, err := consensusmgr.NewBlockProposeMsg(b)
			if err != nil {
				harness("propose msg: %v", err)
			}
			add(&seed{Name: "consensus/BlockProposeMsg", Seam: seamConsensus, Parts: [][]byte{full}, PartKind: partBlock,
				Frame: func(p [][]byte) []byte { return frameConsensus(&consensusmgr.BlockProposeMsg{RawBlock: hx(p[0])}) }},
				frameConsensus(pm))
			add(&seed{Name: "text/block", Seam: seamBlockText, Parts: [][]byte{full}, PartKind: partBlock,
				Frame: func(p [][]byte) []byte { return hx(p[0]) }}, nil)
			add(&seed{Name: "text/header", Seam: seamHeaderText, Parts: [][]byte{hdr}, PartKind: partHeader,
				Frame: func(p [][]byte) []byte { return hx(p[0]) }}, nil)
			mb := msgs.NewMerkleBlockMessage()
			if err := mb.SetRawBlockHeader(b.BlockHeader); err != nil {
				harness("merkle: %v", err)
			}
			var txHashes []*bc.Hash
			for _, tx := range b.Transactions {
				id := tx.ID
				txHashes = append(txHashes, &id)
			}
			if err := mb.SetTxInfo(txHashes, []uint8{1}, b.Transactions); err != nil {
				harness("merkle: %v", err)
			}
			mbCopy := *mb
			add(&seed{Name: "chain/MerkleBlockMessage", Seam: seamChain, Parts: [][]byte{hdr}, PartKind: partHeader,
				Frame: func(p [][]byte) []byte { m := mbCopy; m.RawBlockHeader = hx(p[0]); return frameChain(&m) }},
				frameChain(mb))
			// stored records
			hk := string(database.CalcBlockHeaderKey(&hash))
			tk := string(database.CalcBlockTransactionsKey(&hash))
			if rec, ok := c.disk.Raw(hk); ok {
				add(&seed{Name: "store/header", Seam: seamStoreHdr, Parts: [][]byte{unhx(rec)}, PartKind: partHeader, Key: hk, Hash: hash, Height: b.Height,
					Frame: func(p [][]byte) []byte { return hx(p[0]) }}, rec)
			}
			if rec, ok := c.disk.Raw(tk); ok {
				add(&seed{Name: "store/txs", Seam: seamStoreTxs, Parts: [][]byte{unhx(rec)}, PartKind: partTxs, Key: tk, Hash: hash, Height: b.Height,
					Frame: func(p [][]byte) []byte { return hx(p[0]) }}, rec)
			}
		}
		// ---- per transaction
		for _, tx := range txs {
			tx := tx
			raw := binOf(&tx.TxData)
			add(&seed{Name: "chain/TransactionMessage", Seam: seamChain, Parts: [][]byte{raw}, PartKind: partTx,
				Frame: func(p [][]byte) []byte { return frameChain(&msgs.TransactionMessage{RawTx: hx(p[0])}) }},
				frameChain(must(msgs.NewTransactionMessage(tx))))
			add(&seed{Name: "text/tx", Seam: seamTxText, Parts: [][]byte{raw}, PartKind: partTx,
				Frame: func(p [][]byte) []byte { return hx(p[0]) }}, nil)
		}
		// ---- multi-item messages
		for i := 0; i+3 <= len(txs) && i < 9; i += 3 {
			group := txs[i : i+3]
			var parts [][]byte
			for _, tx := range group {
				parts = append(parts, binOf(&tx.TxData))
			}
			add(&seed{Name: "chain/TransactionsMessage", Seam: seamChain, Parts: parts, PartKind: partTx,
				Frame: func(p [][]byte) []byte { return frameChain(&msgs.TransactionsMessage{RawTxs: mapParts(p, hx)}) }},
				frameChain(must(msgs.NewTransactionsMessage(group))))
		}
		for i := 0; i+3 <= len(blocks); i += 3 {
			group := blocks[i : i+3]
			var hparts, bparts [][]byte
			var hdrs []*types.BlockHeader
			for _, b := range group {
				hparts = append(hparts, binOf(&b.BlockHeader))
				bparts = append(bparts, binOf(b))
				hdrs = append(hdrs, &b.BlockHeader)
			}
			add(&seed{Name: "chain/HeadersMessage", Seam: seamChain, Parts: hparts, PartKind: partHeader,
				Frame: func(p [][]byte) []byte { return frameChain(&msgs.HeadersMessage{RawHeaders: mapParts(p, jsonHex)}) }},
				frameChain(must(msgs.NewHeadersMessage(hdrs))))
			add(&seed{Name: "chain/BlocksMessage", Seam: seamChain, Parts: bparts, PartKind: partBlock,
				Frame: func(p [][]byte) []byte { return frameChain(&msgs.BlocksMessage{RawBlocks: mapParts(p, jsonHex)}) }},
				frameChain(must(msgs.NewBlocksMessage(group))))
		}
		// ---- requests, status, filters (no tx/block payload)
		fixed := func(name string, m msgs.BlockchainMessage) {
			raw := frameChain(m)
			add(&seed{Name: name, Seam: seamChain, Frame: func([][]byte) []byte { return append([]byte{}, raw...) }}, raw)
		}
		var loc []*bc.Hash
		for i := len(w.Order) - 1; i >= 0; i -= 3 {
			h := w.Order[i]
			loc = append(loc, &h)
		}
		tip := w.Order[len(w.Order)-1]
		tipBlock := w.Blocks[tip]
		fixed("chain/GetHeadersMessage", msgs.NewGetHeadersMessage(loc, &tip, 3))
		fixed("chain/GetHeadersMessage", msgs.NewGetHeadersMessage(loc[:1], &tip, 1<<40))
		fixed("chain/GetBlocksMessage", msgs.NewGetBlocksMessage(loc, &tip))
		fixed("chain/GetBlockMessage", &msgs.GetBlockMessage{Height: tipBlock.Height})
		fixed("chain/GetBlockMessage", &msgs.GetBlockMessage{RawHash: tip.Byte32()})
		fixed("chain/GetMerkleBlockMessage", &msgs.GetMerkleBlockMessage{RawHash: tip.Byte32()})
		fixed("chain/StatusMessage", msgs.NewStatusMessage(&tipBlock.BlockHeader, &w.Blocks[w.Order[3]].BlockHeader))
		fixed("chain/FilterLoadMessage", &msgs.FilterLoadMessage{Addresses: [][]byte{w.Keys[0].Program, w.Keys[1].Program}})
		fixed("chain/FilterAddMessage", &msgs.FilterAddMessage{Address: w.Keys[0].Program})
		fixed("chain/FilterClearMessage", &msgs.FilterClearMessage{})
		// ---- votes: validators sign checkpoint links of the main chain
		E := uint64(plan.Cfg.E)
		var cps []bc.Hash
		for _, st := range mainChainOf(w, tip) {
			if st.Height%E == 0 {
				cps = append(cps, st.Hash)
			}
		}
		for i := 0; i+1 < len(cps) && i < 3; i++ {
			for _, k := range w.Keys[:plan.Cfg.Validators] {
				v := nodesim.SignVote(k, cps[i], cps[i+1])
				pub, err := hex.DecodeString(v.PubKey)
				if err != nil {
					harness("vote key: %v", err)
				}
				raw := frameConsensus(consensusmgr.NewBlockVerificationMsg(v.SourceHash, v.TargetHash, pub, v.Signature))
				add(&seed{Name: "consensus/BlockVerificationMsg", Seam: seamConsensus, Frame: func([][]byte) []byte { return append([]byte{}, raw...) }}, raw)
			}
		}
		// ---- checkpoint records
		n := 0
		for _, k := range c.disk.Keys() {
			// checkpoint records: prefix, 8-byte height, 32-byte hash -> JSON
			if rec, _ := c.disk.Raw(k); len(k) == 2+8+32 && k[1] == ':' && n < 6 && len(rec) > 0 && rec[0] == '{' {
				var cp struct {
					Height uint64
					Hash   bc.Hash
				}
				if err := json.Unmarshal(rec, &cp); err != nil {
					harness("checkpoint record: %v", err)
				}
				rec = append([]byte{}, rec...)
				add(&seed{Name: "store/checkpoint", Seam: seamStoreCp, Key: k, Hash: cp.Hash, Height: cp.Height,
					Frame: func([][]byte) []byte { return append([]byte{}, rec...) }}, rec)
				n++
			}
		}
		if n == 0 {
			harness("harvest: no checkpoint records on the node's disk")
		}
	})
	sort.SliceStable(c.seeds, func(i, j int) bool { return c.seeds[i].Name < c.seeds[j].Name })
	c.bySeam = map[string][][]*seed{}
	for i, s := range c.seeds {
		g := c.bySeam[s.Seam]
		if i == 0 || c.seeds[i-1].Name != s.Name {
			g = append(g, nil)
		}
		g[len(g)-1] = append(g[len(g)-1], s)
		c.bySeam[s.Seam] = g
	}
	for _, sm := range seamSlots {
		if len(c.bySeam[sm]) == 0 {
			harness("harvest: nothing for seam %s", sm)
		}
	}
	h := sha256.New()
	for _, s := range c.seeds {
		h.Write([]byte(s.Name))
		h.Write(s.Valid)
	}
	c.sum = hex.EncodeToString(h.Sum(nil)[:8])
	return c
}
