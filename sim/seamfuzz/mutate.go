package seamfuzz

import (
	"encoding/binary"
	"fmt"

	"github.com/bytom/bytom/protocol/bc/types"
)

// Mut is one damage step; A, B, C are abstract and interpreted modulo the
// live input so that every tape is executable.
type Mut struct {
	K string `json:"k"`
	A int    `json:"a,omitempty"`
	B int    `json:"b,omitempty"`
	C int    `json:"c,omitempty"`
}

// fault kinds of the simulated network and disk
var mutKinds = []string{
	"trunc",    // cut at an offset class (network truncation; disk: torn record = prefix of the stored value)
	"flip",     // 1-4 bit flips
	"setbyte",  // one byte set to a boundary value
	"uvarint",  // a blockchain-encoding (LEB128) varint replaced by a boundary value
	"count",    // an element count (inputs, outputs, transactions, sup links, signatures) inflated
	"wirelen",  // a go-wire length prefix replaced by a boundary value
	"version",  // unknown asset / transaction / block version or serialisation flags, re-encoded by the real writer
	"splice",   // prefix of this input followed by a suffix of another valid input
	"extend",   // trailing bytes
	"double",   // the input twice
	"tiny",     // zero-length or one-byte input
	"hexbreak", // a non-hex character or odd length inside the text form
}

// boundary values for LEB128 varints
var uvarBoundaries = [][]byte{
	uv(0), uv(1), uv(0x7f), uv(0x80), uv(1<<31 - 1), uv(1 << 31), uv(1<<32 - 1), uv(1 << 32), uv(1<<63 - 1), uv(1 << 63), uv(^uint64(0)),
	{0x80, 0x80, 0x80, 0x80, 0x80, 0x80, 0x80, 0x80, 0x80, 0x80, 0x01}, // 11 bytes: overflows 64 bits
	{0xff, 0xff, 0xff},                                                 // never terminated
	uv(1 << 20), uv(1 << 26),
}

func uv(x uint64) []byte {
	var b [binary.MaxVarintLen64]byte
	return append([]byte{}, b[:binary.PutUvarint(b[:], x)]...)
}

// boundary values for go-wire varints: one size byte (high bit = negative), then big-endian bytes
var wireBoundaries = [][]byte{
	{0x00},                         // 0
	{0x01, 0x01},                   // 1
	{0x04, 0x7f, 0xff, 0xff, 0xff}, // 2^31-1
	{0x05, 0x01, 0x00, 0x00, 0x00, 0x00},                         // 2^32
	{0x08, 0x7f, 0xff, 0xff, 0xff, 0xff, 0xff, 0xff, 0xff}, // 2^63-1
	{0x08, 0xff, 0xff, 0xff, 0xff, 0xff, 0xff, 0xff, 0xff}, // 2^64-1
	{0x81, 0x01},                   // -1
	{0x04, 0x01, 0x50, 0x00, 0x00}, // 22020096: just under the message size limit
	{0x03, 0x40, 0x00, 0x00},       // 4 MiB
	{0x09, 1, 2, 3, 4, 5, 6, 7, 8, 9}, // size byte out of range
}

func replaceAt(b []byte, pos, oldLen int, neu []byte) []byte {
	out := make([]byte, 0, len(b)-oldLen+len(neu))
	out = append(out, b[:pos]...)
	out = append(out, neu...)
	return append(out, b[pos+oldLen:]...)
}

// walk lists the offsets of varints (vars) and of element counts (counts) in the
// binary form of a header / block / transaction, as far as the bytes follow the
// documented layout. It is only a guide for where to aim; any offset is legal.
type walker struct {
	b      []byte
	p      int
	vars   []int
	counts []int
	bad    bool
	// encl[offset of a varint] = offsets of the length prefixes of the strings around it, outermost first
	encl  map[int][]int
	stack []int
}

func (w *walker) uvar(count bool) uint64 {
	if w.bad || w.p >= len(w.b) {
		w.bad = true
		return 0
	}
	v, n := binary.Uvarint(w.b[w.p:])
	if n <= 0 {
		w.bad = true
		return 0
	}
	w.vars = append(w.vars, w.p)
	if len(w.stack) > 0 {
		w.encl[w.p] = append([]int{}, w.stack...)
	}
	if count {
		w.counts = append(w.counts, w.p)
	}
	w.p += n
	return v
}

func (w *walker) skip(n uint64) {
	if w.bad || n > uint64(len(w.b)-w.p) {
		w.bad = true
		return
	}
	w.p += int(n)
}

func (w *walker) byte() byte {
	if w.bad || w.p >= len(w.b) {
		w.bad = true
		return 0
	}
	w.p++
	return w.b[w.p-1]
}

// str walks a length-prefixed string and calls inside with the walker limited to it.
func (w *walker) str(inside func(*walker)) {
	at := w.p
	l := w.uvar(false)
	if w.bad || l > uint64(len(w.b)-w.p) {
		w.bad = true
		return
	}
	if inside != nil {
		sub := &walker{b: w.b[:w.p+int(l)], p: w.p, encl: w.encl, stack: append(append([]int{}, w.stack...), at)}
		inside(sub)
		w.vars = append(w.vars, sub.vars...)
		w.counts = append(w.counts, sub.counts...)
	}
	w.p += int(l)
}

func (w *walker) header() (serflag byte) {
	serflag = w.byte()
	if serflag == types.SerBlockTransactions {
		return
	}
	w.uvar(false) // version
	w.uvar(false) // height
	w.skip(32)
	w.uvar(false) // timestamp
	w.str(nil)    // commitment
	w.str(func(s *walker) { s.str(nil) })
	w.str(func(s *walker) { // sup links
		n := s.uvar(true)
		for i := uint64(0); i < n && !s.bad; i++ {
			s.uvar(false)
			s.skip(32)
			for j := 0; j < 10; j++ {
				s.str(nil)
			}
		}
	})
	return
}

func (w *walker) tx() {
	w.byte()      // serflags
	w.uvar(false) // version
	w.uvar(false) // time range
	n := w.uvar(true)
	for i := uint64(0); i < n && !w.bad; i++ {
		w.uvar(false) // asset version
		w.str(func(s *walker) { // input commitment: type byte, then a typed commitment
			s.byte()
			s.uvar(false)
		})
		w.str(func(s *walker) { // witness: arguments
			k := s.uvar(true)
			for j := uint64(0); j < k && !s.bad && j < 8; j++ {
				s.str(nil)
			}
		})
	}
	n = w.uvar(true)
	for i := uint64(0); i < n && !w.bad; i++ {
		w.uvar(false) // asset version
		w.byte()      // output type
		w.str(func(s *walker) { s.uvar(false) })
		w.str(nil)
	}
}

func walk(kind string, b []byte) (vars, counts []int, encl map[int][]int) {
	w := &walker{b: b, encl: map[int][]int{}}
	switch kind {
	case partHeader:
		w.header()
	case partTx:
		w.tx()
	case partBlock, partTxs:
		if f := w.header(); f != types.SerBlockHeader {
			n := w.uvar(true)
			for i := uint64(0); i < n && !w.bad; i++ {
				w.tx()
			}
		}
	}
	return w.vars, w.counts, w.encl
}

// smallVarintOffsets: every offset where a varint parses to something that could be a length or a count.
func smallVarintOffsets(b []byte) []int {
	var out []int
	for p := range b {
		if v, n := binary.Uvarint(b[p:]); n > 0 && v <= uint64(2*len(b)) {
			out = append(out, p)
		}
	}
	return out
}

func wireVarintOffsets(b []byte) []int {
	out := []int{}
	if len(b) > 1 {
		out = append(out, 1) // the first field of every message follows the type byte
	}
	for p := 2; p < len(b); p++ {
		if s := int(b[p]); s >= 1 && s <= 3 && p+s < len(b) {
			out = append(out, p)
		}
	}
	return out
}

func cutPoint(n int, m Mut) int {
	if n == 0 {
		return 0
	}
	switch m.A % 7 {
	case 0:
		return 0
	case 1:
		return 1
	case 2:
		return n - 1
	case 3:
		return n - 1 - m.B%8%n
	case 4:
		return n / 2
	case 5:
		return 2 + m.B%32%n
	}
	return m.B % n
}

// applyBytes damages raw bytes (any layer). kind is the part kind when b is a
// binary payload ("" for outer bytes). other supplies a second valid input for splices.
func applyBytes(b []byte, kind string, m Mut, other []byte) ([]byte, string) {
	n := len(b)
	switch m.K {
	case "trunc":
		c := cutPoint(n, m)
		if c > n {
			c = n
		}
		return append([]byte{}, b[:c]...), fmt.Sprintf("trunc@%d/%d", c, n)
	case "flip":
		if n == 0 {
			return b, "flip-"
		}
		out := append([]byte{}, b...)
		k := 1 + m.A%4
		for i := 0; i < k; i++ {
			bit := (m.B*131 + i*(m.C*7919+1) + i) % (n * 8)
			out[bit/8] ^= 1 << (bit % 8)
		}
		return out, fmt.Sprintf("flip%d", k)
	case "setbyte":
		if n == 0 {
			return b, "setbyte-"
		}
		out := append([]byte{}, b...)
		pos := m.B % n
		if kind != "" && m.C%2 == 0 {
			if vars, _, _ := walk(kind, b); len(vars) > 0 {
				pos = vars[m.B%len(vars)]
			}
		}
		out[pos] = []byte{0x00, 0x7f, 0x80, 0xff, 0x01, 0x02, 0xfe}[m.A%7]
		return out, fmt.Sprintf("setbyte@%d=%#x", pos, out[pos])
	case "uvarint", "count":
		var cands []int
		var encl map[int][]int
		if kind != "" {
			var vars, counts []int
			vars, counts, encl = walk(kind, b)
			cands = vars
			if m.K == "count" {
				cands = counts
			}
		}
		if len(cands) == 0 || (m.K == "uvarint" && m.C%3 == 0) {
			cands, encl = smallVarintOffsets(b), nil
		}
		if len(cands) == 0 {
			return b, m.K + "-"
		}
		pos := cands[m.B%len(cands)]
		_, old := binary.Uvarint(b[pos:])
		if old <= 0 {
			old = 1
		}
		neu := uvarBoundaries[m.A%len(uvarBoundaries)]
		out := replaceAt(b, pos, old, neu)
		d := fmt.Sprintf("%s@%d=%x", m.K, pos, neu)
		// a careful attacker keeps the enclosing strings consistent: add the growth to
		// their length prefixes (innermost first; they all lie before pos)
		if around := encl[pos]; len(around) > 0 && m.C%4 != 1 {
			delta := len(neu) - old
			for i := len(around) - 1; i >= 0 && delta != 0; i-- {
				l, n := binary.Uvarint(out[around[i]:])
				if n <= 0 || int64(l)+int64(delta) < 0 {
					break
				}
				enc := uv(uint64(int64(l) + int64(delta)))
				out = replaceAt(out, around[i], n, enc)
				delta += len(enc) - n
			}
			d += "+len"
		}
		return out, d
	case "wirelen":
		cands := wireVarintOffsets(b)
		if len(cands) == 0 {
			return b, "wirelen-"
		}
		pos := cands[0]
		if m.C%3 == 0 {
			pos = cands[m.B%len(cands)]
		}
		old := 1 + int(b[pos]&0x0f)
		if pos+old > n {
			old = n - pos
		}
		neu := wireBoundaries[m.A%len(wireBoundaries)]
		return replaceAt(b, pos, old, neu), fmt.Sprintf("wirelen@%d=%x", pos, neu)
	case "splice":
		if n == 0 || len(other) == 0 {
			return b, "splice-"
		}
		i, j := m.A%n, m.B%len(other)
		return append(append([]byte{}, b[:i]...), other[j:]...), fmt.Sprintf("splice%d+%d", i, len(other)-j)
	case "extend":
		k := 1 + m.A%64
		out := append([]byte{}, b...)
		for i := 0; i < k; i++ {
			out = append(out, byte(m.B+i*m.C))
		}
		return out, fmt.Sprintf("extend+%d", k)
	case "double":
		return append(append([]byte{}, b...), b...), "double"
	case "tiny":
		if m.A%3 == 0 {
			return []byte{}, "empty"
		}
		return []byte{byte(m.B)}, fmt.Sprintf("onebyte=%#x", byte(m.B))
	case "hexbreak":
		if n == 0 {
			return b, "hexbreak-"
		}
		out := append([]byte{}, b...)
		switch m.A % 3 {
		case 0:
			out[m.B%n] = []byte{'g', 'G', ' ', 0, '"', '\\', 0xff}[m.C%7]
			return out, "hexbreak-char"
		case 1:
			return out[:n-1], "hexbreak-odd"
		}
		return append(out, 'f'), "hexbreak-odd+"
	}
	return b, m.K + "?"
}

var versionValues = []uint64{2, 0, 3, 1 << 31, 1<<63 - 1, 1}

// applyVersion re-encodes a payload with an unknown version somewhere, using the
// real parser and the real writer (what a Byzantine relay or a future-version
// peer would send). ok=false when the payload does not parse.
func applyVersion(part []byte, kind string, m Mut) ([]byte, string, bool) {
	val := versionValues[m.B%len(versionValues)]
	text := hx(part)
	setTx := func(d *types.TxData) string {
		nIn, nOut := len(d.Inputs), len(d.Outputs)
		switch sel := m.A % 3; {
		case sel == 0 && nIn > 0:
			d.Inputs[m.C%nIn].AssetVersion = val
			return "input-asset-version"
		case sel == 1 && nOut > 0:
			d.Outputs[m.C%nOut].AssetVersion = val
			return "output-asset-version"
		}
		d.Version = val
		return "tx-version"
	}
	switch kind {
	case partTx:
		d := &types.TxData{}
		if err := d.UnmarshalText(text); err != nil {
			return nil, "", false
		}
		what := setTx(d)
		out, err := d.MarshalText()
		if err != nil {
			return nil, "", false
		}
		return unhx(out), fmt.Sprintf("%s=%d", what, val), true
	case partHeader:
		h := &types.BlockHeader{}
		if err := h.UnmarshalText(text); err != nil {
			return nil, "", false
		}
		h.Version = val
		out, err := h.MarshalText()
		if err != nil {
			return nil, "", false
		}
		return unhx(out), fmt.Sprintf("header-version=%d", val), true
	case partBlock, partTxs:
		b := &types.Block{}
		if err := b.UnmarshalText(text); err != nil {
			return nil, "", false
		}
		what := "header-version"
		if m.A%4 == 3 || len(b.Transactions) == 0 {
			if kind == partTxs {
				return nil, "", false
			}
			b.Version = val
		} else {
			tx := b.Transactions[m.C%len(b.Transactions)]
			what = setTx(&tx.TxData)
		}
		var out []byte
		var err error
		if kind == partTxs {
			out, err = b.MarshalTextForTransactions()
		} else {
			out, err = b.MarshalText()
		}
		if err != nil {
			return nil, "", false
		}
		return unhx(out), fmt.Sprintf("%s=%d", what, val), true
	}
	return nil, "", false
}
