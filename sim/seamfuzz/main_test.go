package seamfuzz

import (
	"testing"

	"verif/sim/simkit"
)

func TestC05(t *testing.T) { simkit.Main(t, SpecC05()) }
