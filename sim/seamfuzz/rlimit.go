package seamfuzz

import (
	"fmt"
	"os"
	"syscall"
)

// addressSpaceLimit caps the worker's virtual memory so that a hostile
// allocation (an attacker-sized make of gigabytes) kills this worker process
// instead of the machine. The driver turns the dead worker's write-ahead plan
// into a replay file and confirms it in a fresh process.
const addressSpaceLimit = 6 << 30

func init() {
	lim := &syscall.Rlimit{Cur: addressSpaceLimit, Max: addressSpaceLimit}
	if err := syscall.Setrlimit(syscall.RLIMIT_AS, lim); err != nil {
		fmt.Fprintf(os.Stderr, "seamfuzz: HARNESS: setrlimit: %v\n", err)
		os.Exit(2)
	}
}
