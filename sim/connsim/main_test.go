package connsim

import (
	"runtime"
	"testing"

	"verif/sim/simkit"
)

func TestC32(t *testing.T) {
	// One runnable goroutine at a time is the design of this engine (the driver
	// hands the processor to the endpoint goroutines through synctest.Wait);
	// a single P makes those hand-offs in-thread (6x faster than futex wake-ups).
	runtime.GOMAXPROCS(1)
	simkit.Main(t, SpecC32())
}
