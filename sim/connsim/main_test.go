package connsim

import (
	"testing"

	"verif/sim/simkit"
)

func TestC32(t *testing.T) { simkit.Main(t, SpecC32()) }
