// Package connsim decides C32 (encrypted peer connections deliver the exact byte
// stream): two real SecretConnection endpoints over a simulated duplex byte link
// whose segmentation, delivery timing and in-transit faults are driven by the plan,
// checked step by step against a byte-stream reference model; plus an impostor
// peer that speaks the handshake but presents forged credentials.
package connsim

import (
	"bytes"
	crand "crypto/rand"
	"crypto/sha256"
	"encoding/binary"
	"fmt"
	"io"
	"os"
	"runtime/debug"
	"strings"
	"sync"
	"testing"
	"testing/synctest"

	"github.com/bytom/bytom/crypto/ed25519/chainkd"
	"github.com/bytom/bytom/p2p/connection"
	wire "github.com/tendermint/go-wire"
	"golang.org/x/crypto/nacl/box"
	"golang.org/x/crypto/nacl/secretbox"
	"golang.org/x/crypto/ripemd160"
	"pgregory.net/rapid"

	"verif/sim/simkit"
)

// ---------------------------------------------------------------- plan

const (
	modeClean    = 0 // no fault anywhere: strict oracles
	modeFaults   = 1 // in-transit faults on the link
	modeImpostor = 2 // side B is an attacker speaking the handshake with forged credentials
)

var modeName = []string{"faultfree", "faults", "impostor"}

// Op is one step of the message schedule.
type Op struct {
	K       string `json:"k"`                 // "w" write a message, "r" one Read call
	Side    int    `json:"side"`              // acting side: 0 = A, 1 = B
	Size    int    `json:"size"`              // w: message length, r: length of the caller's buffer
	Chunks  []int  `json:"chunks,omitempty"`  // w: cyclic sizes of the Write calls the message is split into (0 = the rest)
	Trickle []int  `json:"trickle,omitempty"` // w: the link hands the ciphertext to the receiver in these steps first (bytes), then the rest
	Hold    bool   `json:"hold,omitempty"`    // w: ciphertext stays in flight until the next delivery in this direction
}

// Fault is one in-transit fault. Units are the underlying Write calls of the
// sending side (one sealed frame each), counted per direction and phase.
type Fault struct {
	Kind string `json:"kind"` // corrupt | truncate | dup | swap | drop | reflect (a copy of the unit is injected into the opposite direction)
	Dir  int    `json:"dir"`  // 0 = A->B, 1 = B->A
	HS   bool   `json:"hs,omitempty"`
	Unit int    `json:"unit"`
	Off  int    `json:"off"`  // byte offset inside the unit (mod its length)
	Mask int    `json:"mask"` // xor mask for corrupt (1..255)
}

// Impostor describes the forged credentials side B presents in mode 2.
type Impostor struct {
	Kind string `json:"kind"` // honest | wrong-signer | replayed-sig | bitflip-sig | zero-sig | harvested-replay
	KeyX int    `json:"keyx"` // third party whose key is claimed
	Bit  int    `json:"bit"`  // bit flipped in the signature (bitflip-sig)
}

// C32Plan is one run.
type C32Plan struct {
	Mode      int       `json:"mode"`
	KeyA      int       `json:"key_a"`
	KeyB      int       `json:"key_b"`
	Salt      int       `json:"salt"`
	Eph       int       `json:"eph"`                  // seed of the stream that stands in for crypto/rand.Reader during the run (ephemeral keys)
	Seg       [2][]int  `json:"seg"`                  // per direction: cyclic maximum of the underlying Reads (0 = unlimited)
	HSTrickle []int     `json:"hs_trickle,omitempty"` // handshake: cyclic delivery steps per scheduling round (0 = everything)
	Ops       []Op      `json:"ops,omitempty"`
	DrainBuf  []int     `json:"drain_buf"` // cyclic buffer sizes of the final reads
	Faults    []Fault   `json:"faults,omitempty"`
	Imp       *Impostor `json:"imp,omitempty"`
}

var (
	msgSizes    = []int{1, 0, 2, 100, 1023, 1024, 1025, 2047, 2048, 2049, 3000, 4096, 5000}
	bufSizes    = []int{4096, 1024, 2048, 1025, 1023, 100, 7, 2, 1, 3000, 512}
	chunkSizes  = []int{0, 1, 2, 100, 1023, 1024, 1025, 2048, 3000}
	segSizes    = []int{0, 1, 2, 7, 32, 33, 100, 521, 1041, 1042, 1043, 2084, 5000}
	trickles    = []int{0, 1, 31, 32, 33, 500, 1041, 1042, 1043, 2000}
	faultKinds  = []string{"corrupt", "truncate", "dup", "swap", "drop", "reflect"}
	forgeryKind = []string{"honest", "wrong-signer", "replayed-sig", "bitflip-sig", "zero-sig", "harvested-replay"}
)

func pick(rt *rapid.T, from []int, label string) int {
	return from[rapid.IntRange(0, len(from)-1).Draw(rt, label)]
}

func pickList(rt *rapid.T, from []int, minLen, maxLen int, label string) []int {
	n := rapid.IntRange(minLen, maxLen).Draw(rt, label+"_n")
	var out []int
	for i := 0; i < n; i++ {
		out = append(out, pick(rt, from, label))
	}
	return out
}

func genC32(rt *rapid.T) any {
	p := &C32Plan{}
	switch m := rapid.IntRange(0, 19).Draw(rt, "mode"); {
	case m < 10:
		p.Mode = modeClean
	case m < 18:
		p.Mode = modeFaults
	default:
		p.Mode = modeImpostor
	}
	p.KeyA = rapid.IntRange(0, 3).Draw(rt, "key_a")
	p.KeyB = rapid.IntRange(0, 3).Draw(rt, "key_b")
	p.Salt = rapid.IntRange(0, 255).Draw(rt, "salt")
	p.Eph = rapid.IntRange(0, 4095).Draw(rt, "eph")
	p.Seg[0] = pickList(rt, segSizes, 0, 4, "seg_ab")
	p.Seg[1] = pickList(rt, segSizes, 0, 4, "seg_ba")
	p.HSTrickle = pickList(rt, trickles, 0, 3, "hs_trickle")
	p.DrainBuf = pickList(rt, bufSizes, 1, 3, "drain_buf")
	if p.Mode == modeImpostor {
		p.Imp = &Impostor{
			Kind: forgeryKind[rapid.IntRange(0, len(forgeryKind)-1).Draw(rt, "forgery")],
			KeyX: rapid.IntRange(0, 3).Draw(rt, "key_x"),
			Bit:  rapid.IntRange(0, 511).Draw(rt, "bit"),
		}
		return p
	}
	nops := rapid.IntRange(1, 14).Draw(rt, "nops")
	for i := 0; i < nops; i++ {
		op := Op{Side: rapid.IntRange(0, 1).Draw(rt, "side")}
		if rapid.IntRange(0, 3).Draw(rt, "kind") < 2 {
			op.K = "w"
			if rapid.IntRange(0, 5).Draw(rt, "anysize") == 5 {
				op.Size = rapid.IntRange(0, 6000).Draw(rt, "msgsize_any")
			} else {
				op.Size = pick(rt, msgSizes, "msgsize")
			}
			op.Chunks = pickList(rt, chunkSizes, 0, 3, "chunks")
			op.Trickle = pickList(rt, trickles, 0, 2, "trickle")
			op.Hold = rapid.IntRange(0, 4).Draw(rt, "hold") == 4
		} else {
			op.K = "r"
			if rapid.IntRange(0, 7).Draw(rt, "anybuf") == 7 {
				op.Size = rapid.IntRange(0, 1200).Draw(rt, "bufsize_any")
			} else {
				op.Size = pick(rt, bufSizes, "bufsize")
			}
		}
		p.Ops = append(p.Ops, op)
	}
	if p.Mode == modeFaults {
		nf := rapid.IntRange(1, 2).Draw(rt, "nfaults")
		for i := 0; i < nf; i++ {
			f := Fault{
				Kind: faultKinds[rapid.IntRange(0, len(faultKinds)-1).Draw(rt, "fkind")],
				Dir:  rapid.IntRange(0, 1).Draw(rt, "fdir"),
				HS:   rapid.IntRange(0, 3).Draw(rt, "fhs") == 3,
				Off:  rapid.IntRange(0, 1100).Draw(rt, "foff"),
				Mask: rapid.IntRange(1, 255).Draw(rt, "fmask"),
			}
			if f.HS {
				f.Unit = rapid.IntRange(0, 1).Draw(rt, "funit_hs")
			} else {
				f.Unit = rapid.IntRange(0, 7).Draw(rt, "funit")
			}
			p.Faults = append(p.Faults, f)
		}
	}
	return p
}

// ---------------------------------------------------------------- reference model

// streamByte is byte number pos of the plaintext stream of direction d: the
// content is a function of the absolute stream position, so that loss,
// duplication and reordering of any piece show up as wrong bytes.
func streamByte(salt, d, pos int) byte {
	x := uint32(pos)*2654435761 + uint32(salt)*40503 + uint32(d)*0x9e3779b1
	x ^= x >> 15
	x *= 0x2c1b3c6d
	x ^= x >> 12
	return byte(x >> 8)
}

func (s *sim) streamBytes(d, from, n int) []byte {
	b := make([]byte, n)
	for i := range b {
		b[i] = streamByte(s.p.Salt, d, from+i)
	}
	return b
}

// ---------------------------------------------------------------- randomness seam

// detRand stands in for crypto/rand.Reader (a package variable) while a run
// executes: the ephemeral handshake keys, and with them the shared secret, the
// nonce parity and the lo/hi role of each side, become a function of the plan,
// so that a replay is byte-for-byte the same execution.
type detRand struct {
	mu   sync.Mutex
	seed int
	ctr  uint64
	buf  []byte
}

func (d *detRand) Read(p []byte) (int, error) {
	d.mu.Lock()
	defer d.mu.Unlock()
	for i := range p {
		if len(d.buf) == 0 {
			var in [24]byte
			copy(in[:], "connsim-eph")
			binary.BigEndian.PutUint32(in[12:], uint32(d.seed))
			binary.BigEndian.PutUint64(in[16:], d.ctr)
			h := sha256.Sum256(in[:])
			d.buf, d.ctr = h[:], d.ctr+1
		}
		p[i], d.buf = d.buf[0], d.buf[1:]
	}
	return len(p), nil
}

// ---------------------------------------------------------------- driver

type readRes struct {
	n   int
	err error
}

type pendingRead struct {
	buf, sentinel []byte
	res           chan readRes
	blocked       bool
	drain         bool
	op            int
}

type hsRes struct {
	sc   *connection.SecretConnection
	err  error
	done bool
}

type panicBox struct {
	mu    sync.Mutex
	val   any
	stack string
}

func (b *panicBox) guard(f func()) {
	defer func() {
		if p := recover(); p != nil {
			b.mu.Lock()
			if b.val == nil {
				b.val, b.stack = p, string(debug.Stack())
			}
			b.mu.Unlock()
		}
	}()
	f()
}

func (b *panicBox) hit() bool {
	b.mu.Lock()
	defer b.mu.Unlock()
	return b.val != nil
}

type sim struct {
	r    *simkit.Run
	p    *C32Plan
	mode string
	h    [2]*half     // h[d]: direction d, sender = side d, receiver = side 1-d
	ep   [2]*endpoint // ep[s]: out = h[s], in = h[1-s]
	priv [2]chainkd.XPrv
	pub  [2][]byte
	sc   [2]*connection.SecretConnection

	phase     int // 0 handshake, 1 data
	fault     [2]*Fault
	done      [2]bool // the planned fault of direction d has been applied
	fired     [2]bool // direction d has been disturbed by a fault
	firedKind [2]string
	limit     [2]int // upper bound on delivered bytes after a corrupt/truncate/drop (-1: none)
	hsFired   bool
	hsTamper  [2]bool // a corrupt/truncate hit a handshake unit of direction d

	sent, delivered [2]int
	errSeen         [2]bool
	zeroStreak      [2]int
	pend            [2]*pendingRead // by reading side
	closing         bool
	dataReads       int
	box             *panicBox
}

func harnessf(format string, args ...any) {
	fmt.Fprintf(os.Stderr, "connsim: HARNESS: "+format+"\n", args...)
	os.Exit(2)
}

func sideName(s int) string { return string(rune('A' + s)) }
func dirName(d int) string  { return sideName(d) + sideName(1-d) }

func errClass(err error) string {
	switch {
	case err == nil:
		return "nil"
	case err == io.EOF:
		return "eof"
	case err == io.ErrUnexpectedEOF:
		return "unexpected-eof"
	case err == io.ErrClosedPipe:
		return "closed"
	case strings.Contains(err.Error(), "decrypt"):
		return "decrypt"
	case strings.Contains(err.Error(), "Challenge verification"):
		return "challenge"
	default:
		return "other"
	}
}

func longTermKey(i int) chainkd.XPrv {
	return chainkd.RootXPrv([]byte{'c', 'o', 'n', 'n', 's', 'i', 'm', byte(i)})
}

func (s *sim) viol(oracle, format string, args ...any) {
	attrs := s.mode
	s.r.Violate(oracle, attrs, format, args...)
}

// release takes the units the sender staged in direction d, applies the
// in-transit fault of that direction when its unit comes by, and puts the
// result on the wire. s0 = stream bytes accepted by Write calls completed
// before the current one, c = size of the current Write call (data phase).
func (s *sim) release(d, s0, c int) bool {
	h := s.h[d]
	units := h.takeStaged()
	k := len(units)
	for j, u := range units {
		ord := h.ord[s.phase]
		h.ord[s.phase]++
		if h.cut {
			s.r.Count("link.unit_lost_after_truncation", 1)
			continue
		}
		f := s.fault[d]
		phaseOfFault := 1
		if f != nil && f.HS {
			phaseOfFault = 0
		}
		if f != nil && !s.done[d] && h.held == nil && phaseOfFault == s.phase && f.Unit == ord && len(u) > 0 {
			off := f.Off % len(u)
			switch f.Kind {
			case "corrupt":
				u[off] ^= byte(f.Mask)
				h.wire = append(h.wire, u...)
			case "truncate":
				h.wire = append(h.wire, u[:off]...)
				h.cut = true
			case "dup":
				h.wire = append(h.wire, u...)
				h.wire = append(h.wire, u...)
			case "drop":
			case "reflect":
				h.wire = append(h.wire, u...)
				if o := s.h[1-d]; !o.cut {
					o.wire = append(o.wire, u...)
				}
			case "swap":
				h.held = u
				continue // fires when the next unit overtakes it
			default:
				harnessf("unknown fault kind %q", f.Kind)
			}
			s.fire(d, f, j, k, s0, c, ord, off, len(u))
			continue
		}
		h.wire = append(h.wire, u...)
		if h.held != nil {
			h.wire = append(h.wire, h.held...)
			h.held = nil
			s.fire(d, f, j, k, s0, c, ord-1, 0, len(u))
		}
	}
	return k > 0
}

func (s *sim) fire(d int, f *Fault, j, k, s0, c, ord, off, ulen int) {
	s.done[d] = true
	hit := d // the disturbed direction
	if f.Kind == "reflect" {
		hit = 1 - d
	}
	if !s.fired[hit] {
		s.fired[hit] = true
		s.firedKind[hit] = f.Kind
	}
	name := "fault." + f.Kind
	if s.phase == 0 {
		name += "_hs"
		s.hsFired = true
		if f.Kind == "corrupt" || f.Kind == "truncate" {
			s.hsTamper[d] = true
		}
	} else if f.Kind == "corrupt" || f.Kind == "truncate" || f.Kind == "drop" {
		// Nothing carried by the hit unit or by later units may be delivered.
		// The unit is the j-th underlying write of a Write call of c bytes that
		// started at stream offset s0: if it is the first one, nothing of this
		// call may arrive; otherwise at least one byte of the call must be missing.
		if j == 0 {
			s.limit[d] = s0
		} else {
			s.limit[d] = s0 + c - 1
		}
	}
	s.r.Count(name, 1)
	s.r.Tracef("  fault %s dir=%s phase=%d unit=%d off=%d/%d (write #%d of %d, call at %d+%d)", f.Kind, dirName(d), s.phase, ord, off, ulen, j, k, s0, c)
}

// flushHeld lets a unit held back by a swap fault go when no further unit came.
func (s *sim) flushHeld() bool {
	moved := false
	for d := 0; d < 2; d++ {
		if h := s.h[d]; h.held != nil {
			if !h.cut {
				h.wire = append(h.wire, h.held...)
			}
			h.held = nil
			moved = true
		}
	}
	return moved
}

func (s *sim) closeLink() {
	for d := 0; d < 2; d++ {
		s.h[d].closeWrite()
	}
}

// handshake runs fa and fb (the two sides' handshakes) in their own goroutines
// and schedules the link in rounds until both have returned.
func (s *sim) handshake(fa, fb func() (*connection.SecretConnection, error)) (res [2]hsRes) {
	ch := [2]chan hsRes{make(chan hsRes, 1), make(chan hsRes, 1)}
	for i, f := range []func() (*connection.SecretConnection, error){fa, fb} {
		i, f := i, f
		go s.box.guard(func() {
			sc, err := f()
			ch[i] <- hsRes{sc: sc, err: err, done: true}
		})
		// Side A draws its ephemeral key before side B starts: the order in which
		// the two sides consume the random stream is fixed.
		synctest.Wait()
	}
	step, closed := 0, false
	for round := 0; ; round++ {
		synctest.Wait()
		if s.box.hit() {
			return
		}
		for i := 0; i < 2; i++ {
			if !res[i].done {
				select {
				case res[i] = <-ch[i]:
				default:
				}
			}
		}
		if res[0].done && res[1].done {
			s.r.Count("hs.rounds", round)
			return
		}
		moved := false
		for d := 0; d < 2; d++ {
			if s.release(d, 0, 0) {
				moved = true
			}
			n := 0
			if len(s.p.HSTrickle) > 0 && step < 4000 {
				n = s.p.HSTrickle[step%len(s.p.HSTrickle)]
				step++
			}
			if s.h[d].deliver(n) {
				moved = true
			}
		}
		if moved {
			continue
		}
		if s.flushHeld() {
			continue
		}
		if closed {
			harnessf("handshake goroutines neither finish nor wait on the link (plan mode %d)", s.p.Mode)
		}
		// Nobody can make progress: a peer that waits for bytes that never come
		// gives up (connection closed), as a dial/handshake timeout would do.
		s.r.Count("hs.stuck_closed", 1)
		s.r.Tracef("  handshake stuck: link closed")
		s.closeLink()
		closed = true
	}
}

func (s *sim) startRead(side, buflen, op int, drain bool) {
	d := 1 - side
	pr := &pendingRead{res: make(chan readRes, 1), drain: drain, op: op}
	pr.buf = make([]byte, buflen)
	for i := range pr.buf {
		// Sentinel: differs from the byte the model expects at this position, so
		// both "written but not reported" and "reported but not written" show.
		pr.buf[i] = streamByte(s.p.Salt, d, s.delivered[d]+i) ^ 0xA5
	}
	pr.sentinel = append([]byte(nil), pr.buf...)
	s.pend[side] = pr
	sc := s.sc[side]
	go s.box.guard(func() {
		n, err := sc.Read(pr.buf)
		pr.res <- readRes{n, err}
	})
	synctest.Wait()
	s.poll()
	if p := s.pend[side]; p != nil && !p.blocked {
		p.blocked = true
		s.r.Count("probe.read_blocked", 1)
		if !drain {
			s.r.Tracef("%d r %s buf=%d -> blocked", op, sideName(side), buflen)
		}
	}
}

func (s *sim) poll() {
	for side := 0; side < 2; side++ {
		pr := s.pend[side]
		if pr == nil {
			continue
		}
		select {
		case res := <-pr.res:
			s.pend[side] = nil
			s.checkRead(side, pr, res)
		default:
		}
	}
}

// checkRead is the byte-stream oracle for one completed Read call.
func (s *sim) checkRead(side int, pr *pendingRead, res readRes) {
	d := 1 - side
	n, buflen := res.n, len(pr.buf)
	if pr.blocked {
		s.r.Count("probe.read_blocked_then_completed", 1)
	}
	if !pr.drain {
		s.r.Tracef("%d r %s buf=%d -> n=%d err=%s (stream %s at %d of %d)", pr.op, sideName(side), buflen, n, errClass(res.err), dirName(d), s.delivered[d], s.sent[d])
	} else if pr.op < 16 {
		s.r.Tracef("  drain r %s buf=%d -> n=%d err=%s (stream %s at %d of %d)", sideName(side), buflen, n, errClass(res.err), dirName(d), s.delivered[d], s.sent[d])
	}
	s.dataReads++
	if n < 0 || n > buflen {
		s.viol("read-n-out-of-range", "side %s Read(buffer of %d) returned n=%d", sideName(side), buflen, n)
		return
	}
	// Bytes beyond the reported n must be untouched.
	for i := n; i < buflen; i++ {
		if pr.buf[i] != pr.sentinel[i] {
			last := i
			for j := i; j < buflen; j++ {
				if pr.buf[j] != pr.sentinel[j] {
					last = j
				}
			}
			isData := bytes.Equal(pr.buf[i:last+1], s.streamBytes(d, s.delivered[d]+i, last+1-i))
			s.viol("read-n-vs-buffer", "side %s Read(buffer of %d) returned n=%d err=%v but wrote into buffer[%d..%d] (those bytes %s the next bytes of the stream, position %d): the caller is told %d bytes arrived while %d were placed in its buffer",
				sideName(side), buflen, n, res.err, i, last, map[bool]string{true: "ARE", false: "are not"}[isData], s.delivered[d]+i, n, last+1)
			return
		}
	}
	// The n reported bytes continue the sender's stream exactly.
	if s.delivered[d]+n > s.sent[d] {
		s.viol("read-more-than-written", "side %s received %d bytes at stream position %d of direction %s, but only %d bytes were ever written",
			sideName(side), n, s.delivered[d], dirName(d), s.sent[d])
		return
	}
	want := s.streamBytes(d, s.delivered[d], n)
	for i := 0; i < n; i++ {
		if pr.buf[i] != want[i] {
			what := "wrong byte"
			if pr.buf[i] == pr.sentinel[i] {
				what = "byte reported as read but never placed in the buffer"
			}
			s.viol("read-wrong-bytes", "side %s Read(buffer of %d) n=%d: %s at buffer[%d] = stream position %d of direction %s (got %#x want %#x); %d of %d written bytes had been delivered correctly before",
				sideName(side), buflen, n, what, i, s.delivered[d]+i, dirName(d), pr.buf[i], want[i], s.delivered[d], s.sent[d])
			return
		}
	}
	s.delivered[d] += n
	if n > 0 {
		s.r.Count("bytes.delivered", n)
		if n == buflen && s.delivered[d] < s.sent[d] {
			s.r.Count("probe.buffer_filled_more_outstanding", 1)
		}
	}
	if s.fired[d] && s.limit[d] >= 0 && s.delivered[d] > s.limit[d] {
		s.viol("tampered-frame-delivered", "direction %s: a %s hit the ciphertext so that at most %d stream bytes could be authentic, but %d bytes were delivered as data",
			dirName(d), s.firedKind[d], s.limit[d], s.delivered[d])
		return
	}
	if res.err != nil {
		s.errSeen[d] = true
		switch {
		case s.closing:
			s.r.Count("read.error_at_close", 1)
		case s.fired[d]:
			s.r.Count("probe.fault_detected_by_read_error", 1)
		default:
			s.viol("read-error-on-clean-link", "side %s Read(buffer of %d) failed with %q although nothing was tampered with in direction %s (%d of %d bytes delivered)",
				sideName(side), buflen, res.err.Error(), dirName(d), s.delivered[d], s.sent[d])
		}
		return
	}
	if n == 0 && buflen > 0 {
		s.zeroStreak[d]++
		s.r.Count("read.zero_nil", 1)
		if s.zeroStreak[d] > 8 {
			s.viol("read-no-progress", "side %s: %d consecutive Read calls with a non-empty buffer returned (0, nil) while %d written bytes are undelivered",
				sideName(side), s.zeroStreak[d], s.sent[d]-s.delivered[d])
		}
	} else if n > 0 {
		s.zeroStreak[d] = 0
	}
}

func (s *sim) doWrite(i int, op *Op) {
	side := op.Side & 1
	d := side
	remaining, ci, nchunks := op.Size, 0, 0
	for remaining > 0 || nchunks == 0 {
		c := remaining
		if len(op.Chunks) > 0 && nchunks < 16 {
			if x := op.Chunks[ci%len(op.Chunks)]; x > 0 && x < c {
				c = x
			}
			ci++
		}
		s0 := s.sent[d]
		chunk := s.streamBytes(d, s0, c)
		orig := append([]byte(nil), chunk...)
		n, err := s.sc[side].Write(chunk)
		if s.pend[side] != nil {
			s.r.Count("probe.write_while_own_read_pending", 1)
		}
		if n < 0 || n > c {
			s.viol("write-n-out-of-range", "side %s Write(%d bytes) returned n=%d", sideName(side), c, n)
			return
		}
		if !bytes.Equal(chunk, orig) {
			s.viol("write-modifies-input", "side %s Write(%d bytes) modified the caller's slice", sideName(side), c)
			return
		}
		if err != nil {
			s.viol("write-error", "side %s Write(%d bytes) failed with %q on an open link", sideName(side), c, err.Error())
			return
		}
		if n != c {
			s.viol("short-write", "side %s Write(%d bytes) returned n=%d without an error", sideName(side), c, n)
			return
		}
		s.sent[d] += n
		s.r.Count("bytes.written", n)
		h := s.h[d]
		h.mu.Lock()
		units := len(h.staged)
		h.mu.Unlock()
		s.r.Count("units.sent", units)
		s.r.Tracef("%d w %s %d bytes at %d -> n=%d units=%d hold=%v trickle=%v", i, sideName(side), c, s0, n, units, op.Hold, op.Trickle)
		s.release(d, s0, c)
		if !op.Hold {
			for t, step := range op.Trickle {
				if t >= 8 || step <= 0 {
					break
				}
				h.deliver(step)
				synctest.Wait()
				s.poll()
			}
			h.deliver(0)
		} else {
			s.r.Count("probe.ciphertext_held_in_flight", 1)
		}
		synctest.Wait()
		s.poll()
		remaining -= c
		nchunks++
		if s.r.Failed() || s.box.hit() {
			return
		}
	}
}

// drainDir reads direction d to its end with the plan's buffer sizes.
func (s *sim) drainDir(d int) {
	side := 1 - d
	reads, start, extra := 0, s.delivered[d], false
	outcome := ""
	for outcome == "" && !s.r.Failed() && !s.box.hit() {
		switch {
		case s.errSeen[d]:
			outcome = "error" // the fault (or anything else) has been reported to the reader
		case s.pend[side] != nil:
			outcome = "blocked"
		case s.delivered[d] >= s.sent[d] && (!s.fired[d] || extra):
			outcome = "complete"
		default:
			if s.delivered[d] >= s.sent[d] {
				extra = true // one more Read so that a stale/duplicated frame on the wire is looked at
			}
			buflen := 4096
			if reads < 2048 {
				buflen = s.p.DrainBuf[reads%len(s.p.DrainBuf)]
				if buflen <= 0 {
					buflen = 1
				}
			}
			s.startRead(side, buflen, reads, true)
			reads++
		}
	}
	if outcome == "" {
		return
	}
	out := s.sent[d] - s.delivered[d]
	s.r.Tracef("drain %s: %d reads, %d bytes, end=%s, undelivered=%d", dirName(d), reads, s.delivered[d]-start, outcome, out)
	s.r.Count("drain."+outcome, 1)
	if outcome != "blocked" {
		return
	}
	switch {
	case !s.fired[d]:
		if out > 0 {
			s.viol("bytes-lost", "direction %s: Read blocks although %d of the %d written bytes were never delivered and the whole ciphertext has reached the receiver intact",
				dirName(d), out, s.sent[d])
		}
	case s.firedKind[d] == "corrupt":
		s.viol("tamper-undetected", "direction %s: a ciphertext byte was modified in transit, the receiver consumed the whole ciphertext (%d of %d bytes delivered) and no Read reported an error",
			dirName(d), s.delivered[d], s.sent[d])
	case s.firedKind[d] == "dup" || s.firedKind[d] == "swap" || s.firedKind[d] == "reflect":
		if out > 0 {
			s.viol("bytes-lost", "direction %s: after a %s of ciphertext frames Read blocks with %d written bytes undelivered and no error was reported",
				dirName(d), s.firedKind[d], out)
		}
	}
}

func (s *sim) initLink() {
	s.mode = modeName[s.p.Mode]
	s.limit = [2]int{-1, -1}
	for d := 0; d < 2; d++ {
		s.h[d] = newHalf(s.p.Seg[d])
	}
	s.ep[0] = &endpoint{in: s.h[1], out: s.h[0]}
	s.ep[1] = &endpoint{in: s.h[0], out: s.h[1]}
}

func (s *sim) run() {
	p := s.p
	s.initLink()
	s.priv[0], s.priv[1] = longTermKey(p.KeyA&3), longTermKey(4+p.KeyB&3)
	for i := 0; i < 2; i++ {
		s.pub[i] = s.priv[i].XPub().PublicKey()
	}
	if p.Mode == modeFaults {
		for i := range p.Faults {
			f := &p.Faults[i]
			if s.fault[f.Dir&1] == nil {
				s.fault[f.Dir&1] = f
			}
		}
	}
	s.r.Tracef("mode=%s keys=%d/%d seg=%v hs_trickle=%v", s.mode, p.KeyA, p.KeyB, p.Seg, p.HSTrickle)

	if p.Mode == modeImpostor {
		s.runImpostor()
		return
	}

	res := s.handshake(
		func() (*connection.SecretConnection, error) {
			return connection.MakeSecretConnection(s.ep[0], s.priv[0])
		},
		func() (*connection.SecretConnection, error) {
			return connection.MakeSecretConnection(s.ep[1], s.priv[1])
		},
	)
	if s.box.hit() {
		return
	}
	for i := 0; i < 2; i++ {
		s.r.Tracef("handshake %s: err=%s", sideName(i), errClass(res[i].err))
		if res[i].err != nil {
			if !s.hsFired {
				s.viol("handshake-failed", "side %s: MakeSecretConnection between two honest peers over an untampered link failed: %q", sideName(i), res[i].err.Error())
			}
			continue
		}
		if res[i].sc == nil {
			s.viol("handshake-nil", "side %s: MakeSecretConnection returned neither a connection nor an error", sideName(i))
			continue
		}
		// Each side learns the key the other side authenticated with.
		if got := []byte(res[i].sc.RemotePubKey()); !bytes.Equal(got, s.pub[1-i]) {
			s.viol("remote-key-mismatch", "side %s: RemotePubKey() = %x, but the peer authenticated with %x", sideName(i), got, s.pub[1-i])
		}
		if s.hsTamper[1-i] {
			s.viol("handshake-tamper-undetected", "side %s completed the handshake although a %s hit the handshake bytes it received", sideName(i), s.firedKind[1-i])
		}
		s.sc[i] = res[i].sc
	}
	if s.r.Failed() {
		s.closeLink()
		synctest.Wait()
		return
	}
	if res[0].err != nil || res[1].err != nil {
		// Only reachable after a handshake-phase fault: nothing is established.
		s.r.Count("hs.failed_after_fault", 1)
		s.r.NonTrivial()
		s.ep[0].Close()
		s.ep[1].Close()
		synctest.Wait()
		return
	}
	s.r.Count("hs.established", 1)
	s.flushHeld()
	for d := 0; d < 2; d++ {
		s.release(d, 0, 0)
		s.h[d].deliver(0)
	}
	s.phase = 1

	for i := range p.Ops {
		op := &p.Ops[i]
		switch op.K {
		case "w":
			s.doWrite(i, op)
		case "r":
			side := op.Side & 1
			if s.pend[side] != nil {
				s.r.Count("op.read_skipped_while_pending", 1)
				s.r.Tracef("%d r %s skipped (a Read of that side is still blocked)", i, sideName(side))
				break
			}
			if s.errSeen[1-side] {
				s.r.Count("op.read_after_error", 1)
			}
			size := op.Size
			if size < 0 {
				size = 0
			}
			s.startRead(side, size, i, false)
		default:
			harnessf("unknown op kind %q", op.K)
		}
		if s.r.Failed() || s.box.hit() {
			break
		}
	}

	// Everything still in flight reaches the receivers, then both directions are read to the end.
	if !s.r.Failed() && !s.box.hit() {
		s.flushHeld()
		for d := 0; d < 2; d++ {
			s.release(d, s.sent[d], 0)
			s.h[d].deliver(0)
		}
		synctest.Wait()
		s.poll()
		for d := 0; d < 2 && !s.r.Failed(); d++ {
			s.drainDir(d)
		}
		for d := 0; d < 2 && !s.r.Failed(); d++ {
			if !s.fired[d] && s.delivered[d] != s.sent[d] {
				s.viol("bytes-lost", "direction %s: %d bytes written, %d delivered at the end of a run without faults in that direction", dirName(d), s.sent[d], s.delivered[d])
			}
		}
	}
	if !s.r.Failed() {
		nt := s.delivered[0]+s.delivered[1] > 0 && s.dataReads >= 2
		if p.Mode == modeFaults {
			nt = s.fired[0] || s.fired[1]
		}
		if nt {
			s.r.NonTrivial()
		}
		for d := 0; d < 2; d++ {
			h := s.h[d]
			s.r.Count("link.reads", h.nreads)
			if h.min1 > 0 {
				s.r.Count("probe.link_read_1byte", 1)
			}
			if h.short > 0 {
				s.r.Count("probe.link_read_short", 1)
			}
		}
	}
	// Close both ends; Reads still blocked must return.
	s.closing = true
	s.sc[0].Close()
	s.sc[1].Close()
	synctest.Wait()
	s.poll()
	if !s.box.hit() && (s.pend[0] != nil || s.pend[1] != nil) {
		harnessf("a Read is still blocked after both ends were closed")
	}
}

// ---------------------------------------------------------------- impostor (attacker model)

type authMsg struct {
	Key []byte
	Sig []byte
}

// impostorHandshake is side B in mode 2. It speaks the handshake as the code at
// HEAD does (ephemeral X25519 key in the clear, then one sealed frame carrying
// key+signature) but fills in the credentials the plan asks for. It is workload,
// not oracle: if the wire protocol changes, the reach probes drop to zero.
func (s *sim) impostorHandshake(ep *endpoint, own, third chainkd.XPrv, kind string, replay *authMsg) (harvested *authMsg) {
	imp := s.p.Imp
	ephPub, ephPriv, err := box.GenerateKey(crand.Reader)
	if err != nil {
		harnessf("box.GenerateKey: %v", err)
	}
	ep.Write(ephPub[:])
	var rem [32]byte
	if _, err := io.ReadFull(ep, rem[:]); err != nil {
		return nil
	}
	var shared [32]byte
	box.Precompute(&shared, &rem, ephPriv)
	lo, hi, locIsLo := ephPub[:], rem[:], true
	if bytes.Compare(lo, hi) >= 0 {
		lo, hi, locIsLo = hi, lo, false
	}
	both := append(append([]byte{}, lo...), hi...)
	rh := ripemd160.New()
	rh.Write(both)
	var nonce1, nonce2 [24]byte
	copy(nonce1[:], rh.Sum(nil))
	nonce2 = nonce1
	nonce2[23] ^= 1
	send := &nonce2
	if !locIsLo {
		send = &nonce1
	}
	challenge := sha256.Sum256(both)

	var key, sig []byte
	switch kind {
	case "honest":
		key, sig = own.XPub().PublicKey(), own.Sign(challenge[:])
	case "wrong-signer": // claims a third party's key, signs with its own
		key, sig = third.XPub().PublicKey(), own.Sign(challenge[:])
	case "replayed-sig": // a signature the third party made over some other session's challenge
		other := sha256.Sum256(challenge[:])
		key, sig = third.XPub().PublicKey(), third.Sign(other[:])
	case "bitflip-sig":
		key, sig = own.XPub().PublicKey(), own.Sign(challenge[:])
		sig[(imp.Bit/8)%len(sig)] ^= 1 << uint(imp.Bit%8)
	case "zero-sig":
		key, sig = third.XPub().PublicKey(), make([]byte, 64)
	case "harvested-replay": // the third party's genuine credentials, taken from another session
		key, sig = replay.Key, replay.Sig
	default:
		harnessf("unknown forgery kind %q", kind)
	}
	msg := wire.BinaryBytes(authMsg{key, sig})
	frame := make([]byte, 2+1024)
	binary.BigEndian.PutUint16(frame, uint16(len(msg)))
	copy(frame[2:], msg)
	sealed := secretbox.Seal(nil, frame, send, &shared)
	ep.Write(sealed)
	// The peer's own credentials: opened only to harvest them for a later replay.
	theirs := make([]byte, len(sealed))
	if _, err := io.ReadFull(ep, theirs); err != nil {
		return nil
	}
	recv := &nonce1
	if !locIsLo {
		recv = &nonce2
	}
	plain, ok := secretbox.Open(nil, theirs, recv, &shared)
	if !ok || len(plain) < 2 {
		return nil
	}
	l := int(binary.BigEndian.Uint16(plain))
	if l > len(plain)-2 {
		return nil
	}
	var n int
	var rerr error
	m, _ := wire.ReadBinary(authMsg{}, bytes.NewBuffer(plain[2:2+l]), l, &n, &rerr).(authMsg)
	if rerr != nil || len(m.Key) == 0 {
		return nil
	}
	return &m
}

func (s *sim) runImpostor() {
	imp := s.p.Imp
	if imp == nil {
		harnessf("impostor mode without impostor")
	}
	own := longTermKey(4 + s.p.KeyB&3)
	third := longTermKey(8 + imp.KeyX&3)
	var replay *authMsg
	if imp.Kind == "harvested-replay" {
		// Session 0: the third party, a real endpoint with its real key, connects
		// to the attacker, who behaves honestly there and keeps the key and the
		// challenge signature it is shown. Session 1 replays them to the victim.
		h0 := &sim{r: s.r, p: s.p, box: s.box}
		h0.initLink()
		res0 := h0.handshake(
			func() (*connection.SecretConnection, error) {
				return connection.MakeSecretConnection(h0.ep[0], third)
			},
			func() (*connection.SecretConnection, error) {
				replay = h0.impostorHandshake(h0.ep[1], own, third, "honest", nil)
				return nil, nil
			},
		)
		h0.ep[0].Close()
		h0.ep[1].Close()
		synctest.Wait()
		if s.box.hit() {
			return
		}
		// (whether the third party accepted the attacker does not matter: it has shown its credentials)
		_ = res0
		if replay == nil || !bytes.Equal(replay.Key, third.XPub().PublicKey()) {
			s.r.Count("impostor.harvest_failed", 1)
			s.r.Tracef("impostor harvested-replay: nothing harvested")
			s.ep[0].Close()
			s.ep[1].Close()
			return
		}
		s.r.Count("probe.credentials_harvested", 1)
	}
	res := s.handshake(
		func() (*connection.SecretConnection, error) {
			return connection.MakeSecretConnection(s.ep[0], s.priv[0])
		},
		func() (*connection.SecretConnection, error) {
			s.impostorHandshake(s.ep[1], own, third, imp.Kind, replay)
			return nil, nil
		},
	)
	if s.box.hit() {
		return
	}
	v := res[0]
	s.r.Tracef("impostor %s: victim err=%s", imp.Kind, errClass(v.err))
	s.r.Count("impostor."+imp.Kind, 1)
	switch {
	case imp.Kind == "honest":
		// Control: the emulated peer with genuine credentials. Whether it is
		// accepted is reach information; a wrong learned key is a violation.
		if v.err == nil && v.sc != nil {
			s.r.Count("probe.emulated_peer_accepted", 1)
			s.r.NonTrivial()
			if got := []byte(v.sc.RemotePubKey()); !bytes.Equal(got, []byte(own.XPub().PublicKey())) {
				s.viol("remote-key-mismatch", "victim: RemotePubKey() = %x, but the peer authenticated with %x", got, []byte(own.XPub().PublicKey()))
			}
		} else {
			s.r.Count("impostor.emulated_peer_rejected", 1)
		}
	case v.err == nil:
		got := []byte(nil)
		if v.sc != nil {
			got = v.sc.RemotePubKey()
		}
		s.r.Violate("forged-credentials-accepted", imp.Kind, "victim completed the handshake and reports RemotePubKey() = %x although the peer presented no valid signature of this session's challenge under that key (forgery kind %s)", got, imp.Kind)
	default:
		if errClass(v.err) == "challenge" {
			s.r.Count("probe.forgery_rejected_at_signature_check", 1)
			s.r.NonTrivial()
		} else {
			s.r.Count("impostor.rejected_elsewhere", 1)
		}
	}
	s.ep[0].Close()
	s.ep[1].Close()
	synctest.Wait()
}

// ---------------------------------------------------------------- exec

func execC32(t *testing.T, plan any, r *simkit.Run) {
	p := plan.(*C32Plan)
	if p.Mode < 0 || p.Mode > 2 || len(p.DrainBuf) == 0 {
		harnessf("malformed plan")
	}
	s := &sim{r: r, p: p, box: &panicBox{}}
	realRand := crand.Reader
	crand.Reader = &detRand{seed: p.Eph}
	defer func() { crand.Reader = realRand }()
	func() {
		defer func() {
			if pv := recover(); pv != nil {
				// Every goroutine of a run ends once the link is closed; blocked
				// leftovers (or anything else) are harness trouble, never a finding.
				harnessf("bubble ended abnormally: %v\n%s", pv, debug.Stack())
			}
		}()
		synctest.Test(t, func(t *testing.T) {
			s.box.guard(s.run)
			if s.box.hit() {
				// let the other goroutines end
				s.closeLink()
				for d := 0; d < 2; d++ {
					s.h[d].closeRead()
				}
			}
		})
	}()
	if s.box.val != nil {
		// Re-raise on the exec goroutine with the original stack: simkit turns a
		// panic with a Bytom frame into a violation, anything else into exit 2.
		panic(&simkit.CapturedPanic{Val: s.box.val, Stack: s.box.stack})
	}
}

// SpecC32 is the C32 check.
func SpecC32() simkit.Spec {
	return simkit.Spec{
		Prop:    "C32",
		Gen:     genC32,
		NewPlan: func() any { return &C32Plan{} },
		Exec:    execC32,
		Rule: "one run = one handshake of two real SecretConnection endpoints over a simulated duplex byte link, then 1-14 ops (write a message of 0/1/2/100/1023/1024/1025/2047/2048/2049/3000/4096/5000 or any 0-6000 bytes split into Write calls of 1..3000 bytes; one Read with a buffer of 0-4096 bytes) by either side in either direction, then both directions are read to the end with 1-3 cyclic buffer sizes; " +
			"the link returns 1 byte .. unlimited per underlying Read (cyclic pattern per direction), hands ciphertext over in plan-chosen steps (also mid-frame, also during the handshake) or holds it back; " +
			"three plan modes: faultfree (strict equality), faults (one of corrupt-one-byte / truncate+close / duplicate / swap / drop / reflect-into-the-opposite-direction of the n-th ciphertext unit per direction, in the handshake or the data phase), impostor (side B presents forged credentials); " +
			"non-trivial = faultfree: data delivered through >=2 Read calls; faults: a fault actually fired; impostor: the victim reached its signature check (or accepted the genuine emulated peer); distinct = hash of the whole trace (sizes, n, error classes, fault positions; never ciphertext or keys)",
		Components: map[string]string{
			"p2p/connection.SecretConnection (MakeSecretConnection, Read, Write, RemotePubKey, Close)": "real",
			"crypto/ed25519/chainkd, nacl box/secretbox, tmlibs Parallel, go-wire":                     "real",
			"network":       "stub: in-memory duplex byte link (two byte queues, blocking Read on sync.Cond inside a synctest bubble); the driver alone moves bytes and applies faults, only while every goroutine is blocked",
			"impostor peer": "stub attacker: harness code speaking the handshake wire format of the code at HEAD with forged key/signature (workload only, not an oracle)",
		},
		Assumptions: []string{
			"the ephemeral keys are drawn from crypto/rand.Reader, which the engine replaces for the duration of a run by a plan-seeded deterministic stream (assignment to the package variable inside the test binary; nothing in /repo changes): 4096 different key pairs per side, both nonce parities and both lo/hi roles occur; traces still carry only sizes, n and error classes",
			"one underlying Write call of the sender = one ciphertext unit; after a corrupt/truncate/drop of a unit that is not the first one of its Write call the bound on deliverable bytes is 'at least one byte of that call missing' (exact when it is the first)",
			"after dup/swap/reflect the receiver may either report an error or deliver everything exactly once; after drop of the last unit the receiver may wait forever (undetectable tail loss)",
			"a side whose handshake can make no progress is released by closing the link (stands for the dial/handshake timeout of p2p); handshake failure is accepted only after a handshake-phase fault fired",
			"Read and Write of one endpoint are exercised from different goroutines but never at the same instant (one runnable goroutine at a time); data races are out of scope here (C37)",
			"payload content is a fixed function of stream position and a salt; arbitrary byte values appear, arbitrary structure does not matter to a byte stream",
		},
		FaultKinds: []string{"fault.corrupt", "fault.truncate", "fault.dup", "fault.swap", "fault.drop", "fault.reflect",
			"fault.corrupt_hs", "fault.truncate_hs", "fault.dup_hs", "fault.swap_hs", "fault.drop_hs", "fault.reflect_hs",
			"impostor.wrong-signer", "impostor.replayed-sig", "impostor.bitflip-sig", "impostor.zero-sig", "impostor.harvested-replay"},
		Probes: []string{"probe.buffer_filled_more_outstanding", "probe.read_blocked_then_completed", "probe.write_while_own_read_pending",
			"probe.ciphertext_held_in_flight", "probe.link_read_1byte", "probe.link_read_short", "probe.fault_detected_by_read_error",
			"probe.forgery_rejected_at_signature_check", "probe.emulated_peer_accepted", "probe.credentials_harvested"},
	}
}
