package connsim

import (
	"io"
	"sync"
)

// half is one direction of the simulated duplex byte link.
//
// Bytes travel   Write -> staged (one unit per Write call)
//
//	-> wire   (released by the driver, in-transit faults applied here)
//	-> avail  (delivered by the driver, possibly a few bytes at a time)
//	-> Read   (returns at most the next entry of the segmentation pattern).
//
// Only the driver moves bytes between the stages, and it does so only while every
// other goroutine of the bubble is durably blocked (after synctest.Wait), so the
// byte stream every Read sees is a function of the plan alone.
type half struct {
	mu      sync.Mutex
	cond    *sync.Cond
	staged  [][]byte // written, not yet released by the driver
	wire    []byte   // in flight (after faults)
	avail   []byte   // readable now
	held    []byte   // unit kept back by a "swap" fault until the next unit has passed it
	cut     bool     // a truncation fired: nothing more enters the wire, EOF once it is drained
	wclosed bool     // the writing side closed its end: Write fails, Read returns EOF once avail is empty
	eof     bool     // the link went down after a truncation: Read returns EOF once avail is empty (the writer does not notice)
	rclosed bool     // the reading side closed its end
	seg     []int    // cyclic per-Read maximum (0 = as much as asked for)
	segi    int
	ord     [2]int // next unit ordinal, per phase
	nreads  int
	min1    int // number of Reads that returned exactly one byte
	short   int // number of Reads that returned less than asked although more was asked
}

func newHalf(seg []int) *half {
	h := &half{seg: seg}
	h.cond = sync.NewCond(&h.mu)
	return h
}

func (h *half) read(p []byte) (int, error) {
	h.mu.Lock()
	defer h.mu.Unlock()
	for {
		if h.rclosed {
			return 0, io.ErrClosedPipe
		}
		if len(p) == 0 {
			return 0, nil
		}
		if len(h.avail) > 0 {
			n := len(p)
			if len(h.seg) > 0 {
				if s := h.seg[h.segi%len(h.seg)]; s > 0 && s < n {
					n = s
				}
				h.segi++
			}
			if n > len(h.avail) {
				n = len(h.avail)
			}
			copy(p, h.avail[:n])
			h.avail = h.avail[n:]
			h.nreads++
			if n == 1 {
				h.min1++
			}
			if n < len(p) {
				h.short++
			}
			return n, nil
		}
		if h.wclosed || h.eof {
			return 0, io.EOF
		}
		h.cond.Wait() // durably blocking inside a synctest bubble
	}
}

func (h *half) write(p []byte) (int, error) {
	h.mu.Lock()
	defer h.mu.Unlock()
	if h.wclosed {
		return 0, io.ErrClosedPipe
	}
	h.staged = append(h.staged, append([]byte(nil), p...))
	return len(p), nil
}

func (h *half) takeStaged() [][]byte {
	h.mu.Lock()
	defer h.mu.Unlock()
	u := h.staged
	h.staged = nil
	return u
}

// deliver moves up to n wire bytes (n <= 0: all) to the reader; reports whether anything moved.
func (h *half) deliver(n int) bool {
	h.mu.Lock()
	defer h.mu.Unlock()
	if n <= 0 || n > len(h.wire) {
		n = len(h.wire)
	}
	moved := n > 0
	h.avail = append(h.avail, h.wire[:n]...)
	h.wire = h.wire[n:]
	if len(h.wire) == 0 && h.cut && !h.eof {
		h.eof = true
		moved = true
	}
	h.cond.Broadcast()
	return moved
}

func (h *half) closeWrite() {
	h.mu.Lock()
	h.wclosed = true
	h.cond.Broadcast()
	h.mu.Unlock()
}

func (h *half) closeRead() {
	h.mu.Lock()
	h.rclosed = true
	h.cond.Broadcast()
	h.mu.Unlock()
}

// endpoint is one side's io.ReadWriteCloser.
type endpoint struct {
	in, out *half
}

func (e *endpoint) Read(p []byte) (int, error)  { return e.in.read(p) }
func (e *endpoint) Write(p []byte) (int, error) { return e.out.write(p) }
func (e *endpoint) Close() error {
	e.out.closeWrite()
	e.in.closeRead()
	return nil
}
