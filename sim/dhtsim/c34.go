// Package dhtsim decides C34 (DHT routing table keeps its invariants) by seeded
// histories of add / stuff / delete / deleteReplace / bump against the real,
// unexported p2p/discover/dht.Table (driven through the verif hook wrapper), over
// node ids engineered to collide in one to three buckets, checking the table
// invariants after every operation.
package dhtsim

import (
	"crypto/sha3"
	"encoding/binary"
	"fmt"
	"math/bits"
	"os"
	"strings"
	"testing"

	"github.com/bytom/bytom/p2p/discover/dht"
	"pgregory.net/rapid"

	"verif/sim/simkit"
)

// ---------------------------------------------------------------------------
// plan

// Target names a node abstractly; it is resolved against the live table state
// just before the operation runs, so every tape is executable.
type Target struct {
	// S: 0 = I-th node of the population, 1 = I-th current bucket entry,
	// 2 = I-th current replacement-list member, 3 = I-th population member that is
	// currently nowhere in the table, 4 = the local node itself.
	S int `json:"s"`
	I int `json:"i"`
}

// Op is one table operation.
type Op struct {
	Kind string   `json:"k"` // add | stuff | delete | deleteReplace | bump
	T    Target   `json:"t"`
	Ts   []Target `json:"ts,omitempty"` // stuff only
}

// BucketSpec asks for N node ids at log-distance 256-Off from the local node.
type BucketSpec struct {
	Off int `json:"off"`
	N   int `json:"n"`
}

// C34Plan is one history.
type C34Plan struct {
	SelfSeed int          `json:"self_seed"`
	Buckets  []BucketSpec `json:"buckets"`
	Ops      []Op         `json:"ops"`
}

const (
	maxOff     = 9  // distances 247..256; the rarest needs ~1024 candidates per id
	maxPerDist = 64 // ids taken per distance
	selfSeeds  = 8
)

var opKinds = []string{"add", "stuff", "delete", "deleteReplace", "bump"}

func genTarget(rt *rapid.T, selW []int) Target {
	return Target{S: pickWeighted(rt, "sel", selW), I: rapid.IntRange(0, 63).Draw(rt, "idx")}
}

// pickWeighted draws an index with the given weights; index 0 is the tamest.
func pickWeighted(rt *rapid.T, label string, w []int) int {
	total := 0
	for _, x := range w {
		total += x
	}
	v := rapid.IntRange(0, total-1).Draw(rt, label)
	for i, x := range w {
		if v < x {
			return i
		}
		v -= x
	}
	return 0
}

func genC34(rt *rapid.T) any {
	p := &C34Plan{SelfSeed: rapid.IntRange(0, selfSeeds-1).Draw(rt, "self")}
	nb := rapid.IntRange(1, 3).Draw(rt, "nbuckets")
	lo, hi := (20+nb-1)/nb, 60/nb // population 20..60 in total
	for i := 0; i < nb; i++ {
		l, h := lo, hi
		if i == 0 { // the first bucket can always overflow
			l, h = max(lo, 18), max(hi, 24)
		} else {
			h = min(hi, (60-max(hi, 24))/(nb-1)) // keep the total <= 60
		}
		p.Buckets = append(p.Buckets, BucketSpec{
			Off: rapid.IntRange(0, maxOff).Draw(rt, "off"),
			N:   rapid.IntRange(l, h).Draw(rt, "n"),
		})
	}
	// per-run mixes
	kindW := make([]int, len(opKinds))
	for i := range kindW {
		kindW[i] = rapid.IntRange(1, 4).Draw(rt, "kindw")
	}
	selW := []int{rapid.IntRange(2, 6).Draw(rt, "selw_pop"), rapid.IntRange(0, 4).Draw(rt, "selw_entry"),
		rapid.IntRange(0, 4).Draw(rt, "selw_repl"), rapid.IntRange(0, 4).Draw(rt, "selw_fresh"), rapid.IntRange(0, 1).Draw(rt, "selw_self")}
	maxStuff := rapid.IntRange(1, 24).Draw(rt, "maxstuff")
	// optional opening bulk insertion of the first k population members (they are
	// laid out bucket after bucket), so that most runs work on full buckets
	if k := rapid.IntRange(0, 40).Draw(rt, "prefill"); k > 0 {
		if rapid.IntRange(0, 3).Draw(rt, "prefill_by_add") == 3 {
			// one add each: overflow goes to the replacement list
			for j := 0; j < k; j++ {
				p.Ops = append(p.Ops, Op{Kind: "add", T: Target{S: 0, I: j}})
			}
		} else {
			op := Op{Kind: "stuff"}
			for j := 0; j < k; j++ {
				op.Ts = append(op.Ts, Target{S: 0, I: j})
			}
			p.Ops = append(p.Ops, op)
		}
	}
	// SliceOfN keeps rapid's shrinker able to drop whole ops / stuff operands.
	tgt := rapid.Custom(func(rt *rapid.T) Target { return genTarget(rt, selW) })
	opGen := rapid.Custom(func(rt *rapid.T) Op {
		op := Op{Kind: opKinds[pickWeighted(rt, "kind", kindW)]}
		if op.Kind == "stuff" {
			op.Ts = rapid.SliceOfN(tgt, rapid.IntRange(0, maxStuff).Draw(rt, "minstuff"), maxStuff).Draw(rt, "stuffed")
		} else {
			op.T = genTarget(rt, selW)
		}
		return op
	})
	minOps := rapid.IntRange(1, 40).Draw(rt, "minops") // SliceOfN alone strongly favours lengths near its minimum
	p.Ops = append(p.Ops, rapid.SliceOfN(opGen, minOps, 60).Draw(rt, "ops")...)
	return p
}

// ---------------------------------------------------------------------------
// reference notions, written from the statement

// refHash is the hash the Kademlia metric is defined over (SHA3-256 of the id;
// standard-library implementation, not the repository's).
func refHash(id dht.NodeID) [32]byte { return sha3.Sum256(id[:]) }

// refDist is the log distance: the bit length of the XOR of the two hashes.
func refDist(a, b [32]byte) int {
	for i := range a {
		if x := a[i] ^ b[i]; x != 0 {
			return (len(a)-i-1)*8 + bits.Len8(x)
		}
	}
	return 0
}

// ---------------------------------------------------------------------------
// engineered node ids (deterministic function of the self seed; memoised)

type idPool struct {
	self     dht.NodeID
	selfHash [32]byte
	next     uint64
	byDist   map[int][]dht.NodeID
}

var pools = map[int]*idPool{}

func poolFor(seed int) *idPool {
	if p := pools[seed]; p != nil {
		return p
	}
	p := &idPool{byDist: map[int][]dht.NodeID{}}
	p.self = dht.NodeID(sha3.Sum256([]byte(fmt.Sprintf("dhtsim-self-%d", seed))))
	p.selfHash = refHash(p.self)
	pools[seed] = p
	return p
}

// candidate is the c-th candidate id of a pool: a counter, so that the k-th id at
// a distance does not depend on how far anybody scanned before.
func (p *idPool) candidate(seed int, c uint64) dht.NodeID {
	var id dht.NodeID
	copy(id[:], "dhtsim-node")
	id[15] = byte(seed)
	binary.BigEndian.PutUint64(id[24:], c)
	return id
}

// ids returns the first n candidate ids whose log distance to self is dist.
func (p *idPool) ids(seed, dist, n int) []dht.NodeID {
	for len(p.byDist[dist]) < n {
		id := p.candidate(seed, p.next)
		p.next++
		d := refDist(p.selfHash, refHash(id))
		if d >= 256-maxOff && len(p.byDist[d]) < maxPerDist {
			p.byDist[d] = append(p.byDist[d], id)
		}
	}
	return p.byDist[dist][:n]
}

type world struct {
	self     dht.NodeID
	selfHash [32]byte
	pop      []dht.NodeID
	name     map[dht.NodeID]string
	dists    []int
}

func harnessFail(format string, args ...any) {
	fmt.Fprintf(os.Stderr, "dhtsim: HARNESS: "+format+"\n", args...)
	os.Exit(2)
}

func buildWorld(p *C34Plan) *world {
	seed := ((p.SelfSeed % selfSeeds) + selfSeeds) % selfSeeds
	pool := poolFor(seed)
	w := &world{self: pool.self, selfHash: pool.selfHash, name: map[dht.NodeID]string{pool.self: "self"}}
	want := map[int]int{}
	for _, b := range p.Buckets {
		d := 256 - ((b.Off%(maxOff+1))+(maxOff+1))%(maxOff+1)
		if _, ok := want[d]; !ok {
			w.dists = append(w.dists, d)
		}
		n := b.N
		if n < 1 {
			n = 1
		}
		want[d] += n
		if want[d] > maxPerDist {
			want[d] = maxPerDist
		}
	}
	if len(w.dists) == 0 {
		harnessFail("plan has no bucket specification")
	}
	for _, d := range w.dists {
		for k, id := range pool.ids(seed, d, want[d]) {
			if refDist(w.selfHash, refHash(id)) != d {
				harnessFail("engineered id %d at distance %d is not at that distance", k, d)
			}
			w.pop = append(w.pop, id)
			w.name[id] = fmt.Sprintf("d%d.%d", d, k)
		}
	}
	return w
}

func (w *world) nm(id dht.NodeID) string {
	if s, ok := w.name[id]; ok {
		return s
	}
	return fmt.Sprintf("?%x", id[:4])
}

func (w *world) names(ids []dht.NodeID) string {
	s := make([]string, len(ids))
	for i, id := range ids {
		s[i] = w.nm(id)
	}
	return "[" + strings.Join(s, " ") + "]"
}

// ---------------------------------------------------------------------------
// execution

type view struct {
	count   int
	buckets []dht.VerifBucket
	entries []dht.NodeID // flattened, bucket order
	repls   []dht.NodeID
}

func snapshot(tab *dht.VerifTable) *view {
	v := &view{}
	v.count, v.buckets = tab.Snapshot()
	for _, b := range v.buckets {
		v.entries = append(v.entries, b.Entries...)
		v.repls = append(v.repls, b.Replacements...)
	}
	return v
}

func has(ids []dht.NodeID, id dht.NodeID) bool {
	for _, x := range ids {
		if x == id {
			return true
		}
	}
	return false
}

func (v *view) bucketAt(idx int) *dht.VerifBucket {
	for i := range v.buckets {
		if v.buckets[i].Index == idx {
			return &v.buckets[i]
		}
	}
	return &dht.VerifBucket{Index: idx}
}

func (v *view) render(w *world) string {
	var sb strings.Builder
	fmt.Fprintf(&sb, "count=%d", v.count)
	for _, b := range v.buckets {
		fmt.Fprintf(&sb, "\n  bucket %d: entries(%d)=%s replacements(%d)=%s", b.Index, len(b.Entries), w.names(b.Entries), len(b.Replacements), w.names(b.Replacements))
	}
	return sb.String()
}

func (v *view) brief() string {
	var sb strings.Builder
	fmt.Fprintf(&sb, "count=%d", v.count)
	for _, b := range v.buckets {
		fmt.Fprintf(&sb, " b%d:e%d/r%d", b.Index, len(b.Entries), len(b.Replacements))
	}
	return sb.String()
}

func mod(i, n int) int { return ((i % n) + n) % n }

func (w *world) resolve(t Target, pre *view) dht.NodeID {
	switch mod(t.S, 5) {
	case 1:
		if len(pre.entries) > 0 {
			return pre.entries[mod(t.I, len(pre.entries))]
		}
	case 2:
		if len(pre.repls) > 0 {
			return pre.repls[mod(t.I, len(pre.repls))]
		}
	case 3:
		var fresh []dht.NodeID
		for _, id := range w.pop {
			if !has(pre.entries, id) && !has(pre.repls, id) {
				fresh = append(fresh, id)
			}
		}
		if len(fresh) > 0 {
			return fresh[mod(t.I, len(fresh))]
		}
	case 4:
		return w.self
	}
	return w.pop[mod(t.I, len(w.pop))]
}

const bucketCap = 16 // "at most sixteen" — named by the property

// checkInvariants is the oracle: the property statement, nothing else.
func checkInvariants(r *simkit.Run, w *world, v *view, step int, what, kind string) {
	sum := 0
	for _, b := range v.buckets {
		sum += len(b.Entries)
		if len(b.Entries) > bucketCap {
			r.Violate("bucket-overflow", kind, "after op %d (%s): bucket %d holds %d entries (> %d)\n%s", step, what, b.Index, len(b.Entries), bucketCap, v.render(w))
			return
		}
		for i, id := range b.Entries {
			if id == w.self {
				r.Violate("self-present", kind, "after op %d (%s): the local node is an entry of bucket %d\n%s", step, what, b.Index, v.render(w))
				return
			}
			if has(b.Entries[:i], id) {
				r.Violate("duplicate-entry", kind, "after op %d (%s): node %s appears twice among the entries of bucket %d\n%s", step, what, w.nm(id), b.Index, v.render(w))
				return
			}
			if d := refDist(w.selfHash, refHash(id)); d != b.Index {
				r.Violate("wrong-bucket", kind, "after op %d (%s): node %s at log-distance %d sits in bucket %d\n%s", step, what, w.nm(id), d, b.Index, v.render(w))
				return
			}
		}
		if has(b.Replacements, w.self) {
			r.Violate("self-present", kind, "after op %d (%s): the local node is in the replacement list of bucket %d\n%s", step, what, b.Index, v.render(w))
			return
		}
	}
	if v.count != sum {
		r.Violate("count-mismatch", kind, "after op %d (%s): recorded count %d, buckets hold %d entries\n%s", step, what, v.count, sum, v.render(w))
	}
}

func execC34(t *testing.T, plan any, r *simkit.Run) {
	p := plan.(*C34Plan)
	w := buildWorld(p)
	tab := dht.VerifNewTable(w.self)
	if tab.Self() != w.self {
		harnessFail("table built for another local id")
	}
	r.Tracef("self=seed%d population=%d dists=%v", p.SelfSeed, len(w.pop), w.dists)
	cur := snapshot(tab)
	checkInvariants(r, w, cur, -1, "new table", "new")
	if r.Failed() {
		return
	}

	kinds := map[string]bool{}
	sawFull, sawRepl, sawReplFull := false, false, false
	for i := range p.Ops {
		op := &p.Ops[i]
		pre := cur
		var what string
		// classify what an insertion of id is attempting, from the pre-state
		noteInsert := func(id dht.NodeID) {
			if id == w.self {
				r.Count("probe.self_insert_attempt", 1)
				return
			}
			b := pre.bucketAt(refDist(w.selfHash, refHash(id)))
			switch {
			case has(b.Entries, id):
				r.Count("probe.duplicate_insert_attempt", 1)
			case has(b.Replacements, id) && len(b.Entries) < bucketCap:
				r.Count("probe.insert_of_listed_replacement_with_room", 1)
			case has(b.Replacements, id):
				r.Count("probe.insert_of_listed_replacement_full", 1)
			case len(b.Entries) >= bucketCap:
				r.Count("probe.insert_into_full_bucket", 1)
			}
		}
		switch op.Kind {
		case "add":
			id := w.resolve(op.T, pre)
			noteInsert(id)
			c, ok := tab.Add(id)
			what = "add " + w.nm(id)
			if ok {
				what += " -> contested " + w.nm(c)
			}
		case "stuff":
			ids := make([]dht.NodeID, len(op.Ts))
			for j, tg := range op.Ts {
				ids[j] = w.resolve(tg, pre)
				noteInsert(ids[j])
				if has(ids[:j], ids[j]) {
					r.Count("probe.duplicate_within_stuff", 1)
				}
			}
			tab.Stuff(ids)
			what = "stuff " + w.names(ids)
		case "delete":
			id := w.resolve(op.T, pre)
			tab.Delete(id)
			what = "delete " + w.nm(id)
		case "deleteReplace":
			id := w.resolve(op.T, pre)
			tab.DeleteReplace(id)
			what = "deleteReplace " + w.nm(id)
		case "bump":
			id := w.resolve(op.T, pre)
			hit := tab.Bump(id)
			if hit {
				r.Count("probe.bump_hit", 1)
			}
			what = fmt.Sprintf("bump %s -> %v", w.nm(id), hit)
		default:
			harnessFail("unknown op kind %q", op.Kind)
		}
		kinds[op.Kind] = true
		cur = snapshot(tab)
		r.Tracef("%d %s | %s", i, what, cur.brief())

		// reach
		if op.Kind == "deleteReplace" {
			for _, b := range cur.buckets {
				pb := pre.bucketAt(b.Index)
				if len(b.Replacements) < len(pb.Replacements) && len(pb.Replacements) > 0 &&
					has(b.Entries, pb.Replacements[len(pb.Replacements)-1]) {
					r.Count("probe.replacement_promoted", 1)
				}
			}
		}
		for _, b := range cur.buckets {
			if len(b.Entries) >= bucketCap && !sawFull {
				sawFull = true
				r.Count("probe.run_with_full_bucket", 1)
			}
			if len(b.Replacements) > 0 && !sawRepl {
				sawRepl = true
				r.Count("probe.run_with_replacements", 1)
			}
			if len(b.Replacements) >= bucketCap && !sawReplFull {
				sawReplFull = true
				r.Count("probe.run_with_full_replacement_list", 1)
			}
		}

		checkInvariants(r, w, cur, i, what, op.Kind)
		if r.Failed() {
			return
		}
	}
	if sawFull && len(kinds) >= 3 {
		r.NonTrivial()
	}
}

// SpecC34 is the C34 check.
func SpecC34() simkit.Spec {
	return simkit.Spec{
		Prop:    "C34",
		Gen:     genC34,
		NewPlan: func() any { return &C34Plan{} },
		Exec:    execC34,
		Rule: "histories of 1-60 ops (add / stuff of 0-24 nodes / delete / deleteReplace / bump, per-run kind mix), optionally opened by one stuff (or as many single adds) of the first 1-40 population members, " +
			"on a fresh table for one of 8 local ids, over 20-60 node ids " +
			"brute-forced to sit at 1-3 chosen log-distances (247..256) from the local id (the first has >= 18 ids so it can overflow); each operand is a population member, a current bucket entry, a current replacement-list member, a member currently absent from the table, or the local node itself " +
			"(so duplicates, re-insertions of listed replacements and self-insertions occur); invariants checked after every op; " +
			"non-trivial = some bucket reached 16 entries and >= 3 op kinds were used; distinct = hash of every op with its resolved operands and the resulting bucket sizes",
		Components: map[string]string{
			"p2p/discover/dht.Table (add, stuff, delete, deleteReplace, bucket.bump)": "real, driven through verif_hooks.go wrappers",
			"p2p/discover/dht.Network / UDP transport / node database":               "absent (the table is built detached; no clock, no I/O)",
			"node ids": "synthetic 32-byte ids (not public keys); the table only hashes them",
		},
		Assumptions: []string{
			"the bucket distance is the bit length of SHA3-256(local id) XOR SHA3-256(node id); the oracle recomputes it with the Go standard library (hash function = trusted base)",
			"operations are applied sequentially (the table is owned by one goroutine in Bytom); Node values are built by NewNode, so the cached hash matches the id",
			"bump is exercised both through add of a present node and directly on the node's bucket",
		},
		FaultKinds: []string{},
		Probes: []string{"probe.run_with_full_bucket", "probe.run_with_replacements", "probe.run_with_full_replacement_list", "probe.replacement_promoted",
			"probe.self_insert_attempt", "probe.duplicate_insert_attempt", "probe.duplicate_within_stuff", "probe.insert_into_full_bucket",
			"probe.insert_of_listed_replacement_with_room", "probe.insert_of_listed_replacement_full", "probe.bump_hit"},
	}
}
