package dhtsim

import (
	"testing"

	"verif/sim/simkit"
)

func TestC34(t *testing.T) { simkit.Main(t, SpecC34()) }
