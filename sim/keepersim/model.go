package keepersim

// The reference keeper: maps, written from the statement of C26 and from the
// documented meaning of the keeper's inputs (an output is mature when its
// ValidHeight is not above the current height; a reservation has an expiry time
// after which it stops being live). It never looks at how the real keeper selects
// outputs: for a successful reservation it is TOLD which outputs were taken
// (commit) after it has checked that this selection is a valid one (validate).
//
// The three-call protocol (also usable as a linearizability step function):
//
//	want := m.expect(op)         // pure: the class the operation must report
//	oracle, msg := m.validate(op, got)  // pure: is the real result allowed in this state?
//	m.commit(op, got)            // advance the model using the real result's free choices
//
// m.apply(op, got) does the three in order.

import (
	"fmt"
	"sort"
	"strconv"
	"strings"
	"time"
)

// Operation kinds.
const (
	opReserve    = "reserve"    // Reserve(account, asset, amount, useUnconfirmed, vote, expiry)
	opParticular = "particular" // ReserveParticular(output, useUnconfirmed, expiry)
	opCancel     = "cancel"     // Cancel(rid)
	opAdvance    = "advance"    // let D of virtual time pass (the real expiry ticker runs)
	opSweep      = "sweep"      // run the keeper's expiry sweep at the current instant
	opHeight     = "height"     // the chain's best height becomes Height
	opAddUnc     = "addunc"     // AddUnconfirmedUtxo(output)
	opRmUnc      = "rmunc"      // RemoveUnconfirmedUtxo(output)
	opConfirm    = "confirm"    // the wallet writes the output's confirmed record
	opDBDel      = "dbdel"      // the wallet deletes the output's confirmed record (spent on chain)
)

// Result classes.
const (
	clsOK           = "ok"
	clsInsufficient = "insufficient"
	clsImmature     = "immature"
	clsReserved     = "reserved"
	clsNoMatch      = "nomatch" // reserve-particular of an output that is not there
	clsDone         = "done"    // operations without a result
)

// expiryGrace: a reservation whose expiry has passed must be gone at the latest
// this long (virtual time) after the expiry; between expiry and expiry+grace both
// "still live" and "released" are accepted (the sweep is periodic, period 1 s).
const expiryGrace = 2 * time.Second

// cop is a concrete operation (all indices of the abstract plan resolved).
type cop struct {
	Kind   string
	Acc    string
	Asset  string
	Vote   string // "" = no vote key
	Amount uint64
	Unconf bool
	Exp    time.Time
	Out    string // output name
	RID    uint64
	D      time.Duration
	Height uint64
}

func (o *cop) String() string {
	switch o.Kind {
	case opReserve:
		return fmt.Sprintf("reserve acc=%s asset=%s vote=%q amount=%d unconf=%v exp=%s", o.Acc, o.Asset, o.Vote, o.Amount, o.Unconf, fmtT(o.Exp))
	case opParticular:
		return fmt.Sprintf("particular out=%s unconf=%v exp=%s", o.Out, o.Unconf, fmtT(o.Exp))
	case opCancel:
		return fmt.Sprintf("cancel rid=%d", o.RID)
	case opAdvance:
		return fmt.Sprintf("advance %s", o.D)
	case opSweep:
		return "sweep"
	case opHeight:
		return fmt.Sprintf("height %d", o.Height)
	default:
		return fmt.Sprintf("%s out=%s", o.Kind, o.Out)
	}
}

// result is what an operation returned; comparable with ==.
type result struct {
	Class  string
	RID    uint64
	Outs   string // reserve/particular: output names in the keeper's order, comma separated; advance/sweep: released rids, ascending
	Change uint64
	Expiry int64 // UnixNano of the reservation's recorded expiry
}

func (r result) String() string {
	switch {
	case r.Class == clsOK:
		return fmt.Sprintf("ok rid=%d outs=[%s] change=%d", r.RID, r.Outs, r.Change)
	case r.Class == clsDone && r.Outs != "":
		return "done released=[" + r.Outs + "]"
	default:
		return r.Class
	}
}

func splitList(s string) []string {
	if s == "" {
		return nil
	}
	return strings.Split(s, ",")
}

var epoch = time.Date(2000, 1, 1, 0, 0, 0, 0, time.UTC)

// fmtT renders a virtual instant as an offset from the bubble's epoch.
func fmtT(t time.Time) string { return "T+" + t.Sub(epoch).String() }

// mout is one output of the universe of a run. The record (account, asset, vote,
// amount, valid height) is fixed; only where it is present changes.
type mout struct {
	Name        string
	Acc         string // "" for a contract output (belongs to no account)
	Asset       string
	Vote        string
	Amount      uint64
	ValidHeight uint64
	Contract    bool
	Confirmed   bool // a confirmed record exists in the wallet DB
	Unconfirmed bool // present in the keeper's unconfirmed set
}

type mres struct {
	RID    uint64
	Outs   []string
	Change uint64
	Expiry time.Time
	Made   time.Time // when the reservation was made (a reservation made with an expiry already in the past is due from then)
}

type model struct {
	outs   map[string]*mout
	names  []string // sorted output names (deterministic iteration)
	height uint64
	now    time.Time
	res    map[uint64]*mres
}

func newModel(outs []*mout, height uint64, now time.Time) *model {
	m := &model{outs: map[string]*mout{}, height: height, now: now, res: map[uint64]*mres{}}
	for _, o := range outs {
		c := *o
		m.outs[o.Name] = &c
		m.names = append(m.names, o.Name)
	}
	sort.Strings(m.names)
	return m
}

func (m *model) clone() *model {
	c := &model{outs: map[string]*mout{}, names: m.names, height: m.height, now: m.now, res: map[uint64]*mres{}}
	for k, o := range m.outs {
		oc := *o
		c.outs[k] = &oc
	}
	for k, r := range m.res {
		rc := *r
		rc.Outs = append([]string{}, r.Outs...)
		c.res[k] = &rc
	}
	return c
}

// liveRIDs returns the ids of live reservations, ascending.
func (m *model) liveRIDs() []uint64 {
	ids := make([]uint64, 0, len(m.res))
	for id := range m.res {
		ids = append(ids, id)
	}
	sort.Slice(ids, func(i, j int) bool { return ids[i] < ids[j] })
	return ids
}

// holder returns the live reservation holding the output (0 = none).
func (m *model) holder(name string) uint64 {
	for _, id := range m.liveRIDs() {
		for _, o := range m.res[id].Outs {
			if o == name {
				return id
			}
		}
	}
	return 0
}

// visible: can a request with this useUnconfirmed flag see the output at all?
func (o *mout) visible(unconf bool) bool {
	return o.Confirmed || (unconf && o.Unconfirmed)
}

func (m *model) mature(o *mout) bool { return o.ValidHeight <= m.height }

// funds classifies the amounts a Reserve request can see: free (mature, not
// held), held (mature, in a live reservation), immature. Every output counts
// once, however many places it is recorded in.
func (m *model) funds(op *cop) (free, held, immature uint64) {
	for _, n := range m.names {
		o := m.outs[n]
		if !o.visible(op.Unconf) || o.Acc != op.Acc || o.Asset != op.Asset || o.Vote != op.Vote {
			continue
		}
		switch {
		case !m.mature(o):
			immature += o.Amount
		case m.holder(n) != 0:
			held += o.Amount
		default:
			free += o.Amount
		}
	}
	return
}

// expect returns the class the operation must report in the current state.
//
// Reserve: ok iff the free mature outputs of the requested account/asset/vote
// key cover the amount. Otherwise "insufficient" iff even all visible outputs
// together do not cover it; "reserved" iff the mature ones would cover it were
// none of them held; "immature" in the remaining case (maturity is needed).
// ReserveParticular: "reserved" if a live reservation holds the output, else
// "nomatch" if the request cannot see it, else "immature", else ok.
func (m *model) expect(op *cop) result {
	switch op.Kind {
	case opReserve:
		free, held, imm := m.funds(op)
		switch {
		case free >= op.Amount:
			return result{Class: clsOK}
		case free+held+imm < op.Amount:
			return result{Class: clsInsufficient}
		case free+held >= op.Amount:
			return result{Class: clsReserved}
		default:
			return result{Class: clsImmature}
		}
	case opParticular:
		o := m.outs[op.Out]
		switch {
		case m.holder(op.Out) != 0:
			return result{Class: clsReserved}
		case o == nil || !o.visible(op.Unconf):
			return result{Class: clsNoMatch}
		case !m.mature(o):
			return result{Class: clsImmature}
		default:
			return result{Class: clsOK}
		}
	}
	return result{Class: clsDone}
}

// validate checks a real result against the statement in the current state
// (before commit). It returns the violated oracle and a description, or "", "".
func (m *model) validate(op *cop, got result) (string, string) {
	want := m.expect(op)
	classMismatch := func() (string, string) {
		return "class", fmt.Sprintf("%s reported %q, the reference keeper says %q", op.Kind, got.Class, want.Class)
	}
	switch op.Kind {
	case opReserve, opParticular:
		if got.Class != clsOK {
			if want.Class != got.Class {
				return classMismatch()
			}
			return "", ""
		}
		// a success is first checked for what it holds (that names the broken
		// clause of the statement), then for whether it should have succeeded
		outs := splitList(got.Outs)
		seen := map[string]bool{}
		sum := uint64(0)
		for _, n := range outs {
			if seen[n] {
				return "distinct", fmt.Sprintf("reservation %d holds output %s more than once: [%s]", got.RID, n, got.Outs)
			}
			seen[n] = true
			o := m.outs[n]
			if o == nil || !o.visible(op.Unconf) {
				return "foreign", fmt.Sprintf("reservation %d holds output %s which the request cannot see", got.RID, n)
			}
			if h := m.holder(n); h != 0 {
				return "overlap", fmt.Sprintf("reservation %d holds output %s which live reservation %d already holds", got.RID, n, h)
			}
			if !m.mature(o) {
				return "immature-held", fmt.Sprintf("reservation %d holds immature output %s (valid height %d, current height %d)", got.RID, n, o.ValidHeight, m.height)
			}
			if op.Kind == opReserve && (o.Acc != op.Acc || o.Asset != op.Asset || o.Vote != op.Vote) {
				return "wrong-owner", fmt.Sprintf("reservation %d holds output %s of account=%s asset=%s vote=%q, requested account=%s asset=%s vote=%q",
					got.RID, n, o.Acc, o.Asset, o.Vote, op.Acc, op.Asset, op.Vote)
			}
			sum += o.Amount
		}
		if op.Kind == opParticular {
			if got.Outs != op.Out {
				return "particular", fmt.Sprintf("reserve-particular of %s holds [%s]", op.Out, got.Outs)
			}
			if got.Change != 0 {
				return "change", fmt.Sprintf("reserve-particular of %s reports change %d", op.Out, got.Change)
			}
		} else {
			if sum < op.Amount {
				return "cover", fmt.Sprintf("reservation %d holds [%s] summing to %d, requested %d", got.RID, got.Outs, sum, op.Amount)
			}
			if got.Change != sum-op.Amount {
				return "change", fmt.Sprintf("reservation %d holds %d for a request of %d but reports change %d (excess is %d)", got.RID, sum, op.Amount, got.Change, sum-op.Amount)
			}
		}
		if want.Class != got.Class {
			return classMismatch()
		}
		if _, dup := m.res[got.RID]; dup {
			return "rid", fmt.Sprintf("new reservation got id %d which a live reservation already has", got.RID)
		}
		if got.Expiry != op.Exp.UnixNano() {
			return "expiry-recorded", fmt.Sprintf("reservation %d records expiry %s, requested %s", got.RID, fmtT(time.Unix(0, got.Expiry)), fmtT(op.Exp))
		}
	default:
		if want.Class != got.Class {
			return classMismatch()
		}
	}
	switch op.Kind {
	case opAdvance, opSweep:
		now := m.now
		if op.Kind == opAdvance {
			now = now.Add(op.D)
		}
		released := map[uint64]bool{}
		for _, s := range splitList(got.Outs) {
			id, _ := strconv.ParseUint(s, 10, 64)
			released[id] = true
			if _, ok := m.res[id]; !ok {
				return "expiry-unknown", fmt.Sprintf("%s released reservation %d which was not live", op.Kind, id)
			}
		}
		for _, id := range m.liveRIDs() {
			r := m.res[id]
			mustKeep, mustDrop := expiryRule(op.Kind, r, now)
			if mustKeep && released[id] {
				return "expiry-early", fmt.Sprintf("reservation %d (expiry %s) was released at %s, before its expiry passed", id, fmtT(r.Expiry), fmtT(now))
			}
			if mustDrop && !released[id] {
				return "expiry-late", fmt.Sprintf("reservation %d (expiry %s) is still live at %s after %s", id, fmtT(r.Expiry), fmtT(now), op.Kind)
			}
		}
	}
	return "", ""
}

// expiryRule: what must have happened to reservation r once the operation
// finished at instant now.
func expiryRule(kind string, r *mres, now time.Time) (mustKeep, mustDrop bool) {
	e := r.Expiry
	if kind == opSweep {
		// a sweep at instant now releases what expired before now; a reservation
		// expiring exactly now may go either way.
		return e.After(now), e.Before(now)
	}
	due := e
	if r.Made.After(due) {
		due = r.Made
	}
	return !e.Before(now), !now.Before(due.Add(expiryGrace))
}

// commit advances the model. For reserve/particular/advance/sweep it uses the
// (already validated) free choices of the real result.
func (m *model) commit(op *cop, got result) {
	switch op.Kind {
	case opReserve, opParticular:
		if got.Class == clsOK {
			m.res[got.RID] = &mres{RID: got.RID, Outs: splitList(got.Outs), Change: got.Change, Expiry: time.Unix(0, got.Expiry).UTC(), Made: m.now}
		}
	case opCancel:
		delete(m.res, op.RID)
	case opAdvance, opSweep:
		if op.Kind == opAdvance {
			m.now = m.now.Add(op.D)
		}
		for _, s := range splitList(got.Outs) {
			id, _ := strconv.ParseUint(s, 10, 64)
			delete(m.res, id)
		}
	case opHeight:
		m.height = op.Height
	case opAddUnc:
		m.outs[op.Out].Unconfirmed = true
	case opRmUnc:
		m.outs[op.Out].Unconfirmed = false
	case opConfirm:
		m.outs[op.Out].Confirmed = true
	case opDBDel:
		m.outs[op.Out].Confirmed = false
	}
}

// apply = validate + commit.
func (m *model) apply(op *cop, got result) (string, string) {
	if oracle, msg := m.validate(op, got); oracle != "" {
		return oracle, msg
	}
	m.commit(op, got)
	return "", ""
}

// render lists the live reservations canonically.
func (m *model) render() string {
	var b strings.Builder
	for _, id := range m.liveRIDs() {
		r := m.res[id]
		fmt.Fprintf(&b, "{%d [%s] change=%d exp=%s}", id, strings.Join(r.Outs, ","), r.Change, fmtT(r.Expiry))
	}
	return b.String()
}
