package keepersim

// The system under test: the REAL account.utxoKeeper (through the add-only hook
// file account/verif_hooks.go), a simulated disk holding the wallet's confirmed
// UTXO records in the wallet's own key/JSON format, and a harness-controlled
// best-height function.

import (
	"encoding/json"
	"fmt"
	"os"
	"sort"
	"strconv"
	"strings"
	"sync/atomic"
	"testing/synctest"
	"time"

	"github.com/bytom/bytom/account"
	"github.com/bytom/bytom/errors"
	"github.com/bytom/bytom/protocol/bc"

	"verif/sim/simdisk"
)

type realSys struct {
	k      *account.VerifKeeper
	db     *simdisk.Disk
	height atomic.Uint64
	recs   map[string]*account.UTXO // universe: output name -> record
	contr  map[string]bool          // output name -> stored under the contract prefix
	byHash map[bc.Hash]string
	assets map[string]bc.AssetID
}

func outHash(i int) bc.Hash {
	var b [32]byte
	b[0], b[1], b[31] = 0xc2, 0x6f, byte(i+1)
	return bc.NewHash(b)
}

func assetID(i int) bc.AssetID {
	var b [32]byte
	b[0], b[31] = 0xa5, byte(i+1)
	return bc.NewAssetID(b)
}

func harnessFail(format string, args ...any) {
	fmt.Fprintf(os.Stderr, "keepersim: HARNESS: "+format+"\n", args...)
	os.Exit(2)
}

// dbKey is the key the wallet stores the record under (wallet/utxo.go
// batchSaveUtxos: standard outputs under account.StandardUTXOKey, others under
// account.ContractUTXOKey).
func dbKey(u *account.UTXO, contract bool) []byte {
	if contract {
		return account.ContractUTXOKey(u.OutputID)
	}
	return account.StandardUTXOKey(u.OutputID)
}

func (s *realSys) putConfirmed(name string) {
	u := s.recs[name]
	data, err := json.Marshal(u) // as wallet.batchSaveUtxos does
	if err != nil {
		harnessFail("marshal utxo: %v", err)
	}
	s.db.Set(dbKey(u, s.contr[name]), data)
}

func (s *realSys) names(us []account.UTXO) string {
	var out []string
	for i := range us {
		n, ok := s.byHash[us[i].OutputID]
		if !ok {
			n = "unknown:" + us[i].OutputID.String()
		}
		out = append(out, n)
	}
	return strings.Join(out, ",")
}

func classOf(err error) string {
	switch errors.Root(err) {
	case nil:
		return clsOK
	case account.ErrInsufficient:
		return clsInsufficient
	case account.ErrImmature:
		return clsImmature
	case account.ErrReserved:
		return clsReserved
	case account.ErrMatchUTXO:
		return clsNoMatch
	}
	return "error:" + err.Error()
}

func (s *realSys) liveIDs() []uint64 {
	rs, _ := s.k.Snapshot()
	ids := make([]uint64, 0, len(rs))
	for _, r := range rs {
		ids = append(ids, r.ID)
	}
	return ids
}

func releasedBetween(before, after []uint64) string {
	still := map[uint64]bool{}
	for _, id := range after {
		still[id] = true
	}
	var out []string
	for _, id := range before {
		if !still[id] {
			out = append(out, strconv.FormatUint(id, 10))
		}
	}
	return strings.Join(out, ",")
}

// applyReal executes one concrete operation against the real keeper.
func applyReal(s *realSys, op *cop) result {
	switch op.Kind {
	case opReserve:
		asset := s.assets[op.Asset]
		var vote []byte
		if op.Vote != "" {
			vote = []byte(op.Vote)
		}
		res, err := s.k.Reserve(op.Acc, &asset, op.Amount, op.Unconf, vote, op.Exp)
		if err != nil {
			return result{Class: classOf(err)}
		}
		return result{Class: clsOK, RID: res.ID, Outs: s.names(res.UTXOs), Change: res.Change, Expiry: res.Expiry.UnixNano()}
	case opParticular:
		res, err := s.k.ReserveParticular(s.recs[op.Out].OutputID, op.Unconf, op.Exp)
		if err != nil {
			return result{Class: classOf(err)}
		}
		return result{Class: clsOK, RID: res.ID, Outs: s.names(res.UTXOs), Change: res.Change, Expiry: res.Expiry.UnixNano()}
	case opCancel:
		s.k.Cancel(op.RID)
	case opAdvance:
		before := s.liveIDs()
		time.Sleep(op.D) // virtual; the keeper's own ticker goroutine runs meanwhile
		synctest.Wait()
		return result{Class: clsDone, Outs: releasedBetween(before, s.liveIDs())}
	case opSweep:
		before := s.liveIDs()
		s.k.ExpireReservation(time.Now()) // virtual now: what the ticker would pass
		return result{Class: clsDone, Outs: releasedBetween(before, s.liveIDs())}
	case opHeight:
		s.height.Store(op.Height)
	case opAddUnc:
		u := *s.recs[op.Out]
		s.k.AddUnconfirmedUtxo([]*account.UTXO{&u})
	case opRmUnc:
		h := s.recs[op.Out].OutputID
		s.k.RemoveUnconfirmedUtxo([]*bc.Hash{&h})
	case opConfirm:
		s.putConfirmed(op.Out)
	case opDBDel:
		s.db.Delete(dbKey(s.recs[op.Out], s.contr[op.Out]))
	default:
		harnessFail("unknown op kind %q", op.Kind)
	}
	return result{Class: clsDone}
}

// snapshotCheck inspects the real keeper's state on its own (no model): no output
// in two live reservations or twice in one, and the reserved-output index is
// exactly the inverse of the live reservations. It returns the canonical
// rendering of the live reservations for comparison with the model.
func (s *realSys) snapshotCheck() (render, oracle, msg string) {
	rs, idx := s.k.Snapshot()
	holder := map[bc.Hash]uint64{}
	var b strings.Builder
	for _, r := range rs {
		fmt.Fprintf(&b, "{%d [%s] change=%d exp=%s}", r.ID, s.names(r.UTXOs), r.Change, fmtT(r.Expiry))
		for i := range r.UTXOs {
			h := r.UTXOs[i].OutputID
			if prev, ok := holder[h]; ok && oracle == "" {
				if prev == r.ID {
					oracle, msg = "distinct", fmt.Sprintf("live reservation %d holds output %s more than once", r.ID, s.byHash[h])
				} else {
					oracle, msg = "overlap", fmt.Sprintf("output %s is held by live reservations %d and %d", s.byHash[h], prev, r.ID)
				}
			}
			holder[h] = r.ID
		}
	}
	if oracle == "" {
		hs := make([]string, 0, len(idx))
		for h, rid := range idx {
			if holder[h] != rid {
				hs = append(hs, fmt.Sprintf("index says %s is held by %d, live reservations say %d", s.byHash[h], rid, holder[h]))
			}
		}
		for h, rid := range holder {
			if _, ok := idx[h]; !ok {
				hs = append(hs, fmt.Sprintf("%s is held by live reservation %d but missing from the reserved index", s.byHash[h], rid))
			}
		}
		if len(hs) > 0 {
			sort.Strings(hs)
			oracle, msg = "index", strings.Join(hs, "; ")
		}
	}
	return b.String(), oracle, msg
}
