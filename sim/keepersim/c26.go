// Package keepersim decides C26 (UTXO reservations never overlap and cover the
// request) by seeded operation histories against the REAL account.utxoKeeper
// running on a virtual clock (testing/synctest), stepped alongside a reference
// keeper written from the property statement.
//
// At this commit only the SEQUENTIAL mode exists: one client, operations one
// after the other, the keeper's own expiry ticker goroutine running on the
// virtual clock. model.go (reference keeper: expect/validate/commit) and real.go
// (applyReal) are kept free of any sequencing so that a concurrent
// (linearizability) mode can reuse them.
package keepersim

import (
	"fmt"
	"os"
	"runtime/debug"
	"strings"
	"testing"
	"testing/synctest"
	"time"

	"github.com/bytom/bytom/account"
	"github.com/bytom/bytom/protocol/bc"
	"pgregory.net/rapid"

	"verif/sim/simdisk"
	"verif/sim/simkit"
)

// POut is one output of the run's universe (abstract).
type POut struct {
	Acc    int    `json:"acc"`   // account index
	Asset  int    `json:"asset"` // asset index
	Vote   int    `json:"vote"`  // 0 = no vote key, 1.. = vote key index
	Amount uint64 `json:"amt"`
	VH     uint64 `json:"vh"`    // ValidHeight
	Where  int    `json:"where"` // 0 confirmed, 1 confirmed AND unconfirmed, 2 unconfirmed only, 3 nowhere yet, 4 confirmed contract output (no account)
}

// POp is one abstract operation; indices are interpreted modulo the live state.
type POp struct {
	Kind   string `json:"k"`
	Acc    int    `json:"acc,omitempty"`
	Asset  int    `json:"asset,omitempty"`
	Vote   int    `json:"vote,omitempty"`
	Amt    int    `json:"amt,omitempty"`  // amount class
	Arg    uint64 `json:"arg,omitempty"`  // small number used by some classes
	Unconf bool   `json:"unc,omitempty"`  // useUnconfirmed
	Exp    int    `json:"exp,omitempty"`  // expiry class
	Out    int    `json:"out,omitempty"`  // output index
	Res    int    `json:"res,omitempty"`  // reservation index
	Live   bool   `json:"live,omitempty"` // cancel: pick among live reservations (else among all ever made)
	Like   bool   `json:"like,omitempty"` // reserve: ask for the account/asset/vote key of output Out instead of Acc/Asset/Vote
	Adv    int    `json:"adv,omitempty"`  // advance class
	H      int    `json:"h,omitempty"`    // height-change class
}

// C26Plan is one history.
type C26Plan struct {
	Phase   int    `json:"phase_ms"` // virtual ms between bubble start and keeper construction (ticker phase)
	Height0 uint64 `json:"height0"`
	Outs    []POut `json:"outs"`
	Ops     []POp  `json:"ops"`
}

var expiryOffsets = []time.Duration{
	60 * time.Second, 10 * time.Second, 3 * time.Second, 1500 * time.Millisecond, time.Second,
	500 * time.Millisecond, time.Millisecond, 0, -time.Millisecond, -5 * time.Second,
}

var fixedAdvances = []time.Duration{
	100 * time.Millisecond, time.Millisecond, 500 * time.Millisecond, 999 * time.Millisecond, time.Second,
	1001 * time.Millisecond, 2 * time.Second, 5 * time.Second,
}

// relative advances: to (earliest live expiry + offset)
var relAdvances = []time.Duration{
	-time.Millisecond, 0, time.Millisecond, time.Second, expiryGrace - time.Millisecond, expiryGrace, expiryGrace + time.Millisecond,
}

const (
	nAmtClasses = 12
	nHClasses   = 5
)

func genC26(rt *rapid.T) any {
	p := &C26Plan{}
	p.Phase = rapid.IntRange(0, 999).Draw(rt, "phase")
	p.Height0 = uint64(rapid.IntRange(0, 12).Draw(rt, "height0"))
	// swarm: how many accounts / assets / vote keys this run spreads its outputs over
	nAcc := rapid.IntRange(1, 2).Draw(rt, "naccounts")
	nAsset := rapid.IntRange(1, 2).Draw(rt, "nassets")
	nVote := rapid.IntRange(0, 2).Draw(rt, "nvotes")
	n := rapid.IntRange(3, 10).Draw(rt, "nouts")
	for i := 0; i < n; i++ {
		o := POut{
			Acc:   rapid.IntRange(0, nAcc-1).Draw(rt, "oacc"),
			Asset: rapid.IntRange(0, nAsset-1).Draw(rt, "oasset"),
			Vote:  rapid.IntRange(0, nVote).Draw(rt, "ovote"),
		}
		switch rapid.IntRange(0, 4).Draw(rt, "oamtkind") {
		case 0:
			o.Amount = 1
		case 1, 2:
			o.Amount = uint64(rapid.IntRange(1, 10).Draw(rt, "oamt"))
		case 3:
			o.Amount = uint64(rapid.IntRange(10, 100).Draw(rt, "oamt"))
		case 4:
			o.Amount = 1000000
		}
		switch rapid.IntRange(0, 4).Draw(rt, "ovhkind") {
		case 0, 1:
			o.VH = 0
		case 2:
			o.VH = p.Height0 // just mature
		case 3:
			o.VH = p.Height0 + 1 // just immature
		case 4:
			o.VH = p.Height0 + uint64(rapid.IntRange(2, 5).Draw(rt, "ovh"))
		}
		switch rapid.IntRange(0, 9).Draw(rt, "owhere") {
		case 0, 1, 2, 3:
			o.Where = 0
		case 4, 5, 6:
			o.Where = 1
		case 7:
			o.Where = 2
		case 8:
			o.Where = 3
		case 9:
			o.Where = 4
		}
		p.Outs = append(p.Outs, o)
	}
	nops := rapid.IntRange(1, 30).Draw(rt, "nops")
	for i := 0; i < nops; i++ {
		var op POp
		switch rapid.IntRange(0, 20).Draw(rt, "kind") {
		case 0, 1, 2, 3, 4, 5:
			op = POp{Kind: opReserve,
				Acc: rapid.IntRange(0, nAcc-1).Draw(rt, "acc"), Asset: rapid.IntRange(0, nAsset-1).Draw(rt, "asset"), Vote: rapid.IntRange(0, nVote).Draw(rt, "vote"),
				Amt: rapid.IntRange(0, nAmtClasses-1).Draw(rt, "amtclass"), Arg: uint64(rapid.IntRange(1, 20).Draw(rt, "arg")),
				Unconf: rapid.Bool().Draw(rt, "unconf"), Exp: rapid.IntRange(0, len(expiryOffsets)-1).Draw(rt, "exp"), Out: rapid.IntRange(0, n-1).Draw(rt, "out"),
				Like: rapid.IntRange(0, 3).Draw(rt, "like") != 0}
		case 6, 7, 8:
			op = POp{Kind: opParticular, Out: rapid.IntRange(0, n-1).Draw(rt, "out"),
				Unconf: rapid.Bool().Draw(rt, "unconf"), Exp: rapid.IntRange(0, len(expiryOffsets)-1).Draw(rt, "exp")}
		case 9, 10:
			op = POp{Kind: opCancel, Res: rapid.IntRange(0, 9).Draw(rt, "res"), Live: rapid.Bool().Draw(rt, "live")}
		case 11, 12, 13:
			op = POp{Kind: opAdvance, Adv: rapid.IntRange(0, len(fixedAdvances)+len(relAdvances)-1).Draw(rt, "adv")}
		case 14:
			op = POp{Kind: opSweep}
		case 15, 16:
			op = POp{Kind: opHeight, H: rapid.IntRange(0, nHClasses-1).Draw(rt, "hclass"), Arg: uint64(rapid.IntRange(0, 20).Draw(rt, "arg"))}
		case 17:
			op = POp{Kind: opAddUnc, Out: rapid.IntRange(0, n-1).Draw(rt, "out")}
		case 18:
			op = POp{Kind: opRmUnc, Out: rapid.IntRange(0, n-1).Draw(rt, "out")}
		case 19:
			op = POp{Kind: opConfirm, Out: rapid.IntRange(0, n-1).Draw(rt, "out")}
		case 20:
			op = POp{Kind: opDBDel, Out: rapid.IntRange(0, n-1).Draw(rt, "out")}
		}
		p.Ops = append(p.Ops, op)
	}
	return p
}

func accName(i int) string   { return fmt.Sprintf("acc%d", i) }
func assetName(i int) string { return fmt.Sprintf("asset%d", i) }
func voteName(i int) string {
	if i == 0 {
		return ""
	}
	return fmt.Sprintf("votekey%d", i)
}
func outName(i int) string { return fmt.Sprintf("o%d", i) }

// concretise resolves an abstract op against the current model state.
func concretise(p *POp, m *model, nOuts int, issued []uint64) *cop {
	op := &cop{Kind: p.Kind}
	out := func() string {
		i := p.Out % nOuts
		if i < 0 {
			i += nOuts
		}
		return outName(i)
	}
	expiry := func() time.Time {
		i := p.Exp % len(expiryOffsets)
		if i < 0 {
			i += len(expiryOffsets)
		}
		return m.now.Add(expiryOffsets[i])
	}
	switch p.Kind {
	case opReserve:
		op.Acc, op.Asset, op.Vote = accName(p.Acc), assetName(p.Asset), voteName(p.Vote)
		if o := m.outs[out()]; p.Like && !o.Contract {
			op.Acc, op.Asset, op.Vote = o.Acc, o.Asset, o.Vote
		}
		op.Unconf, op.Exp = p.Unconf, expiry()
		free, held, imm := m.funds(op)
		switch ((p.Amt % nAmtClasses) + nAmtClasses) % nAmtClasses {
		case 0:
			op.Amount = 1
		case 1:
			op.Amount = p.Arg // small
		case 2:
			op.Amount = free // exactly what is free
		case 3:
			op.Amount = free + 1
		case 4:
			op.Amount = free + held // all mature funds
		case 5:
			op.Amount = free + held + 1
		case 6:
			op.Amount = free + held + imm // everything visible
		case 7:
			op.Amount = free + held + imm + 1
		case 8:
			op.Amount = 1 << 40 // large
		case 9:
			if free > p.Arg {
				op.Amount = free - p.Arg // a little less than what is free (forces multi-output selections)
			} else {
				op.Amount = free
			}
		case 10:
			op.Amount = free/2 + 1
		case 11:
			op.Amount = m.outs[out()].Amount // exactly one output's amount
		}
		if op.Amount == 0 {
			op.Amount = 1 // callers never request 0
		}
	case opParticular:
		op.Out, op.Unconf, op.Exp = out(), p.Unconf, expiry()
	case opCancel:
		live := m.liveRIDs()
		switch {
		case p.Live && len(live) > 0:
			op.RID = live[p.Res%len(live)]
		case len(issued) > 0:
			op.RID = issued[p.Res%len(issued)]
		default:
			op.RID = 4242 // never issued
		}
	case opAdvance:
		i := p.Adv % (len(fixedAdvances) + len(relAdvances))
		if i < 0 {
			i = 0
		}
		if i < len(fixedAdvances) {
			op.D = fixedAdvances[i]
			break
		}
		// relative to the earliest expiry among live reservations that the clock has not left behind by more than the grace
		var target *time.Time
		for _, id := range m.liveRIDs() {
			e := m.res[id].Expiry
			if target == nil || e.Before(*target) {
				ec := e
				target = &ec
			}
		}
		op.D = fixedAdvances[0]
		if target != nil {
			if d := target.Add(relAdvances[i-len(fixedAdvances)]).Sub(m.now); d > 0 {
				op.D = d
			}
		}
	case opHeight:
		switch ((p.H % nHClasses) + nHClasses) % nHClasses {
		case 0:
			op.Height = m.height + 1
		case 1:
			// up to the valid height of the lowest still-immature output
			op.Height = m.height + 1
			best := uint64(0)
			for _, n := range m.names {
				if vh := m.outs[n].ValidHeight; vh > m.height && (best == 0 || vh < best) {
					best = vh
				}
			}
			if best != 0 {
				op.Height = best
			}
		case 2:
			op.Height = m.height + 2
		case 3: // reorganisation to a shorter chain
			if m.height > 0 {
				op.Height = m.height - 1
			}
		case 4:
			op.Height = p.Arg
		}
	case opAddUnc, opRmUnc:
		// contract outputs never enter the unconfirmed set (the wallet only adds account outputs)
		op.Out = out()
		if m.outs[op.Out].Contract {
			for _, n := range m.names {
				if !m.outs[n].Contract {
					op.Out = n
					break
				}
			}
			if m.outs[op.Out].Contract {
				op.Kind = opSweep
				op.Out = ""
			}
		}
	case opConfirm, opDBDel:
		op.Out = out()
	case opSweep:
	default:
		harnessFail("unknown plan op kind %q", p.Kind)
	}
	return op
}

// bytomFrame finds the first Bytom frame of a panic stack (signature attribute).
func bytomFrame(stack string) string {
	for _, l := range strings.Split(stack, "\n") {
		if strings.HasPrefix(l, "github.com/bytom/bytom/") {
			if i := strings.LastIndex(l, "("); i > 0 {
				l = l[:i]
			}
			return strings.TrimPrefix(l, "github.com/bytom/bytom/")
		}
	}
	return ""
}

// bubble runs f inside a synctest bubble. The keeper's expireWorker never ends,
// so the bubble always finishes with synctest's "main bubble goroutine has exited
// but blocked goroutines remain" panic; only that one is swallowed. A panic of f
// itself is turned into a violation when it comes from Bytom code, and is a
// harness failure (exit 2) otherwise.
func bubble(t *testing.T, r *simkit.Run, f func()) {
	defer func() {
		if p := recover(); p != nil {
			if s := fmt.Sprint(p); strings.Contains(s, "main bubble goroutine has exited but blocked goroutines remain") {
				return
			}
			panic(p)
		}
	}()
	synctest.Test(t, func(*testing.T) {
		defer func() {
			if p := recover(); p != nil {
				st := string(debug.Stack())
				where := bytomFrame(st)
				if where == "" {
					fmt.Fprintf(os.Stderr, "keepersim: HARNESS PANIC: %v\n%s\n", p, st)
					os.Exit(2)
				}
				lines := strings.Split(st, "\n")
				if len(lines) > 40 {
					lines = lines[:40]
				}
				r.Violate("panic", where, "panic: %v\n%s", p, strings.Join(lines, "\n"))
			}
		}()
		f()
	})
}

func execC26(t *testing.T, plan any, r *simkit.Run) {
	p := plan.(*C26Plan)
	if len(p.Outs) == 0 {
		return
	}
	bubble(t, r, func() { runC26(p, r) })
}

func runC26(p *C26Plan, r *simkit.Run) {
	start := time.Now()
	if !start.Equal(epoch) {
		harnessFail("bubble clock starts at %v", start)
	}
	time.Sleep(time.Duration(p.Phase) * time.Millisecond)

	// universe
	sys := &realSys{db: simdisk.New(), recs: map[string]*account.UTXO{}, contr: map[string]bool{}, byHash: map[bc.Hash]string{}, assets: map[string]bc.AssetID{}}
	var mouts []*mout
	for i := range p.Outs {
		po := &p.Outs[i]
		name := outName(i)
		mo := &mout{Name: name, Acc: accName(po.Acc), Asset: assetName(po.Asset), Vote: voteName(po.Vote), Amount: po.Amount, ValidHeight: po.VH}
		if mo.Amount == 0 {
			mo.Amount = 1
		}
		switch po.Where {
		case 0:
			mo.Confirmed = true
		case 1:
			mo.Confirmed, mo.Unconfirmed = true, true
		case 2:
			mo.Unconfirmed = true
		case 3:
		default:
			mo.Contract, mo.Confirmed = true, true
			mo.Acc, mo.Vote = "", ""
		}
		sys.assets[mo.Asset] = assetID(po.Asset)
		u := &account.UTXO{
			OutputID: outHash(i), SourceID: bc.NewHash([32]byte{0x50, byte(i)}), AssetID: assetID(po.Asset), Amount: mo.Amount, SourcePos: uint64(i),
			ControlProgram: []byte{0x00, 0x14, byte(i)}, AccountID: mo.Acc, Address: "addr-" + name, ControlProgramIndex: uint64(i + 1), ValidHeight: mo.ValidHeight,
		}
		if mo.Vote != "" {
			u.Vote = []byte(mo.Vote)
		}
		if mo.Contract {
			u.ControlProgram = []byte{0x51}
			u.Address = ""
		}
		sys.recs[name] = u
		sys.contr[name] = mo.Contract
		sys.byHash[u.OutputID] = name
		mouts = append(mouts, mo)
	}
	for i := 0; i < 2; i++ { // requests may name an asset no output has
		sys.assets[assetName(i)] = assetID(i)
	}
	sys.height.Store(p.Height0)
	m := newModel(mouts, p.Height0, time.Now())

	// confirmed records first (the wallet DB), then the REAL keeper over it
	for _, mo := range mouts {
		if mo.Confirmed {
			sys.putConfirmed(mo.Name)
		}
	}
	sys.k = account.NewVerifKeeper(sys.height.Load, sys.db)
	var unc []*account.UTXO
	for _, mo := range mouts {
		if mo.Unconfirmed {
			u := *sys.recs[mo.Name]
			unc = append(unc, &u)
		}
	}
	sys.k.AddUnconfirmedUtxo(unc)
	for _, mo := range mouts {
		r.Tracef("out %s acc=%s asset=%s vote=%q amount=%d validheight=%d confirmed=%v unconfirmed=%v contract=%v", mo.Name, mo.Acc, mo.Asset, mo.Vote, mo.Amount, mo.ValidHeight, mo.Confirmed, mo.Unconfirmed, mo.Contract)
	}
	r.Tracef("start height=%d now=%s", p.Height0, fmtT(m.now))

	var issued []uint64
	everReleased := map[string]bool{} // outputs that were held and released again
	okCount, otherEvents := 0, 0
	for i := range p.Ops {
		op := concretise(&p.Ops[i], m, len(p.Outs), issued)
		kind := op.Kind

		// reach probes that need the pre-state
		if kind == opReserve && op.Unconf {
			for _, n := range m.names {
				o := m.outs[n]
				if o.Confirmed && o.Unconfirmed && !o.Contract && o.Acc == op.Acc && o.Asset == op.Asset && o.Vote == op.Vote {
					r.Count("probe.reserve_sees_output_in_db_and_unconfirmed", 1)
					break
				}
			}
		}
		if kind == opCancel {
			if _, live := m.res[op.RID]; live {
				r.Count("probe.cancel_live", 1)
				otherEvents++
				for _, n := range m.res[op.RID].Outs {
					everReleased[n] = true
				}
			} else {
				r.Count("probe.cancel_not_live", 1)
			}
		}
		if kind == opHeight {
			for _, n := range m.names {
				o := m.outs[n]
				if o.ValidHeight > m.height && o.ValidHeight <= op.Height {
					r.Count("probe.height_matures_output", 1)
					break
				}
			}
			if op.Height < m.height {
				r.Count("fault.height_decrease", 1)
			}
		}
		if (kind == opRmUnc || kind == opDBDel) && m.holder(op.Out) != 0 {
			r.Count("fault.record_removed_while_reserved", 1)
		}

		got := applyReal(sys, op)
		r.Tracef("%d %s -> %s", i, op, got)

		if kind == opAdvance {
			r.SimTime(op.D)
		}
		if now := time.Now(); kind == opAdvance && !now.Equal(m.now.Add(op.D)) || kind != opAdvance && !now.Equal(m.now) {
			harnessFail("virtual clock is %s, model clock %s (+%s for advance)", fmtT(now), fmtT(m.now), op.D)
		}

		want := m.expect(op)
		if oracle, msg := m.validate(op, got); oracle != "" {
			attrs := kind
			if oracle == "class" {
				attrs = fmt.Sprintf("%s/want=%s/got=%s", kind, want.Class, strings.SplitN(got.Class, ":", 2)[0])
			}
			r.Violate(oracle, attrs, "op %d %s -> %s\n%s\nlive reservations before the op: %s", i, op, got, msg, m.render())
			return
		}

		// reach counters
		switch kind {
		case opReserve, opParticular:
			r.Count("op."+kind+"."+got.Class, 1)
			if got.Class == clsOK {
				okCount++
				issued = append(issued, got.RID)
				outs := splitList(got.Outs)
				if len(outs) >= 2 {
					r.Count("probe.multi_output_reservation", 1)
				}
				for _, n := range outs {
					if everReleased[n] {
						r.Count("probe.rereserved_after_release", 1)
						break
					}
				}
			} else {
				otherEvents++
			}
		case opAdvance, opSweep:
			for _, s := range splitList(got.Outs) {
				var id uint64
				fmt.Sscan(s, &id)
				for _, n := range m.res[id].Outs {
					everReleased[n] = true
				}
				otherEvents++
				if kind == opAdvance {
					r.Count("fault.expiry_release_by_ticker", 1)
				} else {
					r.Count("fault.expiry_release_by_sweep", 1)
				}
			}
			if kind == opAdvance {
				now := m.now.Add(op.D)
				for _, id := range m.liveRIDs() {
					if keep, drop := expiryRule(kind, m.res[id], now); !keep && !drop {
						r.Count("probe.expiry_inside_grace_window", 1)
					}
				}
			}
		}

		m.commit(op, got)

		// the real keeper's state, inspected on its own and against the model
		render, oracle, msg := sys.snapshotCheck()
		if oracle != "" {
			r.Violate(oracle, "state/after-"+kind, "after op %d %s -> %s\n%s\nreal live reservations: %s", i, op, got, msg, render)
			return
		}
		if mr := m.render(); render != mr {
			r.Violate("state", "after-"+kind, "after op %d %s -> %s\nreal live reservations:  %s\nreference keeper says:  %s", i, op, got, render, mr)
			return
		}
		r.FP(render)
	}
	if okCount >= 2 && otherEvents >= 1 {
		r.NonTrivial()
	}
}

// SpecC26 is the C26 check (sequential mode).
func SpecC26() simkit.Spec {
	return simkit.Spec{
		Prop:    "C26",
		Gen:     genC26,
		NewPlan: func() any { return &C26Plan{} },
		Exec:    execC26,
		Rule: "SEQUENTIAL histories of 1-30 ops (reserve by account/asset/vote key (3 of 4 times those of an existing output)/amount class/useUnconfirmed/expiry class, reserve-particular, cancel of live/released/unknown ids, " +
			"advance of virtual time by fixed spans or to just before/at/after the earliest live expiry, expiry sweep at the current instant, height change up/down/to the next maturity, " +
			"add/remove unconfirmed, write/delete confirmed record) over 3-10 outputs spread over 1-2 accounts, 1-2 assets, 0-2 vote keys, amounts 1..1e6 with ties, valid heights around the current height, " +
			"each output confirmed / confirmed+unconfirmed / unconfirmed / absent / contract; amount classes 1, small, exactly-free, free+1, all-mature(+1), all-visible(+1), 2^40, free-k, free/2+1, one output's amount; " +
			"non-trivial = at least 2 successful reservations and at least one failure, cancel of a live reservation or expiry release; distinct = hash of every op, result and live-reservation state",
		Components: map[string]string{
			"account.utxoKeeper":                   "real (constructed by newUtxoKeeper through the add-only hook file account/verif_hooks.go; its expireWorker ticker goroutine runs on the synctest virtual clock)",
			"wallet DB":                            "stub: verif/sim/simdisk (ordered in-memory dbm.DB); confirmed UTXO records written in the wallet's format (account.StandardUTXOKey/ContractUTXOKey, json.Marshal(account.UTXO))",
			"chain best height":                    "stub: harness-controlled function handed to newUtxoKeeper",
			"account.Manager / txbuilder / wallet": "absent: the keeper's own API is driven directly (Reserve, ReserveParticular, Cancel, AddUnconfirmedUtxo, RemoveUnconfirmedUtxo, expireReservation)",
			"clock":                                "testing/synctest virtual clock",
		},
		Assumptions: []string{
			"only the sequential mode is decided at this commit: one client, no two keeper calls overlap (the expiry ticker goroutine does run concurrently in virtual time, but only while the client sleeps)",
			"failure classes when several reasons apply: Reserve reports insufficient iff all visible matching outputs together do not cover the amount, reserved iff the mature ones would cover it were none held, immature otherwise; ReserveParticular reports reserved before not-found before immature",
			"expiry: a reservation must still be live while now <= expiry, must be gone once now >= expiry + 2 s (the sweep period is 1 s); in between either is accepted and the reference keeper follows the real one; a sweep at instant t must release expiry < t and keep expiry > t",
			"an output recorded both in the wallet DB and in the unconfirmed set has the same record in both places and counts as one output",
			"requested amounts are >= 1 (spend actions reject 0 before reserving); sums stay far below 2^64",
			"the reserved-output index is required to be exactly the inverse of the live reservations (stricter than the statement; it is what later 'already reserved' answers are computed from)",
		},
		FaultKinds: []string{"fault.expiry_release_by_ticker", "fault.expiry_release_by_sweep", "fault.record_removed_while_reserved", "fault.height_decrease"},
		Probes: []string{"op.reserve.ok", "op.reserve.insufficient", "op.reserve.immature", "op.reserve.reserved",
			"op.particular.ok", "op.particular.reserved", "op.particular.immature", "op.particular.nomatch",
			"probe.reserve_sees_output_in_db_and_unconfirmed", "probe.multi_output_reservation", "probe.rereserved_after_release",
			"probe.cancel_live", "probe.cancel_not_live", "probe.height_matures_output", "probe.expiry_inside_grace_window"},
	}
}
