package keepersim

import (
	"fmt"
	"testing"
	"time"

	"github.com/anishathalye/porcupine"
	"pgregory.net/rapid"

	"github.com/bytom/bytom/account"
	"github.com/bytom/bytom/protocol/bc"

	"verif/sim/simdisk"
	"verif/sim/simkit"
	"verif/sim/simrt"
)

// C26 concurrent mode (instrumented "simrt" build): 2-3 client tasks issue
// reservations and cancellations against the REAL keeper under the cooperative
// scheduler; every interleaving decision comes from the plan's tape. Oracles:
// (1) the keeper's own snapshot never shows an output in two live reservations;
// (2) the recorded history (invoke/return stamped with scheduler step numbers) is
// linearizable against the reference keeper (porcupine).

// ConcPlan is one concurrent run.
type ConcPlan struct {
	Amounts []uint64 `json:"amounts"` // outputs, one account / one asset, all confirmed and mature
	Clients [][]int  `json:"clients"` // per client: op codes (0-5: reserve amount class, 6: cancel own last)
	Tape    []int    `json:"tape"`
}

func genConc(rt *rapid.T) any {
	p := &ConcPlan{}
	n := rapid.IntRange(2, 6).Draw(rt, "nouts")
	for i := 0; i < n; i++ {
		p.Amounts = append(p.Amounts, uint64(rapid.IntRange(1, 5).Draw(rt, "amount")))
	}
	nc := rapid.IntRange(2, 3).Draw(rt, "nclients")
	for c := 0; c < nc; c++ {
		var ops []int
		for i, m := 0, rapid.IntRange(1, 4).Draw(rt, "nops"); i < m; i++ {
			ops = append(ops, rapid.IntRange(0, 6).Draw(rt, "op"))
		}
		p.Clients = append(p.Clients, ops)
	}
	for i, m := 0, rapid.IntRange(8, 96).Draw(rt, "ntape"); i < m; i++ {
		p.Tape = append(p.Tape, rapid.IntRange(0, 5).Draw(rt, "pick"))
	}
	return p
}

type histOp struct {
	client   int
	op       *cop
	got      result
	call, rt int64
}

func execConc(t *testing.T, plan any, r *simkit.Run) {
	p := plan.(*ConcPlan)
	bubble(t, r, func() {
		sys := &realSys{db: simdisk.New(), recs: map[string]*account.UTXO{}, contr: map[string]bool{}, byHash: map[bc.Hash]string{}, assets: map[string]bc.AssetID{}}
		var mouts []*mout
		var total uint64
		for i, a := range p.Amounts {
			name := outName(i)
			mo := &mout{Name: name, Acc: accName(0), Asset: assetName(0), Amount: a, ValidHeight: 0, Confirmed: true}
			sys.assets[mo.Asset] = assetID(0)
			u := &account.UTXO{OutputID: outHash(i), SourceID: bc.NewHash([32]byte{0x50, byte(i)}), AssetID: assetID(0), Amount: a, SourcePos: uint64(i),
				ControlProgram: []byte{0x00, 0x14, byte(i)}, AccountID: mo.Acc, Address: "addr-" + name, ControlProgramIndex: uint64(i + 1)}
			sys.recs[name], sys.byHash[u.OutputID] = u, name
			mouts = append(mouts, mo)
			total += a
		}
		sys.height.Store(10)
		m0 := newModel(mouts, 10, time.Now())
		for _, mo := range mouts {
			sys.putConfirmed(mo.Name)
		}
		ti := 0
		sched := simrt.New(func(n int) int { v := p.Tape[ti%len(p.Tape)]; ti++; return v % n })
		defer sched.Stop()
		sched.Progress = func() { r.Count("simrt.loop", 1) }
		sched.Client("start", func() { sys.k = account.NewVerifKeeper(sys.height.Load, sys.db) })
		sched.Run(5*time.Second, 100000)
		if sys.k == nil {
			harnessFail("keeper did not start under the scheduler: %s", sched.Deadlock)
		}
		exp := time.Now().Add(100 * time.Hour)
		var hist []histOp
		for c, codes := range p.Clients {
			c, codes := c, codes
			sched.Client(fmt.Sprintf("client%d", c), func() {
				var mine []uint64
				for _, code := range codes {
					var op *cop
					if code == 6 {
						if len(mine) == 0 {
							continue
						}
						op = &cop{Kind: opCancel, RID: mine[len(mine)-1]}
						mine = mine[:len(mine)-1]
					} else {
						amt := []uint64{1, 2, 3, total / 2, total, total + 1}[code]
						if amt == 0 {
							amt = 1
						}
						op = &cop{Kind: opReserve, Acc: accName(0), Asset: assetName(0), Amount: amt, Exp: exp}
					}
					call := int64(sched.Steps)
					got := applyReal(sys, op)
					ret := int64(sched.Steps)
					if got.Class == clsOK {
						mine = append(mine, got.RID)
					}
					hist = append(hist, histOp{client: c, op: op, got: got, call: call, rt: ret})
				}
			})
		}
		sched.Run(time.Hour, 1000000)
		r.Count("simrt.steps", sched.Steps)
		if sched.Deadlock != "" {
			r.Violate("no-progress", "", "a keeper call never returned: %s", sched.Deadlock)
			return
		}
		sched.Stop()
		for _, h := range hist {
			r.Tracef("client%d [%d,%d] %s -> %s", h.client, h.call, h.rt, h.op, h.got)
		}
		if _, oracle, msg := sys.snapshotCheck(); oracle != "" {
			r.Violate(oracle, "concurrent", "after %d concurrent operations by %d clients: %s", len(hist), len(p.Clients), msg)
			return
		}
		// linearizability against the reference keeper
		pm := porcupine.Model{
			Init: func() interface{} { return m0.clone() },
			Step: func(state, in, out interface{}) (bool, interface{}) {
				m := state.(*model).clone()
				op, got := in.(*cop), out.(result)
				if oracle, _ := m.validate(op, got); oracle != "" {
					return false, state
				}
				m.commit(op, got)
				return true, m
			},
			Equal: func(a, b interface{}) bool { return a.(*model).render() == b.(*model).render() },
			DescribeOperation: func(in, out interface{}) string {
				return fmt.Sprintf("%s -> %s", in.(*cop), out.(result))
			},
		}
		var ops []porcupine.Operation
		for i, h := range hist {
			ret := h.rt
			if ret <= h.call {
				ret = h.call + 1
			}
			ops = append(ops, porcupine.Operation{ClientId: h.client, Input: h.op, Call: h.call*1000 + int64(i), Output: h.got, Return: ret*1000 + int64(i)})
		}
		if len(ops) >= 2 {
			r.NonTrivial()
			switch porcupine.CheckOperationsTimeout(pm, ops, 20*time.Second) {
			case porcupine.Illegal:
				r.Violate("not-linearizable", "", "the results of %d concurrent keeper operations cannot be explained by any sequential order consistent with their real-time order (see the trace: client [invoke,return] op -> result)", len(ops))
				return
			case porcupine.Unknown:
				r.Count("porcupine.inconclusive", 1)
			default:
				r.Count("porcupine.linearizable", 1)
			}
		}
	})
}

// SpecC26conc is the concurrent part of C26.
func SpecC26conc() simkit.Spec {
	return simkit.Spec{
		Prop: "C26", Gen: genConc, NewPlan: func() any { return &ConcPlan{} }, Exec: execConc,
		Rule: "2-6 confirmed mature outputs of one account/asset (amounts 1-5); 2-3 client tasks each issue 1-4 reservations (amount classes 1, 2, 3, half, all, all+1) and cancellations of their own reservations against the real keeper; the account package is instrumented, every lock operation is a yield point and the plan's tape picks the next task; oracles: the keeper's snapshot shows no output in two live reservations and a consistent index, and the invoke/return history is linearizable against the reference keeper (porcupine, 20 s cap, inconclusive is counted, never reported)",
		Components: map[string]string{"account.utxoKeeper": "real (instrumented: sync -> simsync, go -> simrt.Go)", "wallet db": "stub: simdisk", "scheduler": "simrt (cooperative, tape-driven)", "clock": "simulated"},
		Probes:     []string{"simrt.steps", "porcupine.linearizable", "porcupine.inconclusive"},
	}
}

// combined spec: sequential histories (two thirds) and scheduled concurrent runs (one third)
type bothPlan struct {
	Seq  *C26Plan  `json:"seq,omitempty"`
	Conc *ConcPlan `json:"conc,omitempty"`
}

func SpecC26both() simkit.Spec {
	a, b := SpecC26(), SpecC26conc()
	s := a
	s.ReplayAttempts = 8
	s.Gen = func(rt *rapid.T) any {
		if rapid.IntRange(0, 2).Draw(rt, "mode") == 2 {
			return &bothPlan{Conc: genConc(rt).(*ConcPlan)}
		}
		return &bothPlan{Seq: genC26(rt).(*C26Plan)}
	}
	s.NewPlan = func() any { return &bothPlan{} }
	s.Exec = func(t *testing.T, plan any, r *simkit.Run) {
		p := plan.(*bothPlan)
		if p.Conc != nil {
			r.Count("mode.concurrent", 1)
			execConc(t, p.Conc, r)
		} else if p.Seq != nil {
			r.Count("mode.sequential", 1)
			execC26(t, p.Seq, r)
		}
	}
	s.Rule = "two thirds sequential: " + a.Rule + " — one third concurrent: " + b.Rule
	s.Probes = append(append([]string{}, a.Probes...), "mode.concurrent", "mode.sequential", "porcupine.linearizable", "porcupine.inconclusive")
	return s
}
