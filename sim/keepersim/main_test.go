package keepersim

import (
	"testing"

	"verif/sim/simkit"
)

func TestC26(t *testing.T) { simkit.Main(t, SpecC26both()) }
