// Package simsync is the drop-in replacement for "sync" in instrumented Bytom
// packages: when a simrt scheduler is active and the caller is one of its tasks,
// blocking is expressed as "park until granted" (the real lock is still taken
// afterwards, uncontended); otherwise the real primitive is used unchanged.
package simsync

import (
	"fmt"
	"runtime"
	"strings"
	"sync"

	"verif/sim/simrt"
)

// Types that are used unchanged.
type (
	WaitGroup = sync.WaitGroup
	Once      = sync.Once
	Map       = sync.Map
	Pool      = sync.Pool
	Locker    = sync.Locker
)

func caller() string {
	_, file, line, ok := runtime.Caller(2)
	if !ok {
		return "?"
	}
	for _, root := range []string{"/protocol/", "/event/", "/account/", "/wallet/", "/database/", "/netsync/", "/p2p/", "/proposal/"} {
		if i := strings.Index(file, root); i >= 0 {
			file = file[i+1:]
			break
		}
	}
	return fmt.Sprintf("%s:%d", file, line)
}

// Mutex mirrors sync.Mutex.
type Mutex struct{ real sync.Mutex }

func (m *Mutex) Lock() {
	if s := simrt.Active(); s != nil {
		s.Acquire(m, false, caller())
	}
	m.real.Lock()
}

func (m *Mutex) Unlock() {
	m.real.Unlock()
	if s := simrt.Active(); s != nil {
		s.Release(m, false, caller())
	}
}

// RWMutex mirrors sync.RWMutex.
type RWMutex struct{ real sync.RWMutex }

func (m *RWMutex) Lock() {
	if s := simrt.Active(); s != nil {
		s.Acquire(m, false, caller())
	}
	m.real.Lock()
}

func (m *RWMutex) Unlock() {
	m.real.Unlock()
	if s := simrt.Active(); s != nil {
		s.Release(m, false, caller())
	}
}

func (m *RWMutex) RLock() {
	if s := simrt.Active(); s != nil {
		s.Acquire(m, true, caller())
	}
	m.real.RLock()
}

func (m *RWMutex) RUnlock() {
	m.real.RUnlock()
	if s := simrt.Active(); s != nil {
		s.Release(m, true, caller())
	}
}

// RLocker returns a Locker for the read side.
func (m *RWMutex) RLocker() sync.Locker { return (*rlocker)(m) }

type rlocker RWMutex

func (r *rlocker) Lock()   { (*RWMutex)(r).RLock() }
func (r *rlocker) Unlock() { (*RWMutex)(r).RUnlock() }

// Cond mirrors sync.Cond (L must be a *Mutex of this package, as in Bytom).
type Cond struct {
	L    sync.Locker
	real *sync.Cond
	once sync.Once
}

// NewCond returns a new Cond with Locker l.
func NewCond(l sync.Locker) *Cond { return &Cond{L: l} }

func (c *Cond) init() { c.once.Do(func() { c.real = sync.NewCond(c.L) }) }

func (c *Cond) Wait() {
	c.init()
	if s := simrt.Active(); s != nil {
		if m, ok := c.L.(*Mutex); ok {
			// release the real lock, park on the condition, re-acquire
			m.real.Unlock()
			if s.CondWait(c, m, caller()) {
				m.real.Lock()
				return
			}
			m.real.Lock()
		}
	}
	c.real.Wait()
}

func (c *Cond) Signal() {
	c.init()
	if s := simrt.Active(); s != nil {
		s.CondWake(c, false)
	}
	c.real.Signal()
}

func (c *Cond) Broadcast() {
	c.init()
	if s := simrt.Active(); s != nil {
		s.CondWake(c, true)
	}
	c.real.Broadcast()
}
