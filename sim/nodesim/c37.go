package nodesim

import (
	"fmt"
	"os"
	"regexp"
	"sort"
	"strings"
	"sync"
	"testing"
	"testing/synctest"

	"pgregory.net/rapid"

	"github.com/bytom/bytom/proposal"
	"github.com/bytom/bytom/protocol/bc"
	"github.com/bytom/bytom/protocol/bc/types"
	"github.com/bytom/bytom/protocol/casper"

	"verif/sim/model"
	"verif/sim/simdisk"
	"verif/sim/simkit"
)

// C37 — several feeders drive one node at the same time: block deliveries,
// verification messages (including ones that change the best chain), transaction
// submissions, read queries and the proposer. The engine is built with the race
// detector; a real-time no-progress watchdog turns a lock cycle into a reported
// hang. The feeders are real goroutines released together, so there is no
// happens-before edge between them except the node's own synchronisation.

// C37Plan: a tree, votes, and how the work is split over feeders.
type C37Plan struct {
	Tree      TreePlan `json:"tree"`
	BlockFeed int      `json:"block_feeders"` // 1-2
	VoteFeed  int      `json:"vote_feeders"`  // 0-2
	TxFeed    int      `json:"tx_feeders"`    // 0-1
	Readers   int      `json:"readers"`       // 0-2
	Proposer  bool     `json:"proposer"`
	Prefix    int      `json:"prefix"` // blocks delivered sequentially before the concurrent phase (beyond warm-up)
	Shuffle   []int    `json:"shuffle"`
	Rounds    int      `json:"rounds"`
}

func genC37(rt *rapid.T) any {
	cfg := GenCfg(rt, 3)
	p := &C37Plan{Tree: TreePlan{Cfg: cfg, Warm: WarmupLen(cfg), Steps: GenSteps(rt, 6, 18, 5, 3)}}
	p.BlockFeed = rapid.IntRange(1, 2).Draw(rt, "bf")
	p.VoteFeed = rapid.IntRange(0, 2).Draw(rt, "vf")
	p.TxFeed = rapid.IntRange(0, 1).Draw(rt, "tf")
	p.Readers = rapid.IntRange(0, 2).Draw(rt, "rd")
	p.Proposer = rapid.Bool().Draw(rt, "prop")
	p.Prefix = rapid.IntRange(0, 6).Draw(rt, "prefix")
	p.Rounds = rapid.IntRange(1, 3).Draw(rt, "rounds")
	n := rapid.IntRange(4, 24).Draw(rt, "nshuffle")
	for i := 0; i < n; i++ {
		p.Shuffle = append(p.Shuffle, rapid.IntRange(0, 9).Draw(rt, "sh"))
	}
	return p
}

var raceFrame = regexp.MustCompile(`(?m)^\s+(github\.com/bytom/bytom/\S+)\(\)\s*$`)

// raceLog reads new data race reports written since offset.
type raceLog struct {
	path string
	off  int64
}

func newRaceLog() *raceLog {
	g := os.Getenv("GORACE")
	for _, f := range strings.Fields(g) {
		if strings.HasPrefix(f, "log_path=") {
			return &raceLog{path: fmt.Sprintf("%s.%d", strings.TrimPrefix(f, "log_path="), os.Getpid())}
		}
	}
	return nil
}

// newReports returns the signatures and texts of the race reports added since the last call.
func (l *raceLog) newReports() (sigs []string, texts []string) {
	if l == nil {
		return nil, nil
	}
	b, err := os.ReadFile(l.path)
	if err != nil || int64(len(b)) <= l.off {
		return nil, nil
	}
	s := string(b[l.off:])
	l.off = int64(len(b))
	for _, rep := range strings.Split(s, "==================") {
		if !strings.Contains(rep, "WARNING: DATA RACE") {
			continue
		}
		// the two accesses: first Bytom frame of each stack section
		var tops []string
		for _, sec := range strings.Split(rep, "\n\n") {
			head := strings.TrimSpace(strings.SplitN(sec, "\n", 2)[0])
			if !(strings.HasPrefix(head, "Read at") || strings.HasPrefix(head, "Write at") || strings.HasPrefix(head, "Previous read") || strings.HasPrefix(head, "Previous write") ||
				strings.HasPrefix(head, "WARNING: DATA RACE")) {
				continue
			}
			if m := raceFrame.FindStringSubmatch(sec); m != nil {
				tops = append(tops, strings.TrimPrefix(m[1], "github.com/bytom/bytom/"))
			}
		}
		if len(tops) == 0 {
			continue // a race entirely outside Bytom code is a harness matter
		}
		if len(tops) > 2 {
			tops = tops[:2]
		}
		sort.Strings(tops)
		sigs = append(sigs, strings.Join(tops, "|"))
		if len(rep) > 2500 {
			rep = rep[:2500]
		}
		texts = append(texts, rep)
	}
	return
}

var theRaceLog = newRaceLog()

func execC37(t *testing.T, plan any, r *simkit.Run) {
	// The Go scheduler, not the plan, picks the interleaving inside the concurrent
	// phase; a replay therefore repeats the same concurrent workload a few times.
	attempts := 1
	if getenv("VERIF_MODE", "") == "replay" {
		attempts = 12
	}
	for a := 0; a < attempts && !r.Failed(); a++ {
		execC37once(t, plan, r)
	}
}

func execC37once(t *testing.T, plan any, r *simkit.Run) {
	p := plan.(*C37Plan)
	Bubble(t, func() {
		w := NewWorld(t, r, p.Tree.Cfg)
		prods := w.ProduceTree(&p.Tree, Oracles{})
		if r.Failed() || len(prods) == 0 {
			return
		}
		theRaceLog.newReports() // discard anything from the production phase (separate nodes)
		victim, err := w.StartNode("victim", simdisk.New(), w.Keys[0])
		if err != nil {
			r.Violate("init", "", "%v", err)
			return
		}
		// sequential prefix
		seq := p.Tree.Warm + p.Prefix
		if seq > len(prods) {
			seq = len(prods)
		}
		for _, pr := range prods[:seq] {
			victim.Process(w.Blocks[pr.Hash])
		}
		rest := prods[seq:]
		// votes: every validator's honest vote for every checkpoint of the tree (sources by the model's ancestry)
		var votes []*casper.ValidCasperSignMsg
		for _, h := range w.Order[1:] {
			s := w.Tree.Nodes[h]
			if s.Height%w.P.E != 0 {
				continue
			}
			src := s.Parent
			for src != nil && src.Height%w.P.E != 0 {
				src = src.Parent
			}
			if src == nil {
				continue
			}
			for _, v := range w.Tree.EffectiveValidators(w.Tree.CheckpointOf(s.Parent).Votes) {
				if k := w.keyByPub[v.PubKey]; k != nil {
					votes = append(votes, SignVote(k, src.Hash, s.Hash))
				}
			}
		}
		var txs []*types.Tx
		for _, pr := range rest {
			txs = append(txs, pr.Txs...)
		}
		pick := func(i int) int { return p.Shuffle[i%len(p.Shuffle)] }

		// split the work
		type feeder func()
		var feeders []feeder
		var mu sync.Mutex
		calls := 0
		done := func() {
			mu.Lock()
			calls++
			mu.Unlock()
		}
		for f := 0; f < p.BlockFeed; f++ {
			f := f
			feeders = append(feeders, func() {
				for round := 0; round < p.Rounds; round++ {
					for i, pr := range rest {
						if (i+pick(i+f))%p.BlockFeed != f && round == 0 {
							continue
						}
						victim.Chain.ProcessBlock(copyBlock(w.Blocks[pr.Hash]))
						done()
					}
				}
			})
		}
		for f := 0; f < p.VoteFeed; f++ {
			f := f
			feeders = append(feeders, func() {
				for i, v := range votes {
					if (i+pick(i))%p.VoteFeed != f {
						continue
					}
					vv := *v
					victim.Chain.ProcessBlockVerification(&vv)
					done()
				}
			})
		}
		for f := 0; f < p.TxFeed; f++ {
			feeders = append(feeders, func() {
				for _, tx := range txs {
					victim.Chain.ValidateTx(tx)
					done()
				}
			})
		}
		for f := 0; f < p.Readers; f++ {
			feeders = append(feeders, func() {
				for i := 0; i < 6*len(rest)+6; i++ {
					c := victim.Chain
					hdr := c.BestBlockHeader()
					c.BestBlockHeight()
					c.BestBlockHash()
					c.GetHeaderByHeight(hdr.Height)
					c.InMainChain(hdr.Hash())
					c.LastFinalizedHeader()
					c.LastJustifiedHeader()
					hh := hdr.Hash()
					c.GetValidator(&hh, hdr.Timestamp+w.P.IntervalMs)
					c.AllValidators(&hh)
					c.GetTxPool().GetTransactions()
					c.BlockExist(&hh)
					done()
				}
			})
		}
		if p.Proposer {
			feeders = append(feeders, func() {
				for i := 0; i < 3; i++ {
					hdr := victim.Chain.BestBlockHeader()
					hh := hdr.Hash()
					ts := hdr.Timestamp + w.P.IntervalMs
					if v, err := victim.Chain.GetValidator(&hh, ts); err == nil && v != nil {
						proposal.NewBlockTemplate(victim.Chain, v, nil, ts, 0, 0)
					}
					done()
				}
			})
		}
		victim.Activate()
		var wg sync.WaitGroup
		start := make(chan struct{})
		for _, f := range feeders {
			f := f
			wg.Add(1)
			go func() {
				defer wg.Done()
				<-start
				f()
			}()
		}
		synctest.Wait() // every feeder is parked on start: release them together
		close(start)
		wg.Wait() // every call returns (a lock cycle leaves this waiting: the watchdog reports the hang)
		synctest.Wait()
		r.Count("concurrent.calls", calls)
		r.Count("concurrent.feeders", len(feeders))
		r.Tracef("feeders=%d calls=%d blocks=%d votes=%d txs=%d", len(feeders), calls, len(rest), len(votes), len(txs))
		if len(feeders) >= 2 {
			r.NonTrivial()
		}
		sigs, texts := theRaceLog.newReports()
		if len(sigs) > 0 {
			r.Violate("data-race", sigs[0], "the race detector reports unsynchronised access between concurrently running node operations (%d report(s) in this run):\n%s", len(sigs), texts[0])
			return
		}
		// sanity after the storm: the node's state is still coherent
		best := w.Tree.Nodes[victim.Best()]
		if best == nil {
			r.Violate("unknown-best", "", "best block after the concurrent phase was never produced")
			return
		}
		for _, s := range model.MainChain(best) {
			if !victim.Chain.InMainChain(s.Hash) {
				r.Violate("index-incoherent", "", "after the concurrent phase ancestor %s of best is not reported on the main chain", w.name(s.Hash))
				return
			}
		}
		_ = bc.Hash{}
	})
}

// SpecC37: concurrent processing neither races nor deadlocks.
func SpecC37() simkit.Spec {
	return simkit.Spec{
		Prop: "C37", Gen: genC37, NewPlan: func() any { return &C37Plan{} }, Exec: execC37,
		Rule: "one node is driven by 2-8 feeders released at the same instant: 1-2 block feeders (a forking tree, re-deliveries), 0-2 vote feeders (every validator's vote for every checkpoint, so votes flip the best chain), a transaction submitter, readers of every query and the block proposer; engine built with the race detector; oracle: every call returns (real-time no-progress watchdog reports a hang with all stacks), zero race reports involving node code, coherent index afterwards; non-trivial = at least two feeders; distinct = hash of (plan shape, counts)",
		Components: nodeComponents,
		Assumptions: []string{"the interleaving inside the concurrent phase is chosen by the Go scheduler, not by the plan: a replay re-runs the same concurrent workload and the race detector (happens-before based, independent of the actual timing) is expected to report the same pair again; a report that does not reproduce is classified as harness nondeterminism (exit 2), never as a violation",
			"race reports in the race log are attributed to the run that was executing; reports whose stacks contain no node code are ignored"},
		Probes: []string{"concurrent.calls", "concurrent.feeders"},
	}
}
