package nodesim

// The wallet configuration of nodesim: a real node plus the REAL account.Manager,
// asset.Registry and wallet.Wallet (with its three goroutines) on a second
// simulated disk, accounts created from harness-held chainkd keys, a block
// proposer driven on the wallet node itself (so that epoch rewards pay wallet
// programs), an independent main-chain scan for the oracles and a small signer
// for outputs the wallet owns.  Used by C24, C25 and C27.

import (
	"context"
	"crypto/rand"
	"crypto/sha256"
	"encoding/binary"
	"encoding/hex"
	"fmt"
	"io"
	"sort"
	"sync"
	"testing/synctest"
	"time"

	"github.com/google/uuid"

	"github.com/bytom/bytom/account"
	"github.com/bytom/bytom/asset"
	"github.com/bytom/bytom/blockchain/signers"
	"github.com/bytom/bytom/contract"
	"github.com/bytom/bytom/crypto"
	"github.com/bytom/bytom/crypto/ed25519/chainkd"
	dbm "github.com/bytom/bytom/database/leveldb"
	"github.com/bytom/bytom/proposal"
	"github.com/bytom/bytom/protocol"
	"github.com/bytom/bytom/protocol/bc"
	"github.com/bytom/bytom/protocol/bc/types"
	"github.com/bytom/bytom/protocol/vm/vmutil"
	"github.com/bytom/bytom/wallet"

	"verif/sim/model"
	"verif/sim/simdisk"
)

// ---------------------------------------------------------------------------
// deterministic replacement of the process random source (account ids are
// uuid.New(), issuance nonces are crypto/rand): a hash-counter stream seeded by
// the plan, so that every identifier of a run is a function of the plan.

type detRand struct {
	mu   sync.Mutex
	seed [32]byte
	ctr  uint64
	buf  []byte
}

func (d *detRand) Read(p []byte) (int, error) {
	d.mu.Lock()
	defer d.mu.Unlock()
	for i := range p {
		if len(d.buf) == 0 {
			var c [8]byte
			binary.BigEndian.PutUint64(c[:], d.ctr)
			d.ctr++
			h := sha256.Sum256(append(d.seed[:], c[:]...))
			d.buf = h[:]
		}
		p[i] = d.buf[0]
		d.buf = d.buf[1:]
	}
	return len(p), nil
}

// installDetRand makes uuid.New and crypto/rand.Read plan-determined; the
// returned function restores the process source.
func installDetRand(salt int) func() {
	d := &detRand{seed: sha256.Sum256([]byte(fmt.Sprintf("verif wallet run %d", salt)))}
	old := rand.Reader
	rand.Reader = d
	uuid.SetRand(d)
	return func() {
		rand.Reader = old
		uuid.SetRand(nil)
	}
}

var _ io.Reader = (*detRand)(nil)

// ---------------------------------------------------------------------------
// gateDB: the wallet's view of the wallet disk. Identical to the disk except that
// a write batch committing the wallet status ("walletInfo": the commit point of
// every attach and detach) can be held back by the harness. That is how the
// wallet updater is made to lag deterministically: while the gate is closed the
// updater parks at its next commit (a channel receive: durably blocked under
// synctest), the chain moves on, and the harness then lets a chosen number of
// commits through.

type gateDB struct {
	*simdisk.Disk
	mu      sync.Mutex
	closed  bool
	parked  bool
	commits int
	tokens  chan struct{}
}

func newGateDB(d *simdisk.Disk) *gateDB { return &gateDB{Disk: d, tokens: make(chan struct{}, 64)} }

type gateBatch struct {
	g      *gateDB
	b      dbm.Batch
	commit bool
}

func (g *gateDB) NewBatch() dbm.Batch { return &gateBatch{g: g, b: g.Disk.NewBatch()} }
func (b *gateBatch) Set(k, v []byte) {
	if string(k) == "walletInfo" {
		b.commit = true
	}
	b.b.Set(k, v)
}
func (b *gateBatch) Delete(k []byte) { b.b.Delete(k) }
func (b *gateBatch) Write() {
	if b.commit {
		b.g.pass()
	}
	b.b.Write()
}

func (g *gateDB) pass() {
	g.mu.Lock()
	g.commits++
	if !g.closed {
		g.mu.Unlock()
		return
	}
	g.parked = true
	g.mu.Unlock()
	<-g.tokens
	g.mu.Lock()
	g.parked = false
	g.mu.Unlock()
}

// Close holds back every following wallet commit.
func (g *gateDB) Close() {
	g.mu.Lock()
	g.closed = true
	g.mu.Unlock()
}

// Parked reports whether the updater is waiting at the gate (it then holds the wallet lock).
func (g *gateDB) Parked() bool {
	g.mu.Lock()
	defer g.mu.Unlock()
	return g.parked
}

// Step lets at most k held commits through, one at a time, and returns how many passed.
func (g *gateDB) Step(k int) int {
	n := 0
	for i := 0; i < k; i++ {
		synctest.Wait()
		if !g.Parked() {
			break
		}
		g.tokens <- struct{}{}
		synctest.Wait()
		n++
	}
	return n
}

// Open releases the gate and waits until the wallet is quiescent.
func (g *gateDB) Open() {
	synctest.Wait()
	g.mu.Lock()
	g.closed = false
	parked := g.parked
	g.mu.Unlock()
	if parked {
		g.tokens <- struct{}{}
	}
	synctest.Wait()
}

// ---------------------------------------------------------------------------

// AcctSpec describes one wallet account of a plan.
type AcctSpec struct {
	Keys   int `json:"keys"`   // 1 = single key (P2WPKH addresses), 3 = multisig (P2WSH)
	Quorum int `json:"quorum"` // signatures needed
	Addrs  int `json:"addrs"`  // receiving addresses created up front (>= 1)
}

// WProg is one control program the harness created for a wallet account.
type WProg struct {
	Acct *WAccount
	CP   *account.CtrlProgram
	Path [][]byte
	No   int // creation index inside the account
}

// WAccount is the harness' own record of a wallet account.
type WAccount struct {
	Idx    int
	Name   string // "A0", "A1", ...
	Acc    *account.Account
	Roots  []*Key
	Quorum int
	Progs  []*WProg
}

// WalletNode is a node with the real wallet stack.
type WalletNode struct {
	*Node
	Wal      *wallet.Wallet
	Assets   *asset.Registry
	Gate     *gateDB
	Accts    []*WAccount
	byProg   map[string]*WProg
	rootByXP map[chainkd.XPub]*Key
	acctByID map[string]*WAccount
}

// StartWalletNode starts a node on disk, creates the accounts (before the wallet
// looks at any block, so nothing paid to them can be missed) and starts the real wallet.
func (w *World) StartWalletNode(name string, disk *simdisk.Disk, specs []AcctSpec, txIndex bool) (*WalletNode, error) {
	n, err := w.StartNode(name, disk, w.Keys[0])
	if err != nil {
		return nil, err
	}
	wn := &WalletNode{Node: n, byProg: map[string]*WProg{}, rootByXP: map[chainkd.XPub]*Key{}, acctByID: map[string]*WAccount{}}
	wn.Gate = newGateDB(n.Wallet)
	wn.Assets = asset.NewRegistry(n.Wallet, n.Chain)
	keyNo := 100
	for i, sp := range specs {
		a := &WAccount{Idx: i, Name: fmt.Sprintf("A%d", i), Quorum: sp.Quorum}
		var xpubs []chainkd.XPub
		for k := 0; k < sp.Keys; k++ {
			key := newKey(keyNo)
			keyNo++
			a.Roots = append(a.Roots, key)
			xpubs = append(xpubs, key.Xpub)
			wn.rootByXP[key.Xpub] = key
		}
		acc, err := n.Acct.Create(xpubs, sp.Quorum, fmt.Sprintf("acct%d", i), signers.BIP0044)
		if err != nil {
			return nil, fmt.Errorf("create account %d: %v", i, err)
		}
		a.Acc = acc
		wn.Accts = append(wn.Accts, a)
		wn.acctByID[acc.ID] = a
		for k := 0; k < sp.Addrs; k++ {
			if _, err := wn.NewAddress(a, false); err != nil {
				return nil, err
			}
		}
		if _, err := wn.NewAddress(a, true); err != nil {
			return nil, err
		}
	}
	if err := wn.startWallet(txIndex); err != nil {
		return nil, err
	}
	return wn, nil
}

func (wn *WalletNode) startWallet(txIndex bool) error {
	n := wn.Node
	wal, err := wallet.NewWallet(wn.Gate, n.Acct, wn.Assets, contract.NewRegistry(n.Wallet), nil, n.Chain, n.Disp, txIndex)
	if err != nil {
		return fmt.Errorf("wallet: %v", err)
	}
	wn.Wal = wal
	synctest.Wait()
	return nil
}

// Restart stops the wallet node the hard way (whatever its wallet had not
// committed is lost, the old instance is never fed again) and starts a new node
// and wallet from copies of both disks.
func (wn *WalletNode) Restart(txIndex bool) (*WalletNode, error) {
	w := wn.W
	n, err := w.StartNode(wn.Name, wn.Disk.Clone(), wn.Key)
	if err != nil {
		return nil, err
	}
	n.Wallet = wn.Node.Wallet.Clone()
	n.Acct = account.NewManager(n.Wallet, n.Chain)
	nw := &WalletNode{Node: n, Accts: wn.Accts, byProg: wn.byProg, rootByXP: wn.rootByXP, acctByID: wn.acctByID}
	nw.Gate = newGateDB(n.Wallet)
	nw.Assets = asset.NewRegistry(n.Wallet, n.Chain)
	if err := nw.startWallet(txIndex); err != nil {
		return nil, err
	}
	return nw, nil
}

// NewAddress creates one more control program of account a through the real manager.
func (wn *WalletNode) NewAddress(a *WAccount, change bool) (*WProg, error) {
	cp, err := wn.Acct.CreateAddress(a.Acc.ID, change)
	if err != nil {
		return nil, fmt.Errorf("create address: %v", err)
	}
	path, err := signers.Path(a.Acc.Signer, signers.AccountKeySpace, cp.Change, cp.KeyIndex)
	if err != nil {
		return nil, err
	}
	p := &WProg{Acct: a, CP: cp, Path: path, No: len(a.Progs)}
	a.Progs = append(a.Progs, p)
	wn.byProg[hex.EncodeToString(cp.ControlProgram)] = p
	return p, nil
}

// Owner returns the harness record of a program (nil: not a wallet program).
func (wn *WalletNode) Owner(prog []byte) *WProg { return wn.byProg[hex.EncodeToString(prog)] }

// setIdentity makes k the node's validator key without touching its coinbase program.
func (n *Node) setIdentity(k *Key) {
	n.Key = k
	xprv := k.Xprv
	n.cfg.XPrv = &xprv
	xpub := k.Xpub
	n.cfg.XPub = &xpub
}

// ProposeOn builds the next block on node n's own best block with the real
// proposer, signing as whichever simulated validator the node says is scheduled,
// paying the coinbase to prog, after offering txs to the node's mempool (one
// virtual millisecond apart: the proposer orders by arrival time), and feeds the
// block back to n exactly as blockproposer does.
func (w *World) ProposeOn(n *Node, prog []byte, skip int, txs []*types.Tx) *ProposeResult {
	res := &ProposeResult{Node: n}
	parent := n.Best()
	pb := w.Blocks[parent]
	if pb == nil {
		res.Err = fmt.Errorf("best block of %s unknown to the world", n.Name)
		return res
	}
	ts := w.SlotTime(pb, skip)
	if ts > w.P.MaxOffsetMs {
		SleepUntilMs(ts - w.P.MaxOffsetMs + 1)
	}
	n.Activate()
	v, err := n.Chain.GetValidator(&parent, ts)
	if err != nil || v == nil {
		res.Err = fmt.Errorf("GetValidator: %v", err)
		return res
	}
	res.Validator = v.PubKey
	key := w.keyByPub[v.PubKey]
	if key == nil {
		res.Err = fmt.Errorf("scheduled validator %s is not a simulated key", v.PubKey)
		return res
	}
	n.setIdentity(key)
	n.setCoinbaseProgram(prog)
	for _, tx := range txs {
		time.Sleep(time.Millisecond)
		n.SubmitTx(tx)
	}
	n.Activate()
	block, err := proposal.NewBlockTemplate(n.Chain, v, n.Acct, ts, time.Second, 2*time.Second)
	if err != nil {
		res.Err = err
		return res
	}
	res.Block = block
	res.FeedOrphan, res.FeedErr = n.Chain.ProcessBlock(block)
	synctest.Wait()
	return res
}

// ---------------------------------------------------------------------------
// independent scan of a node's main chain

// Owned is one unspent output found by scanning a main chain from genesis.
type Owned struct {
	ID        bc.Hash
	Asset     bc.AssetID
	Amount    uint64
	Program   []byte
	Vote      []byte
	State     [][]byte
	Kind      model.OutKind
	Height    uint64 // creation height on the scanned chain
	TxPos     int
	OutPos    int
	SourceID  bc.Hash
	SourcePos uint64
	Prog      *WProg // wallet owner (nil: a simulated external key)
	Ext       *Key
}

// OwnerName is a stable name of the owner.
func (o *Owned) OwnerName() string {
	if o.Prog != nil {
		return o.Prog.Acct.Name
	}
	if o.Ext != nil {
		return fmt.Sprintf("K%d", o.Ext.Idx)
	}
	return "?"
}

// ScanMainChain walks chain from genesis to its best block and returns the unspent
// outputs paying wallet programs (and, if ext, simulated external keys), keyed by
// output id, plus the best height. It uses nothing but the blocks.
func (wn *WalletNode) ScanMainChain(chain *protocol.Chain, ext bool) (map[bc.Hash]*Owned, uint64, error) {
	best := chain.BestBlockHeight()
	out := map[bc.Hash]*Owned{}
	for h := uint64(0); h <= best; h++ {
		b, err := chain.GetBlockByHeight(h)
		if err != nil {
			return nil, 0, fmt.Errorf("main chain block %d: %v", h, err)
		}
		for ti, tx := range b.Transactions {
			for _, inp := range tx.Inputs {
				if id, err := inp.SpentOutputID(); err == nil {
					delete(out, id)
				}
			}
			for i, o := range tx.Outputs {
				if o.Amount == 0 {
					continue
				}
				p := wn.Owner(o.ControlProgram)
				var k *Key
				if p == nil && ext {
					k = wn.W.keyByProg[hex.EncodeToString(o.ControlProgram)]
				}
				if p == nil && k == nil {
					continue
				}
				ow := &Owned{ID: *tx.ResultIds[i], Asset: *o.AssetId, Amount: o.Amount, Program: o.ControlProgram, State: o.StateData,
					Kind: model.Normal, Height: h, TxPos: ti, OutPos: i, Prog: p, Ext: k}
				if ti == 0 {
					ow.Kind = model.Coinbase
				}
				if vo, ok := o.TypedOutput.(*types.VoteOutput); ok {
					ow.Kind = model.Vote
					ow.Vote = vo.Vote
				}
				switch e := tx.Entries[ow.ID].(type) {
				case *bc.OriginalOutput:
					ow.SourceID, ow.SourcePos = *e.Source.Ref, e.Source.Position
				case *bc.VoteOutput:
					ow.SourceID, ow.SourcePos = *e.Source.Ref, e.Source.Position
				}
				out[ow.ID] = ow
			}
		}
	}
	return out, best, nil
}

// SpendableAt says whether consensus lets o be spent by a block at height h:
// a coinbase output needs 10 blocks, a vote output the vote lock.
func (w *World) SpendableAt(o *Owned, h uint64) bool {
	switch o.Kind {
	case model.Coinbase:
		return h >= o.Height+model.CoinbaseMaturity
	case model.Vote:
		return h >= o.Height+w.P.VotePending
	}
	return true
}

// SortOwned orders outputs without looking at hashes.
func SortOwned(outs []*Owned) {
	sort.SliceStable(outs, func(i, j int) bool {
		a, b := outs[i], outs[j]
		if a.Height != b.Height {
			return a.Height < b.Height
		}
		if a.TxPos != b.TxPos {
			return a.TxPos < b.TxPos
		}
		return a.OutPos < b.OutPos
	})
}

// OwnedList returns the scanned outputs in a deterministic order.
func OwnedList(m map[bc.Hash]*Owned) []*Owned {
	var outs []*Owned
	for _, o := range m {
		outs = append(outs, o)
	}
	SortOwned(outs)
	return outs
}

// ---------------------------------------------------------------------------
// harness-side spending of wallet-owned outputs (independent of txbuilder)

// InputOf builds the unsigned input spending o.
func InputOf(o *Owned) *types.TxInput {
	if o.Kind == model.Vote {
		return types.NewVetoInput(nil, o.SourceID, o.Asset, o.Amount, o.SourcePos, o.Program, o.Vote, o.State)
	}
	return types.NewSpendInput(nil, o.SourceID, o.Asset, o.Amount, o.SourcePos, o.Program, o.State)
}

// SignOwned signs every input paying a wallet program (derived keys: P2WPKH
// witness = signature, public key; multisig witness = quorum signatures in key
// order, then the script) or a simulated external key.
func (wn *WalletNode) SignOwned(tx *types.Tx) {
	wn.W.SignTx(tx)
	for i, inp := range tx.Inputs {
		p := wn.Owner(inp.ControlProgram())
		if p == nil {
			continue
		}
		h := tx.SigHash(uint32(i))
		var xprvs []chainkd.XPrv
		var xpubs []chainkd.XPub
		for _, r := range p.Acct.Roots {
			x := r.Xprv.Derive(p.Path)
			xprvs = append(xprvs, x)
			xpubs = append(xpubs, x.XPub())
		}
		if len(xprvs) == 1 {
			tx.SetInputArguments(uint32(i), [][]byte{xprvs[0].Sign(h.Bytes()), xpubs[0].PublicKey()})
			continue
		}
		script, err := vmutil.P2SPMultiSigProgram(chainkd.XPubKeys(xpubs), p.Acct.Quorum)
		if err != nil {
			harness("multisig script: %v", err)
		}
		var args [][]byte
		for k := 0; k < p.Acct.Quorum; k++ {
			args = append(args, xprvs[k].Sign(h.Bytes()))
		}
		tx.SetInputArguments(uint32(i), append(args, script))
	}
}

// BuildOwned assembles, sizes and signs a transaction over scanned outputs.
func (wn *WalletNode) BuildOwned(ins []*Owned, outs []*types.TxOutput, timeRange uint64) *types.Tx {
	data := types.TxData{Version: 1, TimeRange: timeRange}
	for _, o := range ins {
		data.Inputs = append(data.Inputs, InputOf(o))
	}
	data.Outputs = outs
	tx := types.NewTx(data)
	wn.SignOwned(tx)
	raw, err := tx.TxData.MarshalText()
	if err != nil {
		harness("marshal tx: %v", err)
	}
	tx.TxData.SerializedSize = uint64(len(raw) / 2)
	tx = types.NewTx(tx.TxData)
	wn.SignOwned(tx)
	return tx
}

// OwnedFee is a fee that covers storage and VM gas of the given inputs.
func OwnedFee(ins []*Owned, nOut int) uint64 {
	fee := uint64(200000 + 150000*nOut)
	for _, o := range ins {
		if o.Prog != nil && len(o.Prog.Acct.Roots) > 1 {
			fee += 2500000
		} else {
			fee += 400000
		}
	}
	return fee
}

// SignFn is the txbuilder.SignFunc of the harness-held keys: derive the child
// private key by path from the root key and sign — what pseudohsm.XSign does once
// it has loaded the key from its keystore.
func (wn *WalletNode) SignFn(skip map[chainkd.XPub]bool) func(context.Context, chainkd.XPub, [][]byte, [32]byte, string) ([]byte, error) {
	return func(_ context.Context, xpub chainkd.XPub, path [][]byte, msg [32]byte, _ string) ([]byte, error) {
		k := wn.rootByXP[xpub]
		if k == nil || skip[xpub] {
			return nil, fmt.Errorf("key not held")
		}
		x := k.Xprv
		if len(path) > 0 {
			x = x.Derive(path)
		}
		return x.Sign(msg[:]), nil
	}
}

var _ = crypto.Ripemd160

// IsClosed reports whether the gate is closed.
func (g *gateDB) IsClosed() bool {
	g.mu.Lock()
	defer g.mu.Unlock()
	return g.closed
}
