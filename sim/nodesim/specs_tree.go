package nodesim

import (
	"testing"

	"pgregory.net/rapid"

	"verif/sim/simkit"
)

// genTree draws production + delivery plans.
func genTree(maxValidators, minN, maxN, maxBack, maxTx, reorder int, withTx bool) func(rt *rapid.T) any {
	return func(rt *rapid.T) any {
		cfg := GenCfg(rt, maxValidators)
		p := &TreePlan{Cfg: cfg, Warm: WarmupLen(cfg), Steps: GenSteps(rt, minN, maxN, maxBack, maxTx)}
		n := p.Warm + len(p.Steps)
		p.Acts = GenActs(rt, n+n/3, reorder, withTx)
		return p
	}
}

// execTree runs production then delivery with the given oracles armed.
func execTree(prodOr Oracles, obsOr ObsOracles, nontrivial func(w *World, o *Observer, r *simkit.Run) bool) func(t *testing.T, plan any, r *simkit.Run) {
	return func(t *testing.T, plan any, r *simkit.Run) {
		p := plan.(*TreePlan)
		Bubble(t, func() {
			w := NewWorld(t, r, p.Cfg)
			start := nowMs()
			prods := w.ProduceTree(p, prodOr)
			if r.Failed() {
				return
			}
			o := w.NewObserver(obsOr, prods)
			if o == nil {
				return
			}
			o.Run(p.Acts)
			r.SimTime(msDur(nowMs() - start))
			if !r.Failed() && nontrivial(w, o, r) {
				r.NonTrivial()
			}
		})
	}
}

const treeRule = "warm-up chain until epoch rewards mature, then a drawn block tree (forks up to several blocks back, skipped slots; pay/vote/veto/retire/issue/chained transactions) built by real proposers, " +
	"delivered to a fresh observed node in a drawn order with reordering, duplicates and interleaved transaction submissions; "

// SpecC10: ledger state depends only on the main chain.
func SpecC10() simkit.Spec {
	return simkit.Spec{
		Prop: "C10", Gen: genTree(2, 6, 22, 6, 4, 8, false), NewPlan: func() any { return &TreePlan{} },
		Exec: execTree(Oracles{}, ObsOracles{C10: true}, func(w *World, o *Observer, r *simkit.Run) bool { return o.reorgs > 0 }),
		Rule: treeRule + "oracle after every event: for every output ever created, node unspent <=> reference replay of the node's main chain, stored type and (coinbase/vote) creation height equal, contract table equal; non-trivial = at least one reorganisation happened on the observed node; distinct = hash of the full trace",
		Components: nodeComponents, FaultKinds: []string{"fault.reorder", "fault.duplicate"},
		Probes: []string{"probe.reorg", "probe.reorg_to_shorter", "probe.orphan"},
		Assumptions: []string{"contract registrations cannot pass the mempool in this tree (any BCRP output is classified as dust), so the contract table is only exercised when hand-built blocks carry them"},
	}
}

// SpecC11: fork choice and indexes.
func SpecC11() simkit.Spec {
	return simkit.Spec{
		Prop: "C11", Gen: genTree(3, 6, 22, 6, 2, 8, false), NewPlan: func() any { return &TreePlan{} },
		Exec: execTree(Oracles{}, ObsOracles{C11: true}, func(w *World, o *Observer, r *simkit.Run) bool { return o.reorgs > 0 }),
		Rule: treeRule + "oracle after every event: best block = independent fork-choice (highest justified checkpoint per the node's persisted checkpoint statuses, then height, then hash) over stored blocks descending from the finalized checkpoint; every height maps to best's ancestor; InMainChain(h) <=> ancestor of best for every known block; non-trivial = at least one reorganisation; distinct = hash of the full trace",
		Components: nodeComponents, FaultKinds: []string{"fault.reorder", "fault.duplicate"},
		Probes: []string{"probe.reorg", "probe.reorg_to_shorter", "probe.orphan"},
	}
}

// SpecC12: any delivery order connects everything.
func SpecC12() simkit.Spec {
	return simkit.Spec{
		Prop: "C12", Gen: genTree(2, 4, 14, 5, 1, 40, false), NewPlan: func() any { return &TreePlan{} },
		Exec: execTree(Oracles{}, ObsOracles{C12: true}, func(w *World, o *Observer, r *simkit.Run) bool {
			return r != nil
		}),
		Rule: treeRule + "delivery picks range over the whole remaining set (children before parents, sibling orphans); oracle after every delivery: a delivered block is stored iff all its ancestors were delivered, never a panic, valid blocks never rejected, and the best block / height index equal the fork-choice over the connected blocks (so the result does not depend on the arrival order); distinct = hash of the full trace",
		Components: nodeComponents, FaultKinds: []string{"fault.reorder", "fault.duplicate"},
		Probes: []string{"probe.orphan", "probe.sibling_orphans", "probe.three_orphans_one_parent", "probe.reorg"},
	}
}

// SpecC23: confirmed transactions leave the mempool.
func SpecC23() simkit.Spec {
	return simkit.Spec{
		Prop: "C23", Gen: genTree(2, 6, 18, 5, 5, 6, true), NewPlan: func() any { return &TreePlan{} },
		Exec: execTree(Oracles{}, ObsOracles{C23: true}, func(w *World, o *Observer, r *simkit.Run) bool { return true }),
		Rule: treeRule + "the transactions offered to proposers are also submitted to the observed node before, between and after the blocks confirming them; oracle after every event: no pooled transaction id is confirmed on the node's main chain (reference replay); distinct = hash of the full trace",
		Components: nodeComponents, FaultKinds: []string{"fault.reorder", "fault.duplicate"},
		Probes: []string{"probe.reorg", "probe.pool_nonempty_checks", "txs.submitted_to_observer"},
	}
}

// SpecC14: rewards exact, no extra money.
func SpecC14() simkit.Spec {
	return simkit.Spec{
		Prop: "C14", Gen: genTree(3, 6, 20, 4, 5, 3, false), NewPlan: func() any { return &TreePlan{} },
		Exec: execTree(Oracles{C14: true}, ObsOracles{C14: true}, func(w *World, o *Observer, r *simkit.Run) bool { return true }),
		Rule: treeRule + "oracle: every block the real proposer builds and the node accepts must satisfy the reference reward table (first block of an epoch pays per proposer program exactly fees + pledge-rate subsidy of the previous epoch, every other coinbase pays 0) and after every event BTM in outputs the node reports unspent <= genesis + rewards paid on its main chain; distinct = hash of the full trace",
		Components: nodeComponents, Probes: []string{"probe.reward_block", "txs.included"},
		Assumptions: []string{"the flat-subsidy branch (pledge rate above one half) is unreachable: it needs votes worth more than half the genesis supply, which no simulated party holds"},
	}
}

// SpecC15: validator set and schedule.
func SpecC15() simkit.Spec {
	return simkit.Spec{
		Prop: "C15", Gen: genTree(4, 6, 24, 4, 5, 2, false), NewPlan: func() any { return &TreePlan{} },
		Exec: execTree(Oracles{C15: true}, ObsOracles{C15: true}, func(w *World, o *Observer, r *simkit.Run) bool { return true }),
		Rule: treeRule + "oracle: for every produced block, and on the long-lived observed node after every delivery for children of its best block and of the last epoch-end blocks of any branch, the validator the node schedules for (parent, timestamp) equals the reference schedule (tally of votes minus vetoes along the branch at the parent checkpoint, >= minimum, top ten by votes then key, else federation; round-robin by slot); distinct = hash of the full trace",
		Components: nodeComponents, Probes: []string{"probe.reward_block", "probe.schedule_queries", "probe.schedule_queries_observer"},
	}
}
