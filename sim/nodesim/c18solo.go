package nodesim

import (
	"fmt"
	"sort"
	"testing"
	"testing/synctest"

	"pgregory.net/rapid"

	"github.com/bytom/bytom/event"
	"github.com/bytom/bytom/protocol/bc"
	"github.com/bytom/bytom/protocol/bc/types"
	"github.com/bytom/bytom/protocol/casper"

	"verif/sim/model"
	"verif/sim/simdisk"
	"verif/sim/simkit"
)

// C18 "solo" mode — the property's own quantifier: one real node that holds a
// validator key receives a bounded block tree with multi-epoch forks in a drawn
// order (single blocks out of order, whole branches at once), interleaved with
// adversarial verification messages of the other validators (honest-looking
// votes, whole quorums that justify / finalize and thereby prune branches, votes
// from arbitrary ancestor or foreign sources, votes for checkpoints not yet
// known, votes riding in block headers) and restarts from the durable state.
//
// The blocks are delivered WITHOUT the sup links their builders attached (these
// are outside the block hash), so that every vote the node sees from another
// validator is one the plan chose, and every validly signed vote carrying the
// node's own key was signed by the node itself.

// SoloPlan is one run.
type SoloPlan struct {
	Tree   TreePlan `json:"tree"`
	Victim int      `json:"victim"`
	Events []SoloEv `json:"events"`
}

// SoloEv is one event at the victim.
type SoloEv struct {
	Kind string `json:"k"` // blk | path | vote | quorum | blkvotes | restart | finalize
	Pick int    `json:"p,omitempty"`
	Who  int    `json:"w,omitempty"`
	Src  int    `json:"s,omitempty"`
}

func genSolo(rt *rapid.T) any {
	cfg := WorldCfg{
		E:           rapid.IntRange(2, 4).Draw(rt, "E"),
		Validators:  rapid.SampledFrom([]int{2, 3, 4, 4, 4}).Draw(rt, "validators"),
		ExtraKeys:   1,
		VotePending: 3,
		MinVotes:    100000000,
	}
	p := &SoloPlan{Tree: TreePlan{Cfg: cfg}}
	p.Victim = rapid.IntRange(0, cfg.Validators-1).Draw(rt, "victim")
	// segments: a trunk, then branches that fork anywhere on what exists (biased towards the first
	// epoch, so that whole multi-epoch branches compete) and run for up to three epochs
	nseg := rapid.IntRange(1, 4).Draw(rt, "segments")
	produced := 0 // blocks produced before this segment (production index of the newest = produced)
	for s := 0; s < nseg; s++ {
		back := 0
		if s > 0 {
			var idx int
			if rapid.Bool().Draw(rt, "lowfork") {
				idx = rapid.IntRange(0, min(cfg.E, produced)).Draw(rt, "forkidx")
			} else {
				idx = rapid.IntRange(0, produced).Draw(rt, "forkidx")
			}
			back = produced - idx
		}
		ln := rapid.IntRange(1, 3*cfg.E+1).Draw(rt, "len")
		for i := 0; i < ln; i++ {
			st := BlockStep{}
			if i == 0 {
				st.Back = back
			}
			if rapid.IntRange(0, 7).Draw(rt, "skipq") == 7 {
				st.Skip = 1
			}
			p.Tree.Steps = append(p.Tree.Steps, st)
		}
		produced += ln
	}
	n := len(p.Tree.Steps)
	ne := n + rapid.IntRange(2, n+6).Draw(rt, "extra")
	for i := 0; i < ne; i++ {
		var ev SoloEv
		switch k := rapid.IntRange(0, 17).Draw(rt, "evkind"); {
		case k >= 16:
			ev = SoloEv{Kind: "finalize", Pick: rapid.IntRange(0, 5).Draw(rt, "target"), Src: rapid.IntRange(0, 2).Draw(rt, "stopshort")}
		case k <= 4:
			ev = SoloEv{Kind: "blk"}
			if rapid.IntRange(0, 2).Draw(rt, "reorderq") == 2 {
				ev.Pick = rapid.IntRange(0, 6).Draw(rt, "pick")
			}
		case k <= 7:
			ev = SoloEv{Kind: "path", Pick: rapid.IntRange(0, 12).Draw(rt, "pick")}
		case k <= 10:
			ev = SoloEv{Kind: "quorum", Pick: rapid.IntRange(0, 5).Draw(rt, "target"), Src: rapid.SampledFrom([]int{0, 0, 0, 1, 2, 3}).Draw(rt, "src")}
		case k <= 12:
			ev = SoloEv{Kind: "vote", Pick: rapid.IntRange(0, 7).Draw(rt, "target"), Who: rapid.IntRange(0, 3).Draw(rt, "who"),
				Src: rapid.SampledFrom([]int{0, 0, 1, 2, 3, 9}).Draw(rt, "src")}
		case k <= 14:
			ev = SoloEv{Kind: "blkvotes", Pick: rapid.IntRange(0, 3).Draw(rt, "pick"), Who: rapid.IntRange(1, 15).Draw(rt, "mask"),
				Src: rapid.SampledFrom([]int{0, 0, 1, 2}).Draw(rt, "src")}
		default:
			ev = SoloEv{Kind: "restart"}
		}
		p.Events = append(p.Events, ev)
	}
	return p
}

type soloRun struct {
	w         *World
	r         *simkit.Run
	p         *SoloPlan
	n         *Node
	sub       *event.Subscription
	key       *Key
	remaining []bc.Hash
	delivered map[bc.Hash]bool
	cps       []*model.BlockState // every checkpoint block of the tree, production order
	own       map[vote]bool       // validly signed votes carrying the victim's key
	adm       map[vote]bool       // validly signed votes found in the victim's store
	sent      map[vote]bool       // votes the plan sent (for the trace only)
}

func (s *soloRun) start(disk *simdisk.Disk) bool {
	n, err := s.w.StartNode("victim", disk, s.key)
	if err != nil {
		s.r.Violate("restart-fails", "", "validator node does not start from its durable state: %v", err)
		return false
	}
	sub, err := n.Disp.Subscribe(casper.ValidCasperSignMsg{})
	if err != nil {
		harness("subscribe: %v", err)
	}
	s.n, s.sub = n, sub
	synctest.Wait()
	return true
}

func (s *soloRun) stripped(h bc.Hash) *types.Block {
	b := copyBlock(s.w.Blocks[h])
	b.SupLinks = nil
	return b
}

// others returns the validator keys other than the victim's.
func (s *soloRun) others() []*Key {
	var ks []*Key
	for i := 0; i < s.w.Cfg.Validators; i++ {
		if i != s.p.Victim {
			ks = append(ks, s.w.Keys[i])
		}
	}
	return ks
}

// source resolves the plan's source choice for target tg.
func (s *soloRun) source(tg *model.BlockState, src int) *model.BlockState {
	w := s.w
	switch {
	case src == 0:
		// what an honest validator following this node would use
		if x := w.JustifiedSource(s.n, tg); x != nil {
			return x
		}
		return w.Tree.Nodes[w.Genesis.Hash()]
	case src == 9:
		// a checkpoint that is not an ancestor of the target
		for _, c := range s.cps {
			if c.Height < tg.Height && !model.IsAncestor(c, tg) {
				return c
			}
		}
		return w.Tree.Nodes[w.Genesis.Hash()]
	default:
		// the src-th checkpoint above the target (clipped at genesis)
		x := tg.Parent
		for k := 0; x != nil; x = x.Parent {
			if x.Height%w.P.E == 0 {
				k++
				if k == src || x.Parent == nil {
					return x
				}
			}
		}
		return w.Tree.Nodes[w.Genesis.Hash()]
	}
}

func (s *soloRun) deliverBlock(b *types.Block, desc string) {
	h := b.Hash()
	orphan, err := s.n.Process(b)
	s.delivered[h] = true
	s.r.Count("events.block", 1)
	s.r.Tracef("%s -> orphan=%v err=%v best=%s", desc, orphan, err != nil, s.w.name(s.n.Best()))
}

func (s *soloRun) sendVote(k *Key, src, tg *model.BlockState) {
	m := SignVote(k, src.Hash, tg.Hash)
	s.n.Activate()
	err := s.n.Chain.ProcessBlockVerification(m)
	synctest.Wait()
	s.sent[vote{k.PubHex, src.Hash, tg.Hash}] = true
	s.r.Count("events.vote", 1)
	if err != nil {
		s.r.Count("probe.vote_refused", 1)
	}
	s.r.Tracef("vote by=%d %s(h%d)->%s(h%d) refused=%v", k.Idx, s.w.name(src.Hash), src.Height, s.w.name(tg.Hash), tg.Height, err != nil)
}

// drain collects the votes the node posted to its event bus.
func (s *soloRun) drain() {
	for {
		select {
		case ev := <-s.sub.Chan():
			if ev == nil {
				return
			}
			m, ok := ev.Data.(casper.ValidCasperSignMsg)
			if !ok {
				continue
			}
			if m.PubKey == s.key.PubHex && verifyVoteSig(m.PubKey, m.SourceHash, m.TargetHash, m.Signature) {
				v := vote{m.PubKey, m.SourceHash, m.TargetHash}
				if !s.own[v] {
					s.own[v] = true
					s.r.Count("probe.own_votes", 1)
					if a, b := s.w.Tree.Nodes[m.SourceHash], s.w.Tree.Nodes[m.TargetHash]; a != nil && b != nil {
						s.r.Tracef("  victim signs %s(h%d)->%s(h%d)", s.w.name(m.SourceHash), a.Height, s.w.name(m.TargetHash), b.Height)
					}
				}
			}
		default:
			return
		}
	}
}

// scanStore adds every validly signed vote the node's store reports.
func (s *soloRun) scanStore() {
	w := s.w
	for _, c := range s.cps {
		h := c.Hash
		cp, err := s.n.Store.GetCheckpoint(&h)
		if err != nil {
			continue
		}
		vs := w.Tree.EffectiveValidators(w.Tree.CheckpointOf(c.Parent).Votes)
		for _, sl := range cp.SupLinks {
			for _, v := range vs {
				if v.Order < len(sl.Signatures) && len(sl.Signatures[v.Order]) > 0 && verifyVoteSig(v.PubKey, sl.SourceHash, h, sl.Signatures[v.Order]) {
					x := vote{v.PubKey, sl.SourceHash, h}
					s.adm[x] = true
					if v.PubKey == s.key.PubHex {
						s.own[x] = true
					}
				}
			}
		}
	}
}

// slashablePair is the oracle: first pair of votes of one validator that breaks a commandment.
func (s *soloRun) slashablePair(votes map[vote]bool) (a, b *vote, kind string) {
	w := s.w
	byPub := map[string][]vote{}
	for v := range votes {
		if w.Tree.Nodes[v.Source] == nil || w.Tree.Nodes[v.Target] == nil {
			continue
		}
		byPub[v.Pub] = append(byPub[v.Pub], v)
	}
	var pubs []string
	for p := range byPub {
		pubs = append(pubs, p)
	}
	sort.Strings(pubs)
	for _, p := range pubs {
		vs := byPub[p]
		sort.Slice(vs, func(i, j int) bool {
			ti, tj := w.Tree.Nodes[vs[i].Target], w.Tree.Nodes[vs[j].Target]
			if ti.Height != tj.Height {
				return ti.Height < tj.Height
			}
			if hs(vs[i].Target) != hs(vs[j].Target) {
				return hs(vs[i].Target) < hs(vs[j].Target)
			}
			return hs(vs[i].Source) < hs(vs[j].Source)
		})
		for i := range vs {
			for j := i + 1; j < len(vs); j++ {
				x, y := vs[i], vs[j]
				xs, xt := w.Tree.Nodes[x.Source].Height, w.Tree.Nodes[x.Target].Height
				ys, yt := w.Tree.Nodes[y.Source].Height, w.Tree.Nodes[y.Target].Height
				if xt == yt && x.Target != y.Target {
					return &x, &y, "same-target-height"
				}
				if (xs < ys && yt < xt) || (ys < xs && xt < yt) {
					return &x, &y, "surround"
				}
			}
		}
	}
	return nil, nil, ""
}

func (s *soloRun) descr(v *vote) string {
	w := s.w
	return fmt.Sprintf("%s->%s (heights %d->%d)", w.name(v.Source), w.name(v.Target), w.Tree.Nodes[v.Source].Height, w.Tree.Nodes[v.Target].Height)
}

func (s *soloRun) check(ctx string) {
	r, w := s.r, s.w
	if r.Failed() {
		return
	}
	s.drain()
	s.scanStore()
	if a, b, kind := s.slashablePair(s.own); a != nil {
		pruned := "in-tree"
		_, fin := s.n.Chain.Casper().LastFinalized()
		if f := w.Tree.Nodes[fin]; f != nil {
			if !model.IsAncestor(f, w.Tree.Nodes[a.Target]) || !model.IsAncestor(f, w.Tree.Nodes[b.Target]) {
				pruned = "pruned-branch"
			}
		}
		r.Violate("validator-signed-slashable-votes", kind+"/"+pruned, "after %s: the node signed with its own key (validator %d) both %s and %s: %s",
			ctx, s.key.Idx, s.descr(a), s.descr(b), kind)
		return
	}
	if a, b, kind := s.slashablePair(s.adm); a != nil {
		who := "a validator"
		if k := w.keyByPub[a.Pub]; k != nil {
			who = fmt.Sprintf("validator %d", k.Idx)
		}
		pruned := "in-tree"
		_, fin := s.n.Chain.Casper().LastFinalized()
		if f := w.Tree.Nodes[fin]; f != nil {
			if !model.IsAncestor(f, w.Tree.Nodes[a.Target]) || !model.IsAncestor(f, w.Tree.Nodes[b.Target]) {
				pruned = "pruned-branch"
			}
		}
		r.Violate("node-admitted-slashable-votes", kind+"/"+pruned, "after %s: the node's store holds two votes by %s: %s and %s: %s",
			ctx, who, s.descr(a), s.descr(b), kind)
		return
	}
	if fh, fin := s.n.Chain.Casper().LastFinalized(); fh > 0 {
		f := w.Tree.Nodes[fin]
		for h := range s.delivered {
			if c := w.Tree.Nodes[h]; f != nil && c != nil && c.Height%w.P.E == 0 && c.Height > f.Height && !model.IsAncestor(f, c) {
				r.Count("probe.checkpoint_on_pruned_branch", 1)
				break
			}
		}
	}
}

func execSolo(t *testing.T, plan any, r *simkit.Run) {
	p := plan.(*SoloPlan)
	Bubble(t, func() {
		w := NewWorld(t, r, p.Tree.Cfg)
		start := nowMs()
		prods := w.ProduceTree(&p.Tree, Oracles{})
		if r.Failed() || len(prods) == 0 {
			return
		}
		s := &soloRun{w: w, r: r, p: p, key: w.Keys[p.Victim%w.Cfg.Validators], delivered: map[bc.Hash]bool{},
			own: map[vote]bool{}, adm: map[vote]bool{}, sent: map[vote]bool{}}
		for _, pr := range prods {
			s.remaining = append(s.remaining, pr.Hash)
			if pr.State.Height%w.P.E == 0 {
				s.cps = append(s.cps, pr.State)
			}
		}
		if len(s.cps) == 0 {
			return
		}
		if !s.start(simdisk.New()) {
			return
		}
		target := func(pick int) *model.BlockState { return s.cps[len(s.cps)-1-pick%len(s.cps)] }
		for i, ev := range p.Events {
			if r.Failed() {
				return
			}
			ctx := fmt.Sprintf("event %d (%s)", i, ev.Kind)
			switch ev.Kind {
			case "blk", "blkvotes":
				if len(s.remaining) == 0 {
					continue
				}
				j := ev.Pick % len(s.remaining)
				h := s.remaining[j]
				s.remaining = append(s.remaining[:j:j], s.remaining[j+1:]...)
				b := s.stripped(h)
				desc := "deliver " + w.name(h)
				if st := w.Tree.Nodes[h]; ev.Kind == "blkvotes" && st.Height%w.P.E == 0 {
					src := s.source(st, ev.Src)
					vs := w.Tree.EffectiveValidators(w.Tree.CheckpointOf(st.Parent).Votes)
					for oi, k := range s.others() {
						if ev.Who&(1<<uint(oi)) == 0 {
							continue
						}
						for _, v := range vs {
							if v.PubKey == k.PubHex {
								m := SignVote(k, src.Hash, h)
								b.SupLinks.AddSupLink(src.Height, src.Hash, m.Signature, v.Order)
								s.sent[vote{k.PubHex, src.Hash, h}] = true
								desc += fmt.Sprintf(" +vote by=%d from %s", k.Idx, w.name(src.Hash))
							}
						}
					}
					r.Count("events.block_carried_votes", 1)
				}
				if j > 0 {
					r.Count("fault.reorder", 1)
				}
				s.deliverBlock(b, desc)
			case "path":
				if len(s.remaining) == 0 {
					continue
				}
				tip := w.Tree.Nodes[s.remaining[ev.Pick%len(s.remaining)]]
				var path []bc.Hash
				for x := tip; x != nil && x.Parent != nil; x = x.Parent {
					if !s.delivered[x.Hash] {
						path = append([]bc.Hash{x.Hash}, path...)
					}
				}
				for _, h := range path {
					for j, x := range s.remaining {
						if x == h {
							s.remaining = append(s.remaining[:j:j], s.remaining[j+1:]...)
							break
						}
					}
					s.deliverBlock(s.stripped(h), "deliver "+w.name(h)+" (branch)")
					s.check(ctx)
					if r.Failed() {
						return
					}
				}
				r.Count("events.branch_wholesale", 1)
			case "vote":
				oth := s.others()
				if len(oth) == 0 {
					continue
				}
				tg := target(ev.Pick)
				s.sendVote(oth[ev.Who%len(oth)], s.source(tg, ev.Src), tg)
				if ev.Src != 0 {
					r.Count("fault.adversarial_source_vote", 1)
				}
				if !s.delivered[tg.Hash] {
					r.Count("fault.vote_before_target", 1)
				}
			case "quorum":
				tg := target(ev.Pick)
				src := s.source(tg, ev.Src)
				for _, k := range s.others() {
					s.sendVote(k, src, tg)
				}
				r.Count("events.quorum", 1)
			case "finalize":
				// the other validators build finality along one branch: for every checkpoint on the way to the
				// target (Src levels short of it) the blocks are delivered and a whole quorum votes from the
				// node's current justified ancestor
				tg := target(ev.Pick)
				var chain []*model.BlockState
				for x := tg; x != nil && x.Parent != nil; x = x.Parent {
					if x.Height%w.P.E == 0 {
						chain = append([]*model.BlockState{x}, chain...)
					}
				}
				if ev.Src < len(chain) {
					chain = chain[:len(chain)-ev.Src]
				}
				for _, c := range chain {
					var path []bc.Hash
					for x := c; x != nil && x.Parent != nil; x = x.Parent {
						if !s.delivered[x.Hash] {
							path = append([]bc.Hash{x.Hash}, path...)
						}
					}
					for _, h := range path {
						for j, x := range s.remaining {
							if x == h {
								s.remaining = append(s.remaining[:j:j], s.remaining[j+1:]...)
								break
							}
						}
						s.deliverBlock(s.stripped(h), "deliver "+w.name(h)+" (finalize)")
						s.check(ctx)
					}
					src := s.source(c, 0)
					for _, k := range s.others() {
						s.sendVote(k, src, c)
					}
					s.check(ctx)
					if r.Failed() {
						return
					}
				}
				r.Count("events.finalize_branch", 1)
			case "restart":
				if !s.start(s.n.Disk.Clone()) {
					return
				}
				r.Count("fault.restart", 1)
				r.Tracef("restart")
			}
			s.check(ctx)
		}
		for len(s.remaining) > 0 && !r.Failed() {
			h := s.remaining[0]
			s.remaining = s.remaining[1:]
			s.deliverBlock(s.stripped(h), "deliver "+w.name(h)+" (drain)")
			s.check("drain")
		}
		r.SimTime(msDur(nowMs() - start))
		if fh, _ := s.n.Chain.Casper().LastFinalized(); fh > 0 {
			r.Count("probe.finalized_on_victim", 1)
		}
		if len(s.own) >= 2 {
			r.NonTrivial()
		}
	})
}

// SpecC18Solo is the single-validator-node mode of C18.
func SpecC18Solo() simkit.Spec {
	return simkit.Spec{
		Prop: "C18", Gen: genSolo, NewPlan: func() any { return &SoloPlan{} }, Exec: execSolo,
		Rule: "one real node holding the key of one of 2-4 federation validators (epochs of 2-4 blocks) receives a block tree with branches forking up to two epochs back and running up to three epochs, " +
			"built by real proposers and delivered without the builders' header sup links, in a drawn order (out-of-order single blocks, whole branches at once), interleaved with verification messages signed by the other validators: " +
			"honest-looking votes, whole quorums (which justify/finalize and prune branches), votes from arbitrary ancestor or foreign sources, votes for targets not yet known, votes riding in block headers, and restarts from durable state. " +
			"Oracle after every event: the validly signed votes carrying the node's own key (event bus + store) and, per validator, the validly signed votes the node's store holds contain no two links with equal target height and different targets and no link strictly surrounding another. " +
			"Non-trivial = the node signed at least two votes; distinct = hash of the event trace",
		Components:  nodeComponents,
		FaultKinds:  []string{"fault.reorder", "fault.restart", "fault.adversarial_source_vote", "fault.vote_before_target"},
		Probes:      []string{"probe.own_votes", "probe.finalized_on_victim", "probe.vote_refused", "probe.checkpoint_on_pruned_branch", "events.quorum", "events.finalize_branch", "events.branch_wholesale", "events.block_carried_votes"},
		Assumptions: []string{"validator set = federation (no vote transactions in this mode)", "block builders are transient real nodes; their own header sup links are removed before delivery"},
	}
}
