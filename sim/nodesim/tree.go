package nodesim

import (
	"fmt"

	"pgregory.net/rapid"

	"github.com/bytom/bytom/consensus"
	"github.com/bytom/bytom/protocol/bc"
	"github.com/bytom/bytom/protocol/bc/types"

	"verif/sim/model"
)

// TxOp is one abstract transaction request; indices are interpreted modulo the
// live state so that every tape is executable.
type TxOp struct {
	Kind string `json:"k"` // pay | vote | veto | retire | issue | chain
	A    int    `json:"a,omitempty"`
	B    int    `json:"b,omitempty"`
	C    int    `json:"c,omitempty"`
}

// BlockStep produces one block.
type BlockStep struct {
	// Back: 0 = extend the block produced last; k>0 = fork k blocks behind it
	// (k-th most recently produced block as parent).
	Back int    `json:"back,omitempty"`
	Skip int    `json:"skip,omitempty"` // empty slots before this block
	Jit  int    `json:"jit,omitempty"`  // milliseconds past the slot start (0 = on the slot grid)
	Reg  int    `json:"reg,omitempty"`  // k>0: the proposer adds a contract registration (code variant k) by hand
	Txs  []TxOp `json:"txs,omitempty"`
}

// TreePlan is the shared plan of the block-tree scenarios.
type TreePlan struct {
	Cfg       WorldCfg    `json:"cfg"`
	Warm      int         `json:"warm"` // warm-up blocks (linear, no transactions)
	Steps     []BlockStep `json:"steps"`
	Order     []int       `json:"order,omitempty"` // delivery picks (index into remaining blocks)
	Redeliver []int       `json:"redeliver,omitempty"`
	Mode      int         `json:"mode,omitempty"`
	Acts      []Act       `json:"acts,omitempty"` // delivery-phase actions on the observed node
}

// GenCfg draws a world configuration.
func GenCfg(rt *rapid.T, maxValidators int) WorldCfg {
	return WorldCfg{
		E:           rapid.IntRange(3, 6).Draw(rt, "E"),
		Validators:  rapid.IntRange(1, maxValidators).Draw(rt, "validators"),
		ExtraKeys:   rapid.IntRange(1, 3).Draw(rt, "extra"),
		VotePending: rapid.IntRange(2, 6).Draw(rt, "votepending"),
		MinVotes:    uint64(rapid.SampledFrom([]int{100000000, 150000000, 300000000}).Draw(rt, "minvotes")),
	}
}

// GenTxOps draws up to max abstract transaction requests.
func GenTxOps(rt *rapid.T, max int) []TxOp {
	n := rapid.IntRange(0, max).Draw(rt, "ntx")
	var ops []TxOp
	for i := 0; i < n; i++ {
		kind := rapid.SampledFrom([]string{"pay", "pay", "vote", "veto", "retire", "issue", "chain", "pay2", "conflict", "expiring"}).Draw(rt, "txkind")
		ops = append(ops, TxOp{Kind: kind,
			A: rapid.IntRange(0, 7).Draw(rt, "a"), B: rapid.IntRange(0, 7).Draw(rt, "b"), C: rapid.IntRange(0, 5).Draw(rt, "c")})
	}
	return ops
}

// GenSteps draws n block steps; forkRate in percent.
func GenSteps(rt *rapid.T, minN, maxN, maxBack, maxTx int) []BlockStep {
	n := rapid.IntRange(minN, maxN).Draw(rt, "nblocks")
	steps := make([]BlockStep, n)
	for i := range steps {
		back := 0
		if maxBack > 0 {
			switch rapid.IntRange(0, 7).Draw(rt, "fork") {
			case 5:
				back = -1 // a sibling: same parent as the previous step
			case 6, 7:
				back = rapid.IntRange(1, maxBack).Draw(rt, "back")
			}
		}
		skip := 0
		if rapid.IntRange(0, 5).Draw(rt, "skipq") == 5 {
			skip = rapid.IntRange(1, 3).Draw(rt, "skip")
		}
		jit := 0
		if rapid.IntRange(0, 4).Draw(rt, "jitq") == 4 {
			jit = rapid.SampledFrom([]int{1, 2999, 3000, 5999}).Draw(rt, "jit")
		}
		reg := 0
		if maxTx > 0 && rapid.IntRange(0, 5).Draw(rt, "regq") == 5 {
			reg = rapid.IntRange(1, 3).Draw(rt, "reg")
		}
		steps[i] = BlockStep{Back: back, Skip: skip, Jit: jit, Reg: reg, Txs: GenTxOps(rt, maxTx)}
	}
	return steps
}

// WarmupLen is the number of empty blocks after which epoch rewards have matured.
func WarmupLen(cfg WorldCfg) int { return cfg.E + 1 + model.CoinbaseMaturity }

// txBuilderState tracks what a block under construction already uses.
type txBuilderState struct {
	used    map[bc.Hash]bool
	fresh   []*model.Out // outputs created by earlier transactions of this block
	issueNo int
	// outputs already spent by an earlier transaction offered for this block
	conflictable []*model.Out
}

// MakeTxs turns abstract requests into concrete signed transactions valid on
// top of state parent (for a block at height parent.Height+1).
func (w *World) MakeTxs(parent *model.BlockState, ops []TxOp, salt int) []*types.Tx {
	h := parent.Height + 1
	st := &txBuilderState{used: map[bc.Hash]bool{}}
	var txs []*types.Tx
	btm := *consensus.BTMAssetID
	pick := func(idx int, minAmount uint64, kinds ...model.OutKind) *model.Out {
		var cands []*model.Out
		for _, o := range w.Spendable(parent, h, kinds...) {
			if !st.used[o.ID] && o.Asset == btm && o.Amount >= minAmount {
				cands = append(cands, o)
			}
		}
		if len(cands) == 0 {
			return nil
		}
		o := cands[idx%len(cands)]
		st.used[o.ID] = true
		if o.Kind != model.Vote {
			st.conflictable = append(st.conflictable, o)
		}
		return o
	}
	for i, op := range ops {
		var tx *types.Tx
		switch op.Kind {
		case "pay", "pay2":
			nIn := 1
			if op.Kind == "pay2" {
				nIn = 2
			}
			var ins []*model.Out
			var total uint64
			for j := 0; j < nIn; j++ {
				if o := pick(op.A+j, 1, model.Normal, model.Coinbase); o != nil {
					ins = append(ins, o)
					total += o.Amount
				}
			}
			fee := FeeFor(len(ins), 2)
			if len(ins) == 0 || total <= fee+2 {
				continue
			}
			to := w.Keys[op.B%len(w.Keys)]
			rest := total - fee
			amt := rest / uint64(2+op.C)
			if amt == 0 {
				amt = 1
			}
			outs := []*types.TxOutput{types.NewOriginalTxOutput(btm, amt, to.Program, nil)}
			if rest-amt > 0 {
				self := w.Keys[(op.B+1)%len(w.Keys)]
				outs = append(outs, types.NewOriginalTxOutput(btm, rest-amt, self.Program, nil))
			}
			tx = w.BuildTx(ins, outs, 0)
		case "vote":
			o := pick(op.A, model.MinVoteOutput+FeeFor(1, 2)+1, model.Normal, model.Coinbase)
			if o == nil {
				continue
			}
			fee := FeeFor(1, 2)
			rest := o.Amount - fee
			amt := uint64(model.MinVoteOutput) * uint64(1+op.C%3)
			if amt > rest {
				amt = rest
			}
			cand := w.Keys[op.B%len(w.Keys)]
			outs := []*types.TxOutput{types.NewVoteOutput(btm, amt, w.Keys[(op.B+op.C)%len(w.Keys)].Program, cand.Xpub[:], nil)}
			if rest-amt > 0 {
				outs = append(outs, types.NewOriginalTxOutput(btm, rest-amt, w.Keys[op.C%len(w.Keys)].Program, nil))
			}
			tx = w.BuildTx([]*model.Out{o}, outs, 0)
		case "veto":
			o := pick(op.A, 1, model.Vote)
			if o == nil {
				continue
			}
			fee := FeeFor(1, 1)
			if o.Amount <= fee {
				continue
			}
			tx = w.BuildTx([]*model.Out{o}, []*types.TxOutput{types.NewOriginalTxOutput(btm, o.Amount-fee, w.Keys[op.B%len(w.Keys)].Program, nil)}, 0)
		case "retire":
			o := pick(op.A, FeeFor(1, 2)+2, model.Normal, model.Coinbase)
			if o == nil {
				continue
			}
			rest := o.Amount - FeeFor(1, 2)
			burn := rest / uint64(2+op.C)
			if burn == 0 {
				burn = 1
			}
			outs := []*types.TxOutput{types.NewOriginalTxOutput(btm, burn, []byte{0x6a}, nil)}
			if rest-burn > 0 {
				outs = append(outs, types.NewOriginalTxOutput(btm, rest-burn, w.Keys[op.B%len(w.Keys)].Program, nil))
			}
			tx = w.BuildTx([]*model.Out{o}, outs, 0)
		case "issue":
			o := pick(op.A, FeeFor(2, 2)+2, model.Normal, model.Coinbase)
			if o == nil {
				continue
			}
			st.issueNo++
			nonce := []byte(fmt.Sprintf("n-%d-%d-%d-%d", h, salt, i, st.issueNo))
			amount := uint64(1 + op.C*1000)
			issue := types.NewIssuanceInput(nonce, amount, []byte{0x51}, nil, []byte(fmt.Sprintf("asset-%d", op.B)))
			asset := issue.AssetID()
			data := types.TxData{Version: 1}
			data.Inputs = []*types.TxInput{InputFor(o), issue}
			data.Outputs = []*types.TxOutput{
				types.NewOriginalTxOutput(asset, amount, w.Keys[op.B%len(w.Keys)].Program, nil),
				types.NewOriginalTxOutput(btm, o.Amount-FeeFor(2, 2), w.Keys[(op.B+1)%len(w.Keys)].Program, nil),
			}
			tx = types.NewTx(data)
			w.SignTx(tx)
			raw, _ := tx.TxData.MarshalText()
			tx.TxData.SerializedSize = uint64(len(raw) / 2)
			tx = types.NewTx(tx.TxData)
			w.SignTx(tx)
		case "conflict":
			// a second (third, …) spend of an output that an earlier transaction offered
			// for this same block already spends: the mempool holds both, the proposer must choose
			if len(st.conflictable) == 0 {
				continue
			}
			o := st.conflictable[op.A%len(st.conflictable)]
			if o.Amount <= FeeFor(1, 1)+uint64(op.C)+2 {
				continue
			}
			tx = w.BuildTx([]*model.Out{o}, []*types.TxOutput{types.NewOriginalTxOutput(btm, o.Amount-FeeFor(1, 1)-uint64(op.C)-1, w.Keys[op.B%len(w.Keys)].Program, nil)}, 0)
		case "expiring":
			// a transaction that expires: time range = tip height (legal for the mempool,
			// already too late for the next block) or = the next block's height (still valid)
			o := pick(op.A, FeeFor(1, 1)+2, model.Normal, model.Coinbase)
			if o == nil {
				continue
			}
			tr := parent.Height + uint64(op.C%2)
			if tr == 0 {
				tr = 1
			}
			tx = w.BuildTx([]*model.Out{o}, []*types.TxOutput{types.NewOriginalTxOutput(btm, o.Amount-FeeFor(1, 1), w.Keys[op.B%len(w.Keys)].Program, nil)}, tr)
		case "chain":
			// spend an output created by an earlier transaction of this same block
			var o *model.Out
			for _, f := range st.fresh {
				if !st.used[f.ID] && f.Kind == model.Normal && f.Asset == btm && f.Amount > FeeFor(1, 1)+1 {
					o = f
					break
				}
			}
			if o == nil {
				continue
			}
			st.used[o.ID] = true
			tx = w.BuildTx([]*model.Out{o}, []*types.TxOutput{types.NewOriginalTxOutput(btm, o.Amount-FeeFor(1, 1), w.Keys[op.B%len(w.Keys)].Program, nil)}, 0)
		}
		if tx == nil {
			continue
		}
		// remember the outputs this transaction creates (for "chain")
		for j, out := range tx.Outputs {
			if out.Amount == 0 || (len(out.ControlProgram) > 0 && out.ControlProgram[0] == 0x6a) {
				continue
			}
			f := &model.Out{ID: *tx.ResultIds[j], Kind: model.Normal, Height: h, Asset: *out.AssetId, Amount: out.Amount,
				Program: out.ControlProgram, State: out.StateData, TxID: tx.ID, Pos: j}
			if out.OutputType() == types.VoteOutputType {
				f.Kind = model.Vote
			}
			switch e := tx.Entries[*tx.ResultIds[j]].(type) {
			case *bc.OriginalOutput:
				f.SourceID, f.SourcePos = *e.Source.Ref, e.Source.Position
			case *bc.VoteOutput:
				f.SourceID, f.SourcePos = *e.Source.Ref, e.Source.Position
			}
			st.fresh = append(st.fresh, f)
		}
		txs = append(txs, tx)
	}
	return txs
}

// ParentFor resolves a step's parent among the blocks produced so far.
func (w *World) ParentFor(back int) bc.Hash {
	n := len(w.Order)
	if back < 0 {
		// sibling of the most recently produced block
		if n < 2 {
			return w.Order[0]
		}
		return w.Blocks[w.Order[n-1]].PreviousBlockHash
	}
	idx := n - 1 - back%n
	return w.Order[idx]
}
