package nodesim

import (
	"fmt"
	"os"
	"strings"
	"testing"
	"time"

	"pgregory.net/rapid"

	"github.com/bytom/bytom/protocol/casper"

	"verif/sim/simdisk"
	"verif/sim/simkit"
	"verif/sim/simrt"
)

// C37 deterministic mode (instrumented "simrt" build): the node's goroutines and
// the feeder clients are tasks of the cooperative scheduler; every interleaving
// decision (who runs at each lock operation, task start and channel operation)
// comes from the plan's schedule tape, so a run replays exactly. Oracle: every
// client call returns — a lock cycle is reported with the wait-for description —
// and the observed node's chain/index stay coherent; C23's invariant (no pooled
// transaction confirmed on the main chain) is evaluated at the end as well.

// C37dPlan: tree + schedule tape.
type C37dPlan struct {
	Tree     TreePlan `json:"tree"`
	Tape     []int    `json:"tape"`
	Prefix   int      `json:"prefix"`
	Votes    bool     `json:"votes"`
	Txs      bool     `json:"txs"`
	Readers  int      `json:"readers"`
	TwoBlock bool     `json:"two_block_feeders"`
	TxRounds int      `json:"tx_rounds,omitempty"` // the submitter offers every transaction this many times (0 = once)
}

func genC37d(rt *rapid.T) any {
	cfg := GenCfg(rt, 3)
	p := &C37dPlan{Tree: TreePlan{Cfg: cfg, Warm: WarmupLen(cfg), Steps: GenSteps(rt, 5, 14, 4, 3)}}
	n := rapid.IntRange(16, 200).Draw(rt, "ntape")
	for i := 0; i < n; i++ {
		p.Tape = append(p.Tape, rapid.IntRange(0, 7).Draw(rt, "pick"))
	}
	p.Prefix = rapid.IntRange(0, 5).Draw(rt, "prefix")
	p.Votes = rapid.Bool().Draw(rt, "votes")
	p.Txs = rapid.Bool().Draw(rt, "txs")
	p.Readers = rapid.IntRange(0, 1).Draw(rt, "readers")
	p.TwoBlock = rapid.Bool().Draw(rt, "twoblock")
	return p
}

func execC37d(t *testing.T, plan any, r *simkit.Run) { runSched(t, plan.(*C37dPlan), r, false) }

// runSched executes a scheduled concurrent run. forC23: the run serves C23 (confirmed transactions
// leave the pool): a stuck schedule is then not this property's matter and is only counted.
func runSched(t *testing.T, p *C37dPlan, r *simkit.Run, forC23 bool) {
	Bubble(t, func() {
		w := NewWorld(t, r, p.Tree.Cfg)
		prods := w.ProduceTree(&p.Tree, Oracles{})
		if r.Failed() || len(prods) == 0 {
			return
		}
		// the scheduler is active from before the victim exists, so that the victim's own
		// goroutines (block processor, cached-vote loop, tickers) are tasks
		ti := 0
		sched := simrt.New(func(n int) int {
			v := p.Tape[ti%len(p.Tape)]
			ti++
			return v % n
		})
		defer sched.Stop()
		sched.Progress = func() {
			r.Count("simrt.loop", 1)
			if getenv("VERIF_DEBUG", "") != "" {
				fmt.Fprintf(os.Stderr, "DEBUG simrt loop steps=%d now=%d\n", sched.Steps, nowMs())
			}
		}
		var victim *Node
		var startErr error
		sched.Client("start", func() {
			victim, startErr = w.StartNode("victim", simdisk.New(), w.Keys[0])
		})
		sched.Run(10*time.Second, 200000)
		if startErr != nil || victim == nil {
			r.Violate("init", "", "victim does not start under the scheduler: %v %s", startErr, sched.Deadlock)
			return
		}
		seq := p.Tree.Warm + p.Prefix
		if seq > len(prods) {
			seq = len(prods)
		}
		sched.Client("prefix", func() {
			victim.Activate()
			for _, pr := range prods[:seq] {
				victim.Chain.ProcessBlock(copyBlock(w.Blocks[pr.Hash]))
			}
		})
		sched.Run(30*time.Second, 2000000)
		if sched.Deadlock != "" && forC23 {
			r.Count("contained.stuck_schedule", 1)
			return
		}
		if sched.Deadlock != "" {
			r.Violate("stuck-in-sequential-prefix", "", "%s", sched.Deadlock)
			return
		}
		rest := prods[seq:]
		var votes []*casper.ValidCasperSignMsg
		if p.Votes {
			for _, h := range w.Order[1:] {
				s := w.Tree.Nodes[h]
				if s.Height%w.P.E != 0 {
					continue
				}
				src := s.Parent
				for src != nil && src.Height%w.P.E != 0 {
					src = src.Parent
				}
				if src == nil {
					continue
				}
				for _, v := range w.Tree.EffectiveValidators(w.Tree.CheckpointOf(s.Parent).Votes) {
					if k := w.keyByPub[v.PubKey]; k != nil {
						votes = append(votes, SignVote(k, src.Hash, s.Hash))
					}
				}
			}
		}
		// vote order is a plan choice (a side branch's checkpoint may be voted for first)
		if len(votes) > 1 && p.Tape[0]%2 == 1 {
			// reverse production order: the most recently produced (fork) checkpoints first
			for i, j := 0, len(votes)-1; i < j; i, j = i+1, j-1 {
				votes[i], votes[j] = votes[j], votes[i]
			}
		} else if len(votes) > 1 {
			for i := len(votes) - 1; i > 0; i-- {
				j := p.Tape[(i*7+3)%len(p.Tape)] * 31 % (i + 1)
				votes[i], votes[j] = votes[j], votes[i]
			}
		}
		calls := 0
		nfeed := 1
		if p.TwoBlock {
			nfeed = 2
		}
		for f := 0; f < nfeed; f++ {
			f := f
			sched.Client(fmt.Sprintf("blocks%d", f), func() {
				for i, pr := range rest {
					if i%nfeed != f {
						continue
					}
					victim.Chain.ProcessBlock(copyBlock(w.Blocks[pr.Hash]))
					calls++
				}
			})
		}
		if len(votes) > 0 {
			sched.Client("votes", func() {
				for _, v := range votes {
					vv := *v
					victim.Chain.ProcessBlockVerification(&vv)
					calls++
				}
			})
		}
		if p.Txs {
			sched.Client("txs", func() {
				for round := 0; round <= p.TxRounds; round++ {
					for _, pr := range rest {
						for _, tx := range w.Blocks[pr.Hash].Transactions[1:] {
							victim.Chain.ValidateTx(tx)
							calls++
						}
					}
				}
			})
		}
		for f := 0; f < p.Readers; f++ {
			sched.Client("reader", func() {
				for i := 0; i < 2*len(rest)+2; i++ {
					c := victim.Chain
					hdr := c.BestBlockHeader()
					c.GetHeaderByHeight(hdr.Height)
					c.InMainChain(hdr.Hash())
					c.LastFinalizedHeader()
					c.LastJustifiedHeader()
					c.GetTxPool().GetTransactions()
					calls++
				}
			})
		}
		sched.Run(2*time.Hour, 5000000)
		r.Count("simrt.steps", sched.Steps)
		r.Count("simrt.calls", calls)
		r.Tracef("concurrent phase: steps=%d calls=%d blocks=%d votes=%d", sched.Steps, calls, len(rest), len(votes))
		if sched.Deadlock != "" && forC23 {
			r.Count("contained.stuck_schedule", 1)
			return
		}
		if sched.Deadlock != "" {
			sites := strings.Join(sched.LockSites(), "|")
			r.Violate("no-progress", sites, "a call never returned although every fault had stopped and two simulated hours passed: %s", sched.Deadlock)
			return
		}
		sched.Stop()
		if len(rest) > 1 {
			r.NonTrivial()
		}
		best := w.Tree.Nodes[victim.Best()]
		if best == nil {
			r.Violate("unknown-best", "", "best block after the concurrent phase was never produced")
			return
		}
		o := &Observer{W: w, N: victim, Or: ObsOracles{C23: true}}
		o.checkPool("scheduled concurrent delivery and submission", best)
	})
}

// SpecC37d is used by the C37 check's deterministic part.
func SpecC37d() simkit.Spec {
	return simkit.Spec{
		Prop: "C37", Gen: genC37d, NewPlan: func() any { return &C37dPlan{} }, Exec: execC37d,
		Rule: "instrumented build: all goroutines of protocol, casper, event, account and wallet are tasks of a cooperative scheduler (locks, task start and channel operations are yield points); 2-5 client tasks (block feeders, vote feeder, transaction submitter, reader) drive one node; the plan's schedule tape picks the next task at every yield; oracle: every client call returns (wait-for description otherwise), state coherent afterwards; distinct = hash of the schedule-dependent trace",
		Components: nodeComponents,
		Probes:     []string{"simrt.steps", "simrt.calls"},
	}
}
