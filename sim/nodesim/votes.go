package nodesim

import (
	"golang.org/x/crypto/sha3"

	"github.com/bytom/bytom/protocol/bc"
	"github.com/bytom/bytom/protocol/casper"
	"github.com/bytom/bytom/protocol/state"

	"verif/sim/model"
)

// SignVote builds the verification message of validator k for the link
// source -> target (both checkpoint block hashes). The signed message is the
// documented one: sha3-256(sourceHash ‖ targetHash).
func SignVote(k *Key, source, target bc.Hash) *casper.ValidCasperSignMsg {
	buf := append(append([]byte{}, source.Bytes()...), target.Bytes()...)
	msg := sha3.Sum256(buf)
	return &casper.ValidCasperSignMsg{SourceHash: source, TargetHash: target, Signature: k.Xprv.Sign(msg[:]), PubKey: k.PubHex}
}

// JustifiedSource returns the nearest strict ancestor checkpoint of target that
// node n has persisted as justified or finalized (what an honest validator
// following this node would use as the source of its vote).
func (w *World) JustifiedSource(n *Node, target *model.BlockState) *model.BlockState {
	for s := target.Parent; s != nil; s = s.Parent {
		if s.Height%w.P.E != 0 {
			continue
		}
		h := s.Hash
		cp, err := n.Store.GetCheckpoint(&h)
		if err != nil {
			continue
		}
		if cp.Status == state.Justified || cp.Status == state.Finalized {
			return s
		}
	}
	return nil
}
