package nodesim

// C03 — transaction and block identity commit to all consensus content.
//
// A producer side builds a block tree with the real proposers. Two honest nodes
// receive it: node A gets the originals; on the link to node B sits a Byzantine
// relay that, for drawn messages, decodes the wire form, changes exactly one field
// of a hand-enumerated catalogue, re-encodes and forwards. The oracles look at what
// the receiving node computes (the id / hash after its own decode), what it stores,
// and whether the two replicas still hold the same content under one best hash.

import (
	"bytes"
	"encoding/hex"
	"fmt"
	"strings"
	"testing"
	"testing/synctest"
	"time"

	wire "github.com/tendermint/go-wire"
	"pgregory.net/rapid"

	"github.com/bytom/bytom/database"
	"github.com/bytom/bytom/netsync/chainmgr"
	"github.com/bytom/bytom/netsync/consensusmgr"
	msgs "github.com/bytom/bytom/netsync/messages"
	"github.com/bytom/bytom/proposal"
	"github.com/bytom/bytom/protocol/bc"
	"github.com/bytom/bytom/protocol/bc/types"

	"verif/sim/model"
	"verif/sim/simdisk"
	"verif/sim/simkit"
)

// ---------------------------------------------------------------------------
// The field catalogue, written from the wire format of a transaction / block.

type c03Dig struct{ Label, Val string }

func c03hex(b []byte) string { return hex.EncodeToString(b) }

func c03list(l [][]byte) string {
	parts := make([]string, len(l))
	for i, e := range l {
		parts[i] = c03hex(e)
	}
	return fmt.Sprintf("%d[%s]", len(l), strings.Join(parts, ","))
}

func c03asset(a *bc.AssetID) string {
	if a == nil {
		return "nil"
	}
	return a.String()
}

// c03DigestTx lists every catalogue field of a transaction, consensus fields and
// witness fields apart. It reads the parsed container only (no ids, no hashing).
func c03DigestTx(d *types.TxData) (cons, wit []c03Dig) {
	add := func(dst *[]c03Dig, label string, pos int, format string, args ...any) {
		*dst = append(*dst, c03Dig{label, fmt.Sprintf("#%d:", pos) + fmt.Sprintf(format, args...)})
	}
	add(&cons, "tx.version", 0, "%d", d.Version)
	add(&cons, "tx.timerange", 0, "%d", d.TimeRange)
	add(&cons, "tx.inputs", 0, "%d", len(d.Inputs))
	for i, in := range d.Inputs {
		add(&cons, "in.assetversion", i, "%d", in.AssetVersion)
		add(&cons, "in.suffix", i, "%x", in.CommitmentSuffix)
		add(&wit, "in.witness-suffix", i, "%x", in.WitnessSuffix)
		sc := func(kind string, c *types.SpendCommitment) {
			add(&cons, "in.kind", i, "%s", kind)
			add(&cons, "in.source-id", i, "%s", c.SourceID.String())
			add(&cons, "in.source-pos", i, "%d", c.SourcePosition)
			add(&cons, "in.asset", i, "%s", c03asset(c.AssetId))
			add(&cons, "in.amount", i, "%d", c.Amount)
			add(&cons, "in.vmversion", i, "%d", c.VMVersion)
			add(&cons, "in.program", i, "%x", c.ControlProgram)
			add(&cons, "in.state", i, "%s", c03list(c.StateData))
		}
		switch t := in.TypedInput.(type) {
		case *types.SpendInput:
			sc("spend", &t.SpendCommitment)
			add(&cons, "in.commitment-suffix", i, "%x", t.SpendCommitmentSuffix)
			add(&wit, "in.arguments", i, "%s", c03list(t.Arguments))
		case *types.VetoInput:
			sc("veto", &t.SpendCommitment)
			add(&cons, "in.vote", i, "%x", t.Vote)
			add(&cons, "in.commitment-suffix", i, "%x", t.VetoCommitmentSuffix)
			add(&wit, "in.arguments", i, "%s", c03list(t.Arguments))
		case *types.IssuanceInput:
			add(&cons, "in.kind", i, "issue")
			add(&cons, "iss.nonce", i, "%x", t.Nonce)
			add(&cons, "iss.amount", i, "%d", t.Amount)
			add(&cons, "iss.definition", i, "%x", t.AssetDefinition)
			add(&cons, "iss.vmversion", i, "%d", t.VMVersion)
			add(&cons, "iss.program", i, "%x", t.IssuanceProgram)
			add(&wit, "in.arguments", i, "%s", c03list(t.Arguments))
		case *types.CoinbaseInput:
			add(&cons, "in.kind", i, "coinbase")
			add(&cons, "cb.arbitrary", i, "%x", t.Arbitrary)
		default:
			add(&cons, "in.kind", i, "unknown")
		}
	}
	add(&cons, "tx.outputs", 0, "%d", len(d.Outputs))
	for i, o := range d.Outputs {
		add(&cons, "out.assetversion", i, "%d", o.AssetVersion)
		typ := "none"
		if o.TypedOutput != nil {
			typ = fmt.Sprint(o.OutputType())
		}
		add(&cons, "out.type", i, "%s", typ)
		add(&cons, "out.asset", i, "%s", c03asset(o.AssetId))
		add(&cons, "out.amount", i, "%d", o.Amount)
		add(&cons, "out.vmversion", i, "%d", o.VMVersion)
		add(&cons, "out.program", i, "%x", o.ControlProgram)
		add(&cons, "out.state", i, "%s", c03list(o.StateData))
		if v, ok := o.TypedOutput.(*types.VoteOutput); ok {
			add(&cons, "out.vote", i, "%x", v.Vote)
		}
		add(&cons, "out.suffix", i, "%x", o.CommitmentSuffix)
	}
	return cons, wit
}

// c03DigestBlock lists the consensus fields of a block: header fields and the
// consensus fields of every transaction (block signature, verification links
// and transaction arguments are left out).
func c03DigestBlock(b *types.Block) []c03Dig {
	out := []c03Dig{
		{"hdr.version", fmt.Sprint(b.Version)},
		{"hdr.height", fmt.Sprint(b.Height)},
		{"hdr.previous", b.PreviousBlockHash.String()},
		{"hdr.timestamp", fmt.Sprint(b.Timestamp)},
		{"hdr.merkle-root", b.TransactionsMerkleRoot.String()},
		{"blk.transactions", fmt.Sprint(len(b.Transactions))},
	}
	for i, tx := range b.Transactions {
		cons, _ := c03DigestTx(&tx.TxData)
		for _, d := range cons {
			out = append(out, c03Dig{d.Label, fmt.Sprintf("tx%d", i) + d.Val})
		}
	}
	return out
}

// c03Diff returns the label and values of the first difference ("" = equal).
func c03Diff(a, b []c03Dig) (label, va, vb string) {
	for i := 0; i < len(a) || i < len(b); i++ {
		switch {
		case i >= len(a):
			return b[i].Label, "(absent)", b[i].Val
		case i >= len(b):
			return a[i].Label, a[i].Val, "(absent)"
		case a[i] != b[i]:
			return a[i].Label, a[i].Val, b[i].Val
		}
	}
	return "", "", ""
}

func c03cp(b []byte) []byte { return append([]byte{}, b...) }

// c03MutBytes returns a byte string that differs from x.
func c03MutBytes(x []byte, mode int) []byte {
	y := c03cp(x)
	if len(y) == 0 {
		return []byte{byte(1 + mode%200)}
	}
	switch mode % 3 {
	case 0:
		y[len(y)-1] ^= 1 << uint(mode/3%8)
	case 1:
		y[0] ^= 1 << uint(mode/3%8)
	default:
		y = append(y, byte(mode))
	}
	return y
}

// c03MutList returns a list of byte strings that differs from l.
func c03MutList(l [][]byte, mode int) [][]byte {
	out := make([][]byte, len(l))
	for i, e := range l {
		out[i] = c03cp(e)
	}
	if len(out) == 0 || mode%3 == 1 {
		return append(out, []byte{byte(1 + mode%100)})
	}
	if mode%3 == 2 && len(out) > 0 {
		return out[:len(out)-1]
	}
	i := (mode / 3) % len(out)
	out[i] = c03MutBytes(out[i], mode/6)
	return out
}

func c03MutAsset(a *bc.AssetID, mode int) *bc.AssetID {
	n := *a
	n.V2 ^= 1 << uint(mode%64)
	return &n
}

func c03OutKind(o *types.TxOutput) string {
	if len(o.ControlProgram) > 0 && o.ControlProgram[0] == 0x6a {
		return "retire"
	}
	if o.TypedOutput != nil && o.OutputType() == types.VoteOutputType {
		return "vote"
	}
	return "normal"
}

// c03TxField is one entry of the transaction catalogue.
type c03TxField struct {
	Name    string
	Witness bool
	// Sites lists the input / output positions the field can be changed at.
	Sites func(d *types.TxData) []int
	// Apply changes the field at one site, in place, on a private decoded copy.
	Apply func(w *World, d *types.TxData, site, mode int)
}

func c03Commitment(in *types.TxInput) *types.SpendCommitment {
	switch t := in.TypedInput.(type) {
	case *types.SpendInput:
		return &t.SpendCommitment
	case *types.VetoInput:
		return &t.SpendCommitment
	}
	return nil
}

func c03SpendSites(d *types.TxData) []int {
	var s []int
	for i, in := range d.Inputs {
		if c03Commitment(in) != nil {
			s = append(s, i)
		}
	}
	return s
}

func c03IssueSites(d *types.TxData) []int {
	var s []int
	for i, in := range d.Inputs {
		if _, ok := in.TypedInput.(*types.IssuanceInput); ok {
			s = append(s, i)
		}
	}
	return s
}

func c03OutSites(d *types.TxData) []int {
	s := make([]int, len(d.Outputs))
	for i := range s {
		s[i] = i
	}
	return s
}

func c03Whole(d *types.TxData) []int { return []int{0} }

// c03ReIssue rebuilds an issuance input from changed parameters (the decoded
// object caches the asset id it was sent with).
func c03ReIssue(d *types.TxData, site int, f func(ii *types.IssuanceInput)) {
	old := d.Inputs[site].TypedInput.(*types.IssuanceInput)
	c := types.IssuanceInput{Nonce: c03cp(old.Nonce), Amount: old.Amount, AssetDefinition: c03cp(old.AssetDefinition),
		VMVersion: old.VMVersion, IssuanceProgram: c03cp(old.IssuanceProgram), Arguments: old.Arguments}
	f(&c)
	n := types.NewIssuanceInput(c.Nonce, c.Amount, c.IssuanceProgram, c.Arguments, c.AssetDefinition)
	n.CommitmentSuffix, n.WitnessSuffix = d.Inputs[site].CommitmentSuffix, d.Inputs[site].WitnessSuffix
	d.Inputs[site] = n
}

var c03TxCatalogue = []c03TxField{
	{Name: "tx-version", Sites: c03Whole, Apply: func(w *World, d *types.TxData, s, m int) { d.Version += uint64(1 + m%3) }},
	{Name: "tx-timerange", Sites: c03Whole, Apply: func(w *World, d *types.TxData, s, m int) { d.TimeRange += uint64(1 + m%50) }},
	{Name: "in-source-id", Sites: c03SpendSites, Apply: func(w *World, d *types.TxData, s, m int) {
		c03Commitment(d.Inputs[s]).SourceID.V1 ^= 1 << uint(m%64)
	}},
	{Name: "in-source-pos", Sites: c03SpendSites, Apply: func(w *World, d *types.TxData, s, m int) {
		c03Commitment(d.Inputs[s]).SourcePosition += uint64(1 + m%3)
	}},
	{Name: "in-asset", Sites: c03SpendSites, Apply: func(w *World, d *types.TxData, s, m int) {
		c := c03Commitment(d.Inputs[s])
		c.AssetId = c03MutAsset(c.AssetId, m)
	}},
	{Name: "in-amount", Sites: c03SpendSites, Apply: func(w *World, d *types.TxData, s, m int) {
		c := c03Commitment(d.Inputs[s])
		aa := c.AssetAmount
		aa.Amount += uint64(1 + m%7)
		c.AssetAmount = aa
	}},
	{Name: "in-program", Sites: c03SpendSites, Apply: func(w *World, d *types.TxData, s, m int) {
		c := c03Commitment(d.Inputs[s])
		c.ControlProgram = c03MutBytes(c.ControlProgram, m)
	}},
	{Name: "in-state", Sites: c03SpendSites, Apply: func(w *World, d *types.TxData, s, m int) {
		c := c03Commitment(d.Inputs[s])
		c.StateData = c03MutList(c.StateData, m)
	}},
	{Name: "in-vote", Sites: func(d *types.TxData) []int {
		var s []int
		for i, in := range d.Inputs {
			if _, ok := in.TypedInput.(*types.VetoInput); ok {
				s = append(s, i)
			}
		}
		return s
	}, Apply: func(w *World, d *types.TxData, s, m int) {
		v := d.Inputs[s].TypedInput.(*types.VetoInput)
		v.Vote = c03MutBytes(v.Vote, m)
	}},
	{Name: "iss-nonce", Sites: c03IssueSites, Apply: func(w *World, d *types.TxData, s, m int) {
		c03ReIssue(d, s, func(ii *types.IssuanceInput) { ii.Nonce = c03MutBytes(ii.Nonce, m) })
	}},
	{Name: "iss-amount", Sites: c03IssueSites, Apply: func(w *World, d *types.TxData, s, m int) {
		c03ReIssue(d, s, func(ii *types.IssuanceInput) { ii.Amount += uint64(1 + m%7) })
	}},
	{Name: "iss-definition", Sites: c03IssueSites, Apply: func(w *World, d *types.TxData, s, m int) {
		c03ReIssue(d, s, func(ii *types.IssuanceInput) { ii.AssetDefinition = c03MutBytes(ii.AssetDefinition, m) })
	}},
	{Name: "iss-program", Sites: c03IssueSites, Apply: func(w *World, d *types.TxData, s, m int) {
		c03ReIssue(d, s, func(ii *types.IssuanceInput) { ii.IssuanceProgram = c03MutBytes(ii.IssuanceProgram, m) })
	}},
	{Name: "cb-arbitrary", Sites: func(d *types.TxData) []int {
		var s []int
		for i, in := range d.Inputs {
			if _, ok := in.TypedInput.(*types.CoinbaseInput); ok {
				s = append(s, i)
			}
		}
		return s
	}, Apply: func(w *World, d *types.TxData, s, m int) {
		c := d.Inputs[s].TypedInput.(*types.CoinbaseInput)
		d.Inputs[s] = types.NewCoinbaseInput(c03MutBytes(c.Arbitrary, m))
	}},
	{Name: "out-asset", Sites: c03OutSites, Apply: func(w *World, d *types.TxData, s, m int) {
		o := *d.Outputs[s]
		o.AssetId = c03MutAsset(o.AssetId, m)
		d.Outputs[s] = &o
	}},
	{Name: "out-amount", Sites: c03OutSites, Apply: func(w *World, d *types.TxData, s, m int) {
		o := *d.Outputs[s]
		aa := o.AssetAmount
		aa.Amount += uint64(1 + m%7)
		o.AssetAmount = aa
		d.Outputs[s] = &o
	}},
	{Name: "out-program", Sites: c03OutSites, Apply: func(w *World, d *types.TxData, s, m int) {
		o := *d.Outputs[s]
		o.ControlProgram = c03MutBytes(o.ControlProgram, m)
		d.Outputs[s] = &o
	}},
	{Name: "out-state", Sites: c03OutSites, Apply: func(w *World, d *types.TxData, s, m int) {
		o := *d.Outputs[s]
		o.StateData = c03MutList(o.StateData, m)
		d.Outputs[s] = &o
	}},
	{Name: "out-vote", Sites: func(d *types.TxData) []int {
		var s []int
		for i, o := range d.Outputs {
			if _, ok := o.TypedOutput.(*types.VoteOutput); ok {
				s = append(s, i)
			}
		}
		return s
	}, Apply: func(w *World, d *types.TxData, s, m int) {
		o := *d.Outputs[s]
		o.TypedOutput = &types.VoteOutput{Vote: c03MutBytes(o.TypedOutput.(*types.VoteOutput).Vote, m)}
		d.Outputs[s] = &o
	}},
	{Name: "out-type", Sites: c03OutSites, Apply: func(w *World, d *types.TxData, s, m int) {
		o := d.Outputs[s]
		var n *types.TxOutput
		if _, isVote := o.TypedOutput.(*types.VoteOutput); isVote {
			n = types.NewOriginalTxOutput(*o.AssetId, o.Amount, c03cp(o.ControlProgram), o.StateData)
		} else {
			// the relay's own candidate
			cand := w.Keys[m%len(w.Keys)]
			n = types.NewVoteOutput(*o.AssetId, o.Amount, c03cp(o.ControlProgram), c03cp(cand.Xpub[:]), o.StateData)
		}
		n.AssetVersion, n.VMVersion, n.CommitmentSuffix = o.AssetVersion, o.VMVersion, o.CommitmentSuffix
		d.Outputs[s] = n
	}},
	{Name: "in-order", Sites: func(d *types.TxData) []int {
		if len(d.Inputs) < 2 {
			return nil
		}
		return c03Whole(d)
	}, Apply: func(w *World, d *types.TxData, s, m int) {
		ins := append([]*types.TxInput{}, d.Inputs...)
		i := m % len(ins)
		j := (i + 1 + (m/len(ins))%(len(ins)-1)) % len(ins)
		ins[i], ins[j] = ins[j], ins[i]
		d.Inputs = ins
	}},
	{Name: "out-order", Sites: func(d *types.TxData) []int {
		if len(d.Outputs) < 2 {
			return nil
		}
		return c03Whole(d)
	}, Apply: func(w *World, d *types.TxData, s, m int) {
		outs := append([]*types.TxOutput{}, d.Outputs...)
		i := m % len(outs)
		j := (i + 1 + (m/len(outs))%(len(outs)-1)) % len(outs)
		outs[i], outs[j] = outs[j], outs[i]
		d.Outputs = outs
	}},
	{Name: "wit-arguments", Witness: true, Sites: func(d *types.TxData) []int {
		var s []int
		for i, in := range d.Inputs {
			if _, ok := in.TypedInput.(*types.CoinbaseInput); !ok && in.TypedInput != nil {
				s = append(s, i)
			}
		}
		return s
	}, Apply: func(w *World, d *types.TxData, s, m int) {
		in := *d.Inputs[s]
		args := c03MutList(in.Arguments(), m)
		switch t := in.TypedInput.(type) {
		case *types.SpendInput:
			c := *t
			c.Arguments = args
			in.TypedInput = &c
		case *types.VetoInput:
			c := *t
			c.Arguments = args
			in.TypedInput = &c
		case *types.IssuanceInput:
			c := *t
			c.Arguments = args
			in.TypedInput = &c
		}
		d.Inputs[s] = &in
	}},
}

func c03TxFieldNames() []string {
	var n []string
	for _, f := range c03TxCatalogue {
		n = append(n, f.Name)
	}
	return n
}

func c03TxFieldByName(name string) *c03TxField {
	for i := range c03TxCatalogue {
		if c03TxCatalogue[i].Name == name {
			return &c03TxCatalogue[i]
		}
	}
	return nil
}

// Block-level catalogue. "twin" entries leave the block hash unchanged by the
// property (witness only, or a body that no longer matches the committed root).
var c03BlockFields = []string{
	"hdr-version", "hdr-height", "hdr-previous", "hdr-timestamp", "hdr-merkle-root", "blk-tx-replaced",
	"blk-tx-replaced-keep-root", "blk-tx-witness", "blk-signature", "blk-no-signature", "blk-suplinks",
}

var c03BlockTwin = map[string]bool{"blk-tx-replaced-keep-root": true, "blk-tx-witness": true, "blk-signature": true, "blk-no-signature": true, "blk-suplinks": true}

// ---------------------------------------------------------------------------
// Plan

// C03Mut is one action of the Byzantine relay.
type C03Mut struct {
	Msg   string `json:"msg"`   // tx | blk
	Field string `json:"field"` // catalogue entry
	At    int    `json:"at,omitempty"`
	Site  int    `json:"site,omitempty"`
	Mode  int    `json:"mode,omitempty"`
	Sub   int    `json:"sub,omitempty"`   // nested transaction field (block body mutations)
	First bool   `json:"first,omitempty"` // the changed copy arrives before the original
	Chan  int    `json:"chan,omitempty"`  // which wire message carries it
}

// C03Plan: tree + relay actions + steps at which a proposer on B's side builds from B's mempool.
type C03Plan struct {
	Tree  TreePlan `json:"tree"`
	Muts  []C03Mut `json:"muts"`
	BProp []int    `json:"bprop,omitempty"`
}

func genC03(rt *rapid.T) any {
	cfg := GenCfg(rt, 3)
	p := &C03Plan{Tree: TreePlan{Cfg: cfg, Warm: WarmupLen(cfg), Steps: GenSteps(rt, 4, 12, 3, 5)}}
	n := rapid.IntRange(1, 10).Draw(rt, "nmut")
	for i := 0; i < n; i++ {
		m := C03Mut{Msg: "tx"}
		if rapid.IntRange(0, 2).Draw(rt, "msgq") == 2 {
			m.Msg = "blk"
			m.Field = rapid.SampledFrom(c03BlockFields).Draw(rt, "bfield")
		} else {
			m.Field = rapid.SampledFrom(c03TxFieldNames()).Draw(rt, "tfield")
		}
		m.At = rapid.IntRange(0, 40).Draw(rt, "at")
		m.Site = rapid.IntRange(0, 5).Draw(rt, "site")
		m.Mode = rapid.IntRange(0, 47).Draw(rt, "mode")
		m.Sub = rapid.IntRange(0, 30).Draw(rt, "sub")
		m.First = rapid.Bool().Draw(rt, "first")
		m.Chan = rapid.IntRange(0, 2).Draw(rt, "chan")
		p.Muts = append(p.Muts, m)
	}
	nb := rapid.IntRange(0, 2).Draw(rt, "nbprop")
	for i := 0; i < nb; i++ {
		p.BProp = append(p.BProp, rapid.IntRange(0, 11).Draw(rt, "bprop"))
	}
	return p
}

// ---------------------------------------------------------------------------
// The wire: real message constructors, go-wire framing, the reactors' decoders.

func c03SendTx(tx *types.Tx) []byte {
	m, err := msgs.NewTransactionMessage(tx)
	if err != nil {
		harness("tx message: %v", err)
	}
	return wire.BinaryBytes(struct{ msgs.BlockchainMessage }{m})
}

func c03RecvTx(bz []byte) (*types.Tx, error) {
	_, m, err := chainmgr.VerifDecodeMessage(bz)
	if err != nil {
		return nil, err
	}
	tm, ok := m.(*msgs.TransactionMessage)
	if !ok {
		return nil, fmt.Errorf("not a transaction message: %T", m)
	}
	return tm.GetTransaction()
}

// c03SendBlock encodes a block as one of the three messages that carry whole blocks.
func c03SendBlock(b *types.Block, ch int) []byte {
	switch ch % 3 {
	case 0:
		m, err := consensusmgr.NewBlockProposeMsg(b)
		if err != nil {
			harness("propose message: %v", err)
		}
		return append([]byte{0xC0}, wire.BinaryBytes(struct{ consensusmgr.ConsensusMessage }{m})...)
	case 1:
		m, err := msgs.NewBlockMessage(b)
		if err != nil {
			harness("block message: %v", err)
		}
		return append([]byte{0xB0}, wire.BinaryBytes(struct{ msgs.BlockchainMessage }{m})...)
	default:
		m, err := msgs.NewMinedBlockMessage(b)
		if err != nil {
			harness("mined block message: %v", err)
		}
		return append([]byte{0xB0}, wire.BinaryBytes(struct{ msgs.BlockchainMessage }{m})...)
	}
}

// c03RecvBlock decodes what c03SendBlock produced (first byte = channel).
func c03RecvBlock(bz []byte) (*types.Block, error) {
	if bz[0] == 0xC0 {
		_, m, err := consensusmgr.VerifDecodeMessage(bz[1:])
		if err != nil {
			return nil, err
		}
		pm, ok := m.(*consensusmgr.BlockProposeMsg)
		if !ok {
			return nil, fmt.Errorf("not a propose message: %T", m)
		}
		return pm.GetProposeBlock()
	}
	_, m, err := chainmgr.VerifDecodeMessage(bz[1:])
	if err != nil {
		return nil, err
	}
	switch t := m.(type) {
	case *msgs.BlockMessage:
		return t.GetBlock()
	case *msgs.MineBlockMessage:
		return t.GetMineBlock()
	}
	return nil, fmt.Errorf("not a block message: %T", m)
}

// ---------------------------------------------------------------------------
// Execution

type c03Run struct {
	w    *World
	r    *simkit.Run
	a, b *Node
	// every block B was offered under a hash the honest tree knows: the honest original
	honest map[bc.Hash]*types.Block
	// transactions B's mempool accepted since the last delivered block, in arrival order
	bPooled []*types.Tx
	agreed  int
	crossed int
}

// relayTx changes one field of a transaction in flight and returns the bytes to forward.
// ok=false when the field does not exist in this transaction.
func (x *c03Run) mutateTx(orig *types.Tx, f *c03TxField, site, mode int) (out *types.TxData, attr string, ok bool) {
	// the relay works on its own decode of the wire bytes
	dec, err := c03RecvTx(c03SendTx(orig))
	if err != nil {
		harness("relay cannot decode an honest transaction: %v", err)
	}
	d := dec.TxData
	sites := f.Sites(&d)
	if len(sites) == 0 {
		return nil, "", false
	}
	s := sites[site%len(sites)]
	attr = f.Name
	before := ""
	if strings.HasPrefix(f.Name, "out-") && f.Name != "out-order" {
		before = c03OutKind(d.Outputs[s])
	}
	c0, w0 := c03DigestTx(&d)
	f.Apply(x.w, &d, s, mode)
	c1, w1 := c03DigestTx(&d)
	if before != "" {
		attr += "/" + before + ">" + c03OutKind(d.Outputs[s])
	}
	lc, _, _ := c03Diff(c0, c1)
	lw, _, _ := c03Diff(w0, w1)
	if f.Witness {
		if lc != "" {
			harness("witness mutation %s changed consensus field %s", f.Name, lc)
		}
		if lw == "" {
			return nil, "", false
		}
	} else {
		if lw != "" && f.Name != "in-order" {
			// (swapping two inputs moves their arguments along with them)
			harness("consensus mutation %s changed witness field %s", f.Name, lw)
		}
		if lc == "" {
			// e.g. swapping two identical outputs: nothing changed
			x.r.Count("mutation.noop", 1)
			return nil, "", false
		}
	}
	return &d, attr, true
}

// checkTxID is oracle (b) for a transaction the receiver decoded.
func (x *c03Run) checkTxID(orig *types.Tx, got *types.Tx, witness bool, attr, where string) bool {
	x.crossed++
	if witness {
		x.r.Count("fault.relay_witness_mutation", 1)
		if got.ID != orig.ID {
			x.r.Violate("id-moved-by-witness", attr, "%s: the relay changed only witness data (%s) of a transaction, yet the id the receiver computes differs from the original's", where, attr)
			return false
		}
		return true
	}
	x.r.Count("fault.relay_consensus_mutation", 1)
	if got.ID == orig.ID {
		c0, _ := c03DigestTx(&orig.TxData)
		c1, _ := c03DigestTx(&got.TxData)
		l, va, vb := c03Diff(c0, c1)
		x.r.Violate("id-unchanged", attr, "%s: the relay changed consensus field %s of a transaction (%s: %s -> %s) and the receiver computes the same transaction id as for the original", where, attr, l, va, vb)
		return false
	}
	return true
}

// relayTxTo forwards a (possibly changed) transaction to B's mempool over the wire.
func (x *c03Run) relayTxToB(orig *types.Tx, m *C03Mut) {
	r := x.r
	send := orig
	attr := ""
	var f *c03TxField
	if m != nil {
		f = c03TxFieldByName(m.Field)
		d, a, ok := x.mutateTx(orig, f, m.Site, m.Mode)
		if !ok {
			r.Count("mutation.not_applicable", 1)
			m = nil
		} else {
			send, attr = &types.Tx{TxData: *d}, a
		}
	}
	got, err := c03RecvTx(c03SendTx(send))
	if err != nil {
		harness("receiver cannot decode a relayed transaction (%s): %v", attr, err)
	}
	if m != nil {
		r.Count("fault.relay."+m.Field, 1)
		if !x.checkTxID(orig, got, f.Witness, attr, "transaction message") {
			return
		}
	} else if got.ID != orig.ID {
		r.Violate("id-moved-by-wire", "tx", "an unchanged transaction has another id after crossing the wire")
		return
	}
	_, serr := x.b.SubmitTx(got)
	id := got.ID
	pooled := x.b.Pool.IsTransactionInPool(&id)
	if m != nil {
		r.Tracef("relay tx %s -> B err=%v pooled=%v", attr, serr != nil, pooled)
		if pooled {
			r.Count("probe.mutated_tx_pooled_by_B", 1)
		}
	}
	if pooled {
		x.bPooled = append(x.bPooled, got)
	}
}

// mutateBlock builds the relay's version of a block. expectSame: the property
// says the hash must not move.
func (x *c03Run) mutateBlock(orig *types.Block, m *C03Mut) (out *types.Block, attr string, ok bool) {
	blk, err := c03RecvBlock(c03SendBlock(orig, m.Chan))
	if err != nil {
		harness("relay cannot decode an honest block: %v", err)
	}
	attr = m.Field
	pickTx := func(witness bool) (int, *c03TxField) {
		// prefer an ordinary transaction, fall back to the coinbase
		var names []string
		k := 0
		if len(blk.Transactions) > 1 {
			k = 1 + m.Site%(len(blk.Transactions)-1)
		}
		for _, f := range c03TxCatalogue {
			if f.Witness == witness && len(f.Sites(&blk.Transactions[k].TxData)) > 0 {
				names = append(names, f.Name)
			}
		}
		if len(names) == 0 {
			return 0, nil
		}
		return k, c03TxFieldByName(names[m.Sub%len(names)])
	}
	replace := func(witness bool) bool {
		k, f := pickTx(witness)
		if f == nil {
			return false
		}
		d, a, ok := x.mutateTx(blk.Transactions[k], f, m.Site, m.Mode)
		if !ok {
			return false
		}
		attr += "/" + a
		blk.Transactions[k] = types.NewTx(*d)
		return true
	}
	switch m.Field {
	case "hdr-version":
		blk.Version += uint64(1 + m.Mode%3)
	case "hdr-height":
		blk.Height += uint64(1 + m.Mode%3)
	case "hdr-previous":
		blk.PreviousBlockHash.V3 ^= 1 << uint(m.Mode%64)
	case "hdr-timestamp":
		blk.Timestamp += uint64(1 + m.Mode*125)
	case "hdr-merkle-root":
		blk.TransactionsMerkleRoot.V0 ^= 1 << uint(m.Mode%64)
	case "blk-tx-replaced":
		if !replace(false) {
			return nil, "", false
		}
		var ids []*bc.Tx
		for _, tx := range blk.Transactions {
			ids = append(ids, tx.Tx)
		}
		root, err := types.TxMerkleRoot(ids)
		if err != nil {
			harness("merkle: %v", err)
		}
		if root == blk.TransactionsMerkleRoot {
			// the replaced transaction kept its id: reported by the nested id check below
			attr += "/same-root"
		}
		blk.TransactionsMerkleRoot = root
	case "blk-tx-replaced-keep-root":
		if !replace(false) {
			return nil, "", false
		}
	case "blk-tx-witness":
		if !replace(true) {
			return nil, "", false
		}
	case "blk-signature":
		if len(blk.BlockWitness) == 0 {
			return nil, "", false
		}
		sig := c03cp(blk.BlockWitness)
		sig[m.Mode%len(sig)] ^= 1 << uint(m.Site%8)
		blk.BlockWitness = sig
	case "blk-no-signature":
		if len(blk.BlockWitness) == 0 {
			return nil, "", false
		}
		blk.BlockWitness = nil
	case "blk-suplinks":
		switch {
		case len(blk.SupLinks) > 0 && m.Mode%3 == 0:
			blk.SupLinks = nil
			attr += "/dropped"
		case len(blk.SupLinks) > 0 && m.Mode%3 == 1:
			sl := *blk.SupLinks[0]
			done := false
			for i := range sl.Signatures {
				if len(sl.Signatures[i]) > 0 {
					s := c03cp(sl.Signatures[i])
					s[m.Site%len(s)] ^= 4
					sl.Signatures[i] = s
					done = true
					break
				}
			}
			if !done {
				return nil, "", false
			}
			blk.SupLinks = append(types.SupLinks{&sl}, blk.SupLinks[1:]...)
			attr += "/garbled"
		default:
			// a link from the parent with a signature in some slot
			sl := &types.SupLink{SourceHeight: blk.Height - 1, SourceHash: blk.PreviousBlockHash}
			sl.Signatures[m.Site%len(sl.Signatures)] = bytes.Repeat([]byte{byte(1 + m.Mode)}, 64)
			blk.SupLinks = append(append(types.SupLinks{}, blk.SupLinks...), sl)
			attr += "/added"
		}
	default:
		return nil, "", false
	}
	return blk, attr, true
}

// storedWitnessOK: whatever B holds under an honest hash must be the honestly signed block.
func (x *c03Run) checkStoredTwin(h bc.Hash, attr, ctx string) bool {
	orig := x.honest[h]
	if orig == nil {
		return true
	}
	for _, view := range []string{"live", "disk"} {
		var got *types.Block
		var err error
		if view == "live" {
			got, err = x.b.Chain.GetBlockByHash(&h)
		} else {
			got, err = database.NewStore(x.b.Disk).GetBlock(&h)
		}
		if err != nil {
			continue
		}
		if !bytes.Equal(got.BlockWitness, orig.BlockWitness) {
			x.r.Violate("twin-stored", attr, "%s: node B stores under the hash of honest block %s a header whose block signature is not the proposer's (%s view)", ctx, x.w.name(h), view)
			return false
		}
		if l, va, vb := c03Diff(c03DigestBlock(orig), c03DigestBlock(got)); l != "" {
			x.r.Violate("content-under-one-hash", l, "%s: node B stores under the hash of honest block %s content that differs from the honest block in %s (%s vs %s) (%s view)", ctx, x.w.name(h), l, va, vb, view)
			return false
		}
	}
	return true
}

// relayBlockToB offers the relay's version of a block to B and evaluates oracle (b).
func (x *c03Run) relayBlockToB(orig *types.Block, m *C03Mut) {
	r, w := x.r, x.w
	oh := orig.Hash()
	mut, attr, ok := x.mutateBlock(orig, m)
	if !ok {
		r.Count("mutation.not_applicable", 1)
		return
	}
	got, err := c03RecvBlock(c03SendBlock(mut, m.Chan))
	if err != nil {
		harness("receiver cannot decode a relayed block (%s): %v", attr, err)
	}
	gh := got.Hash()
	r.Count("fault.relay."+m.Field, 1)
	x.crossed++
	twin := c03BlockTwin[m.Field]
	if m.Field == "blk-tx-replaced-keep-root" || m.Field == "blk-tx-replaced" {
		// the replaced transaction itself: consensus change => other id
		for i := range got.Transactions {
			if i >= len(orig.Transactions) {
				break
			}
			c0, _ := c03DigestTx(&orig.Transactions[i].TxData)
			c1, _ := c03DigestTx(&got.Transactions[i].TxData)
			if l, va, vb := c03Diff(c0, c1); l != "" && got.Transactions[i].ID == orig.Transactions[i].ID {
				r.Count("fault.relay_consensus_mutation", 1)
				r.Violate("id-unchanged", strings.TrimSuffix(strings.TrimPrefix(attr, m.Field+"/"), "/same-root"), "block %s, transaction %d replaced in flight: the relay changed consensus field %s (%s -> %s) and the receiver computes the same transaction id as for the original", w.name(oh), i, l, va, vb)
				return
			}
		}
	}
	if twin {
		r.Count("fault.relay_block_twin", 1)
		if gh != oh {
			r.Violate("hash-moved-by-witness", attr, "block %s: the relay changed only %s (the header and every transaction id are the original's), yet the hash the receiver computes differs", w.name(oh), attr)
			return
		}
	} else {
		r.Count("fault.relay_block_consensus_mutation", 1)
		if gh == oh {
			l, va, vb := c03Diff(c03DigestBlock(orig), c03DigestBlock(got))
			r.Violate("hash-unchanged", m.Field, "block %s: the relay changed %s (%s: %s -> %s) and the receiver computes the same block hash as for the original", w.name(oh), attr, l, va, vb)
			return
		}
	}
	if m.Field == "blk-tx-witness" {
		for i := range got.Transactions {
			if i < len(orig.Transactions) && got.Transactions[i].ID != orig.Transactions[i].ID {
				r.Violate("id-moved-by-witness", strings.TrimPrefix(attr, m.Field+"/"), "block %s, transaction %d: the relay changed only its arguments, yet the receiver computes another transaction id", w.name(oh), i)
				return
			}
		}
	}
	_, known := x.b.Store.GetBlockHeader(&gh)
	wasStored := known == nil
	orphan, perr := x.b.Process(got)
	_, after := x.b.Store.GetBlockHeader(&gh)
	r.Tracef("relay block %s of %s -> B stored-before=%v orphan=%v err=%v stored=%v", attr, w.name(oh), wasStored, orphan, perr != nil, after == nil)
	if after == nil && !wasStored {
		r.Count("probe.mutated_block_stored_by_B", 1)
	}
	if twin {
		switch m.Field {
		case "blk-signature", "blk-no-signature", "blk-tx-replaced-keep-root":
			// a garbage-signed (or wrong-bodied) copy is not the block: when B does not hold the
			// honest one yet it must refuse the copy, and it must never keep it
			if !wasStored && !orphan && perr == nil {
				r.Violate("twin-accepted", m.Field, "block %s: a copy with %s was accepted by node B (no error) although B did not hold the honest block", w.name(oh), attr)
				return
			}
			if !wasStored && after == nil {
				r.Violate("twin-stored", m.Field, "block %s: a copy with %s was stored by node B", w.name(oh), attr)
				return
			}
			r.Count("probe.twin_refused", 1)
			if wasStored {
				r.Count("probe.twin_after_original", 1)
			}
		}
		x.checkStoredTwin(oh, m.Field, "after the relayed copy of "+w.name(oh))
	}
}

// proposeOnB lets a proposer that shares B's chain state and B's mempool content
// build the block for timestamp ts on parent.
func (x *c03Run) proposeOnB(parent bc.Hash, ts uint64) (res *ProposeResult) {
	w := x.w
	res = &ProposeResult{}
	defer func() {
		// A node that cannot start from a copy of B's disk (e.g. after B refused a block whose
		// verification links name an unknown source, which leaves finality state behind) is a
		// restart problem, not an identity problem: contained and counted here.
		if p := recover(); p != nil {
			x.r.Count("contained.bside_node_start_panic", 1)
			res = nil
		}
	}()
	n, err := w.StartNode(fmt.Sprintf("bside%d", w.nodes), x.b.Disk.Clone(), w.Keys[0])
	if err != nil || n.Best() != parent {
		return nil
	}
	res.Node = n
	if ts > w.P.MaxOffsetMs {
		SleepUntilMs(ts - w.P.MaxOffsetMs + 1)
	}
	v, err := n.Chain.GetValidator(&parent, ts)
	if err != nil || v == nil || w.keyByPub[v.PubKey] == nil {
		return nil
	}
	res.Validator = v.PubKey
	n.SetKey(w.keyByPub[v.PubKey])
	n.setCoinbaseProgram(w.Keys[w.keyByPub[v.PubKey].Idx%2].Program) // as the producer side does (identity_prod.go)
	for _, tx := range x.bPooled {
		id := tx.ID
		if d, err := x.b.Pool.GetTransaction(&id); err == nil {
			n.SubmitTx(d.Tx)
			time.Sleep(time.Millisecond) // distinct arrival times: the proposer orders by them
		}
	}
	n.Activate()
	block, err := proposal.NewBlockTemplate(n.Chain, v, n.Acct, ts, time.Second, 2*time.Second)
	if err != nil {
		return nil
	}
	res.Block = block
	res.FeedOrphan, res.FeedErr = n.Chain.ProcessBlock(block)
	synctest.Wait()
	return res
}

// agreement is oracle (a).
func (x *c03Run) agreement(ctx string, fresh bool) {
	w, r := x.w, x.r
	if r.Failed() {
		return
	}
	ba, bb := x.a.Best(), x.b.Best()
	if ba != bb {
		r.Count("probe.best_differs", 1)
		return
	}
	get := func(n *Node, h bc.Hash) (*types.Block, error) {
		if fresh {
			return database.NewStore(n.Disk).GetBlock(&h)
		}
		return n.Chain.GetBlockByHash(&h)
	}
	h := ba
	for {
		blA, errA := get(x.a, h)
		blB, errB := get(x.b, h)
		if errA != nil || errB != nil {
			r.Violate("main-chain-block-missing", "", "%s: both nodes report best %s but block %s of the main chain cannot be read back (A: %v, B: %v)", ctx, w.name(ba), w.name(h), errA, errB)
			return
		}
		if l, va, vb := c03Diff(c03DigestBlock(blA), c03DigestBlock(blB)); l != "" {
			r.Violate("replicas-differ-under-one-hash", l, "%s: nodes A and B report the same best block %s, but main-chain block %s (height %d) differs in %s: A has %s, B has %s",
				ctx, w.name(ba), w.name(h), blA.Height, l, va, vb)
			return
		}
		if blA.Height == 0 {
			break
		}
		h = blA.PreviousBlockHash
	}
	for _, id := range w.Tree.SortedOutputIDs() {
		id := id
		ea, erra := x.a.Store.GetUtxo(&id)
		eb, errb := x.b.Store.GetUtxo(&id)
		ua, ub := erra == nil && !ea.Spent, errb == nil && !eb.Spent
		o := w.Tree.AllOutputs[id]
		// the recorded creation height is a spending constraint for coinbase and vote outputs only
		// (maturity, vote lock); for ordinary outputs it is bookkeeping that may depend on history
		if ua != ub || (ua && (ea.Type != eb.Type || (o.Kind != model.Normal && ea.BlockHeight != eb.BlockHeight))) {
			detail := ""
			if ua && ub {
				detail = fmt.Sprintf(" (stored type %d / height %d on A, type %d / height %d on B)", ea.Type, ea.BlockHeight, eb.Type, eb.BlockHeight)
			}
			r.Violate("ledgers-differ-under-one-hash", o.Kind.String(), "%s: nodes A and B report the same best block %s, but a %s output created at height %d is unspent on A=%v, on B=%v%s", ctx, w.name(ba), o.Kind, o.Height, ua, ub, detail)
			return
		}
	}
	x.agreed++
	r.Count("probe.agreement_checked", 1)
}

func execC03(t *testing.T, plan any, r *simkit.Run) {
	p := plan.(*C03Plan)
	Bubble(t, func() {
		w := NewWorld(t, r, p.Tree.Cfg)
		start := nowMs()
		prods := w.idProduceTree(&p.Tree)
		if r.Failed() || len(prods) == 0 {
			return
		}
		a, err := w.StartNode("A", simdisk.New(), observerKey())
		if err != nil {
			r.Violate("init", "", "%v", err)
			return
		}
		b, err := w.StartNode("B", simdisk.New(), newKey(9001))
		if err != nil {
			r.Violate("init", "", "%v", err)
			return
		}
		x := &c03Run{w: w, r: r, a: a, b: b, honest: map[bc.Hash]*types.Block{}}
		warm := p.Tree.Warm
		if warm > len(prods) {
			warm = len(prods)
		}
		post := prods[warm:]
		// resolve the relay's targets
		type txRef struct {
			step int
			tx   *types.Tx
		}
		txMuts := map[int]map[bc.Hash]*C03Mut{} // step -> tx id -> action
		blkMuts := map[int][]*C03Mut{}
		for i := range p.Muts {
			m := &p.Muts[i]
			if m.Msg == "tx" {
				f := c03TxFieldByName(m.Field)
				if f == nil {
					continue
				}
				var cands []txRef
				for s, pr := range post {
					for _, tx := range pr.Txs {
						if len(f.Sites(&tx.TxData)) > 0 {
							cands = append(cands, txRef{s, tx})
						}
					}
				}
				if len(cands) == 0 {
					r.Count("mutation.not_applicable", 1)
					continue
				}
				c := cands[m.At%len(cands)]
				if txMuts[c.step] == nil {
					txMuts[c.step] = map[bc.Hash]*C03Mut{}
				}
				if txMuts[c.step][c.tx.ID] == nil {
					txMuts[c.step][c.tx.ID] = m
				}
				continue
			}
			if len(post) == 0 {
				continue
			}
			// body mutations want a block with transactions
			var cands []int
			for s, pr := range post {
				if !strings.HasPrefix(m.Field, "blk-tx-") || len(w.Blocks[pr.Hash].Transactions) > 1 {
					cands = append(cands, s)
				}
			}
			if len(cands) == 0 {
				for s := range post {
					cands = append(cands, s)
				}
			}
			s := cands[m.At%len(cands)]
			blkMuts[s] = append(blkMuts[s], m)
		}
		bprop := map[int]bool{}
		for _, s := range p.BProp {
			if len(post) > 0 {
				bprop[s%len(post)] = true
			}
		}
		deliver := func(h bc.Hash) {
			blk := w.Blocks[h]
			x.honest[h] = blk
			if _, err := a.Process(blk); err != nil {
				r.Count("contained.block_rejected", 1)
			}
		}
		forwardToB := func(h bc.Hash, ch int) {
			got, err := c03RecvBlock(c03SendBlock(w.Blocks[h], ch))
			if err != nil {
				harness("receiver cannot decode an honest block: %v", err)
			}
			if got.Hash() != h {
				r.Violate("id-moved-by-wire", "block", "honest block %s has another hash after crossing the wire", w.name(h))
				return
			}
			if _, err := b.Process(got); err != nil {
				r.Count("contained.block_rejected", 1)
			}
		}
		for i, pr := range prods {
			if r.Failed() {
				return
			}
			s := i - warm
			if s >= 0 {
				// the transactions offered for this block travel first
				for _, tx := range pr.Txs {
					a.SubmitTx(tx)
					x.relayTxToB(tx, txMuts[s][tx.ID])
					if r.Failed() {
						return
					}
				}
				parent := w.Blocks[pr.Hash].PreviousBlockHash
				if bprop[s] && len(x.bPooled) > 0 && b.Best() == parent {
					if res := x.proposeOnB(parent, w.Blocks[pr.Hash].Timestamp); res != nil && res.Block != nil && res.FeedErr == nil && !res.FeedOrphan {
						bh := res.Block.Hash()
						_, dup := w.Blocks[bh]
						if dup {
							// B's side reproduced an honest block bit for bit, or (if an id fails to
							// commit to content) a different block under the same hash: B gets its own
							if bh == pr.Hash {
								r.Count("probe.bside_reproduced_same_hash", 1)
							}
							x.honest[bh] = w.Blocks[bh]
							b.Process(res.Block)
						} else {
							w.Admit(res)
							r.Count("probe.bside_new_block", 1)
							deliver(bh)
							forwardToB(bh, i)
						}
						r.Tracef("B-side proposer builds %s with %d txs (known=%v)", w.name(bh), len(res.Block.Transactions)-1, dup)
						r.Count("probe.bside_proposals", 1)
					}
				}
			}
			var first, later []*C03Mut
			if s >= 0 {
				for _, m := range blkMuts[s] {
					if m.First {
						first = append(first, m)
					} else {
						later = append(later, m)
					}
				}
			}
			x.honest[pr.Hash] = w.Blocks[pr.Hash]
			for _, m := range first {
				x.relayBlockToB(w.Blocks[pr.Hash], m)
				if r.Failed() {
					return
				}
			}
			deliver(pr.Hash)
			forwardToB(pr.Hash, i)
			for _, m := range later {
				x.relayBlockToB(w.Blocks[pr.Hash], m)
				if r.Failed() {
					return
				}
			}
			x.bPooled = nil
			if r.Failed() {
				return
			}
			if !x.checkStoredTwin(pr.Hash, "delivery", "after "+w.name(pr.Hash)) {
				return
			}
			if s >= 0 || i%6 == 0 {
				x.agreement("after "+w.name(pr.Hash), false)
			}
		}
		// what is on the disks (a restart would read exactly this)
		x.agreement("at the end, from disk", true)
		r.SimTime(msDur(nowMs() - start))
		if !r.Failed() && x.crossed > 0 && x.agreed > 0 {
			r.NonTrivial()
		}
	})
}

// SpecC03: identity commits to all consensus content.
func SpecC03() simkit.Spec {
	faults := []string{"fault.relay_consensus_mutation", "fault.relay_witness_mutation", "fault.relay_block_consensus_mutation", "fault.relay_block_twin"}
	for _, f := range c03TxCatalogue {
		faults = append(faults, "fault.relay."+f.Name)
	}
	for _, f := range c03BlockFields {
		faults = append(faults, "fault.relay."+f)
	}
	comps := map[string]string{}
	for k, v := range nodeComponents {
		comps[k] = v
	}
	comps["network / netsync reactors"] = "wire seam real (messages.NewTransactionMessage / NewBlockMessage / NewMinedBlockMessage, consensusmgr.NewBlockProposeMsg, go-wire framing, the reactors' decodeMessage through the verif hook, Get*()); transport, peers and gossip policy are a stub: the harness hands the decoded value to Chain.ProcessBlock / ValidateTx as the reactors do"
	return simkit.Spec{
		Prop: "C03", Gen: genC03, NewPlan: func() any { return &C03Plan{} }, Exec: execC03,
		Rule: "a block tree with pay/vote/veto/retire/issue/chained transactions is built by real proposers; node A receives every transaction and block unchanged; every message to node B crosses the real wire encoding and a Byzantine relay that, for drawn messages, decodes, changes exactly one catalogue field (transaction: version, time range, each spend/veto commitment field, issuance nonce/amount/definition/program, coinbase data, each output asset/amount/program/state/vote key/type, input order, output order; witness-only: arguments; block: version, height, previous hash, timestamp, merkle root, one transaction replaced with and without a recomputed root; witness-only: block signature, verification links, a transaction's arguments), re-encodes and forwards before or after the original; transactions go to B's mempool and at drawn steps a proposer sharing B's state and mempool builds the block. Oracles: the id/hash B computes after its own decode differs from the original's for consensus changes and equals it for witness-only changes; a copy with a garbage or missing block signature or a foreign body is refused when B lacks the honest block and never replaces it; whenever A and B report the same best hash every main-chain block read back from each store has identical catalogue content and the unspent status and type of every output ever created (and the recorded creation height of coinbase and vote outputs) agree. Non-trivial = at least one changed message crossed and at least one agreement check ran; distinct = hash of the trace",
		Components:  comps,
		FaultKinds:  faults,
		Probes:      []string{"probe.agreement_checked", "probe.twin_refused", "probe.twin_after_original", "probe.bside_proposals", "probe.bside_reproduced_same_hash", "probe.mutated_tx_pooled_by_B", "probe.mutated_block_stored_by_B", "mutation.not_applicable"},
		Assumptions: []string{"one changed field per message; the catalogue is hand-enumerated from the wire format (asset version and VM version are left alone: other values do not decode)", "the relay holds no signing key: it cannot re-sign what it changes", "hashing and ed25519 are the trusted base"},
	}
}

var _ = model.Normal
