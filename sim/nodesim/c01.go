package nodesim

import (
	"fmt"
	"math"
	"math/big"
	"sort"
	"strings"
	"testing"

	"golang.org/x/crypto/sha3"
	"pgregory.net/rapid"

	"github.com/bytom/bytom/consensus"
	"github.com/bytom/bytom/protocol"
	"github.com/bytom/bytom/protocol/bc"
	"github.com/bytom/bytom/protocol/bc/types"

	"verif/sim/model"
	"verif/sim/simkit"
)

// C01 — validated transactions conserve value and report the true fee.
//
// Clients and a Byzantine submitter build transactions of every input kind
// (spend, issuance, veto, and a smuggled coinbase input) and output kind
// (original, vote, retirement) over 1-4 assets with amounts from boundary
// classes, plus single-field mutations of valid ones. They go to a real node's
// mempool and, inside validly signed Byzantine blocks, to its block validation.
// The oracle is evaluated on what the node admitted (pool entries, recorded fee)
// and connected (main-chain blocks): an independent math/big account.

func sha3sum(b []byte) [32]byte { return sha3.Sum256(b) }

// C01In / C01Out / C01Tx: one abstract transaction request.
type C01In struct {
	Kind  string `json:"k"` // btm | asset | issue | veto
	A     int    `json:"a,omitempty"`
	Asset int    `json:"as,omitempty"`
	Class int    `json:"c,omitempty"`
}

type C01Out struct {
	Kind  string `json:"k"` // orig | vote | retire
	Asset int    `json:"as,omitempty"` // 0 = BTM, k = k-th issued asset
	To    int    `json:"to,omitempty"`
	W     int    `json:"w,omitempty"`
}

type C01Tx struct {
	Shape string   `json:"shape"`
	Ins   []C01In  `json:"ins"`
	Outs  []C01Out `json:"outs"`
	Mut   string   `json:"mut,omitempty"`
	MA    int      `json:"ma,omitempty"`
	MB    int      `json:"mb,omitempty"`
	Via   int      `json:"via,omitempty"`   // 0 mempool, 1 Byzantine block, 2 mempool then Byzantine block
	Fresh bool     `json:"fresh,omitempty"` // may spend outputs of pooled, unconfirmed transactions
}

type C01Op struct {
	Kind string `json:"k"` // tx | mine
	Tx   *C01Tx `json:"tx,omitempty"`
}

type C01Plan struct {
	Cfg    WorldCfg `json:"cfg"`
	Warm   int      `json:"warm"`
	Assets int      `json:"assets"`
	Ops    []C01Op  `json:"ops"`
}

var c01Classes = []uint64{1, 7, 1000, 1<<31 - 1, 1 << 31, 1<<31 + 1, 1<<32 - 1, 1 << 32, 1<<32 + 1,
	1 << 62, 1<<62 + 1, 1<<63 - 2, 1<<63 - 1, 1 << 63, 1<<63 + 1, math.MaxUint64}

var c01Shapes = []string{"balanced", "balanced", "balanced", "balanced", "max63", "sum63m1", "sum63", "over63",
	"wrap-in", "wrap-out", "wrap-out-btm", "big-out", "big-in", "big-out-btm"}

var c01Muts = []string{"", "", "", "out+1", "out-1", "in+1", "in-1", "claim+1", "asset-swap", "shift", "dup-input", "dup-input-plain",
	"zero-out", "retire+1", "vote+1", "vote-asset", "vote-small", "coinbase-in", "no-btm-in"}

func genC01Tx(rt *rapid.T, assets, i int) *C01Tx {
	// rapid favours small values: rotate by the op index so that every shape and mutation is reached evenly
	tx := &C01Tx{Shape: c01Shapes[(rapid.IntRange(0, len(c01Shapes)-1).Draw(rt, "shape")+i*3)%len(c01Shapes)]}
	if tx.Shape == "balanced" {
		tx.Mut = c01Muts[(rapid.IntRange(0, len(c01Muts)-1).Draw(rt, "mut")+i*7)%len(c01Muts)]
	}
	tx.MA = rapid.IntRange(0, 7).Draw(rt, "ma")
	tx.MB = rapid.IntRange(0, 7).Draw(rt, "mb")
	tx.Via = rapid.SampledFrom([]int{0, 0, 0, 1, 2}).Draw(rt, "via")
	tx.Fresh = tx.Via == 0 && rapid.IntRange(0, 3).Draw(rt, "fresh") == 0
	nIn := rapid.IntRange(0, 4).Draw(rt, "nin")
	for i := 0; i < nIn; i++ {
		tx.Ins = append(tx.Ins, C01In{
			Kind:  rapid.SampledFrom([]string{"btm", "asset", "asset", "issue", "issue", "veto"}).Draw(rt, "ink"),
			A:     rapid.IntRange(0, 7).Draw(rt, "ina"),
			Asset: rapid.IntRange(1, assets).Draw(rt, "inasset"),
			Class: rapid.IntRange(0, len(c01Classes)-1).Draw(rt, "inclass"),
		})
	}
	nOut := rapid.IntRange(1, 6).Draw(rt, "nout")
	for i := 0; i < nOut; i++ {
		tx.Outs = append(tx.Outs, C01Out{
			Kind:  rapid.SampledFrom([]string{"orig", "orig", "orig", "vote", "retire"}).Draw(rt, "outk"),
			Asset: rapid.IntRange(0, assets).Draw(rt, "outasset"),
			To:    rapid.IntRange(0, 5).Draw(rt, "to"),
			W:     rapid.IntRange(1, 4).Draw(rt, "w"),
		})
	}
	return tx
}

func genC01(rt *rapid.T) any {
	cfg := GenCfg(rt, 2)
	cfg.VotePending = 2
	p := &C01Plan{Cfg: cfg, Warm: WarmupLen(cfg), Assets: rapid.IntRange(1, 4).Draw(rt, "assets")}
	// opening moves: put non-BTM assets and a vote output into circulation
	for k := 1; k <= p.Assets; k++ {
		p.Ops = append(p.Ops, C01Op{Kind: "tx", Tx: &C01Tx{Shape: "balanced", Fresh: true,
			Ins:  []C01In{{Kind: "issue", Asset: k, Class: rapid.SampledFrom([]int{2, 5, 8, 9, 9}).Draw(rt, "circ")}},
			Outs: []C01Out{{Kind: "orig", Asset: k, To: k, W: 1}, {Kind: "orig", Asset: k, To: k + 1, W: 2}}}})
	}
	p.Ops = append(p.Ops, C01Op{Kind: "tx", Tx: &C01Tx{Shape: "balanced", Fresh: true,
		Ins: []C01In{{Kind: "btm", A: 0}}, Outs: []C01Out{{Kind: "vote", To: 1, W: 1}, {Kind: "vote", To: 2, W: 1}}}})
	p.Ops = append(p.Ops, C01Op{Kind: "mine"}, C01Op{Kind: "mine"})
	n := rapid.IntRange(4, 18).Draw(rt, "nops")
	for i := 0; i < n; i++ {
		if rapid.IntRange(0, 4).Draw(rt, "mineq") == 0 {
			p.Ops = append(p.Ops, C01Op{Kind: "mine"})
			continue
		}
		p.Ops = append(p.Ops, C01Op{Kind: "tx", Tx: genC01Tx(rt, p.Assets, i)})
	}
	p.Ops = append(p.Ops, C01Op{Kind: "mine"})
	return p
}

// ---- the independent account -------------------------------------------------

type c01Account struct {
	in, out   map[bc.AssetID]*big.Int
	coinbase  bool
	dupInput  bool
	describe  string
	assetList []bc.AssetID
}

func assetLess(a, b bc.AssetID) bool { return a.String() < b.String() }

// c01Count sums the parsed inputs and outputs of tx per asset in exact arithmetic.
func c01Count(tx *types.Tx, name func(bc.AssetID) string) *c01Account {
	a := &c01Account{in: map[bc.AssetID]*big.Int{}, out: map[bc.AssetID]*big.Int{}}
	add := func(m map[bc.AssetID]*big.Int, id bc.AssetID, v uint64) {
		if m[id] == nil {
			m[id] = new(big.Int)
		}
		m[id].Add(m[id], new(big.Int).SetUint64(v))
	}
	var ins, outs []string
	spent := map[bc.Hash]bool{}
	noteSpent := func(inp *types.TxInput) {
		if id, err := inp.SpentOutputID(); err == nil {
			if spent[id] {
				a.dupInput = true
			}
			spent[id] = true
		}
	}
	for _, inp := range tx.Inputs {
		switch t := inp.TypedInput.(type) {
		case *types.SpendInput:
			add(a.in, *t.AssetId, t.Amount)
			noteSpent(inp)
			ins = append(ins, fmt.Sprintf("spend %s %d", name(*t.AssetId), t.Amount))
		case *types.VetoInput:
			add(a.in, *t.AssetId, t.Amount)
			noteSpent(inp)
			ins = append(ins, fmt.Sprintf("veto %s %d", name(*t.AssetId), t.Amount))
		case *types.IssuanceInput:
			add(a.in, t.AssetID(), t.Amount)
			ins = append(ins, fmt.Sprintf("issue %s %d", name(t.AssetID()), t.Amount))
		case *types.CoinbaseInput:
			a.coinbase = true
			ins = append(ins, "coinbase")
		default:
			ins = append(ins, fmt.Sprintf("%T", t))
		}
	}
	for _, o := range tx.Outputs {
		add(a.out, *o.AssetId, o.Amount)
		kind := "orig"
		if len(o.ControlProgram) > 0 && o.ControlProgram[0] == 0x6a {
			kind = "retire"
		} else if o.OutputType() == types.VoteOutputType {
			kind = "vote"
		}
		outs = append(outs, fmt.Sprintf("%s %s %d", kind, name(*o.AssetId), o.Amount))
	}
	seen := map[bc.AssetID]bool{}
	for id := range a.in {
		if !seen[id] {
			seen[id] = true
			a.assetList = append(a.assetList, id)
		}
	}
	for id := range a.out {
		if !seen[id] {
			seen[id] = true
			a.assetList = append(a.assetList, id)
		}
	}
	sort.Slice(a.assetList, func(i, j int) bool { return assetLess(a.assetList[i], a.assetList[j]) })
	a.describe = "in[" + strings.Join(ins, ", ") + "] out[" + strings.Join(outs, ", ") + "]"
	return a
}

func (a *c01Account) get(m map[bc.AssetID]*big.Int, id bc.AssetID) *big.Int {
	if v := m[id]; v != nil {
		return v
	}
	return new(big.Int)
}

// ---- building transactions ---------------------------------------------------

type c01OutDraft struct {
	kind  string
	asset bc.AssetID
	to    int
	w     int
	amt   uint64
}

type c01InDraft struct {
	src   *model.Out // nil for issuance / coinbase
	issue *types.TxInput
	asset bc.AssetID
	amt   uint64
	cb    bool
}

type c01Built struct {
	tx          *types.Tx
	expectValid bool
	label       string
}

type c01Env struct {
	*txEnv
	p       *C01Plan
	btm     bc.AssetID
	assets  []bc.AssetID // index k-1
	nonce   int
	nameOf  map[bc.AssetID]string
	rejects int
	admits  int
}

func (c *c01Env) assetName(id bc.AssetID) string {
	if n, ok := c.nameOf[id]; ok {
		return n
	}
	return "A?"
}

func (c *c01Env) issuance(k int, amount uint64) *types.TxInput {
	c.nonce++
	nonce := []byte(fmt.Sprintf("c01-%d", c.nonce))
	return types.NewIssuanceInput(nonce, amount, []byte{0x51}, nil, []byte(fmt.Sprintf("asset-%d", k)))
}

func (c *c01Env) assetIndex(id bc.AssetID) int {
	for i, a := range c.assets {
		if a == id {
			return i + 1
		}
	}
	return 1
}

// candidates lists outputs a client may spend now.
func (c *c01Env) candidates(fresh bool, taken map[bc.Hash]bool, pred func(o *model.Out) bool) []*model.Out {
	var outs []*model.Out
	for _, o := range c.confirmedOuts() {
		if !taken[o.ID] && pred(o) {
			outs = append(outs, o)
		}
	}
	if fresh {
		for _, o := range c.fresh {
			if !taken[o.ID] && !c.used[o.ID] && o.Kind == model.Normal && c.w.keyByProg[fmt.Sprintf("%x", o.Program)] != nil && pred(o) {
				outs = append(outs, o)
			}
		}
	}
	return outs
}

// build turns an abstract request into a concrete signed transaction.
func (c *c01Env) build(s *C01Tx) *c01Built {
	w := c.w
	btm := c.btm
	fresh := s.Fresh && s.Via == 0
	taken := map[bc.Hash]bool{}
	var ins []*c01InDraft
	addSpend := func(o *model.Out) {
		taken[o.ID] = true
		ins = append(ins, &c01InDraft{src: o, asset: o.Asset, amt: o.Amount})
	}
	addIssue := func(k int, amount uint64) {
		inp := c.issuance(k, amount)
		ins = append(ins, &c01InDraft{issue: inp, asset: inp.AssetID(), amt: amount})
	}
	// a BTM input pays the fee
	if cands := c.candidates(fresh, taken, func(o *model.Out) bool { return o.Asset == btm && o.Kind != model.Vote && o.Amount > 4000000 }); len(cands) > 0 {
		a := 0
		for _, in := range s.Ins {
			if in.Kind == "btm" {
				a = in.A
				break
			}
		}
		addSpend(cands[a%len(cands)])
	} else {
		return nil
	}
	first := true
	plainBase := s.Shape != "balanced" // boundary shapes sit on a minimal payment so that nothing else decides
	for _, in := range s.Ins {
		if len(ins) >= 8 || plainBase {
			break
		}
		switch in.Kind {
		case "btm":
			if first {
				first = false
				continue
			}
			if cands := c.candidates(fresh, taken, func(o *model.Out) bool { return o.Asset == btm && o.Kind != model.Vote }); len(cands) > 0 {
				addSpend(cands[in.A%len(cands)])
			}
		case "asset":
			want := c.assets[(in.Asset-1)%len(c.assets)]
			if cands := c.candidates(fresh, taken, func(o *model.Out) bool { return o.Asset == want }); len(cands) > 0 {
				addSpend(cands[in.A%len(cands)])
			} else if cands := c.candidates(fresh, taken, func(o *model.Out) bool { return o.Asset != btm }); len(cands) > 0 {
				addSpend(cands[in.A%len(cands)])
			} else {
				addIssue((in.Asset-1)%len(c.assets)+1, c01Classes[in.Class%len(c01Classes)])
			}
		case "issue":
			addIssue((in.Asset-1)%len(c.assets)+1, c01Classes[in.Class%len(c01Classes)])
		case "veto":
			if cands := c.candidates(false, taken, func(o *model.Out) bool { return o.Kind == model.Vote }); len(cands) > 0 {
				addSpend(cands[in.A%len(cands)])
			}
		}
	}
	// outputs
	var outs []*c01OutDraft
	for _, o := range s.Outs {
		if plainBase {
			break
		}
		asset := btm
		if o.Asset > 0 {
			asset = c.assets[(o.Asset-1)%len(c.assets)]
		}
		kind := o.Kind
		if kind == "vote" && asset != btm {
			kind = "orig"
		}
		outs = append(outs, &c01OutDraft{kind: kind, asset: asset, to: o.To, w: o.W})
	}
	// every output asset needs a source, every input asset a destination
	total := func(asset bc.AssetID) *big.Int {
		t := new(big.Int)
		for _, in := range ins {
			if in.asset == asset && !in.cb {
				t.Add(t, new(big.Int).SetUint64(in.amt))
			}
		}
		return t
	}
	for _, o := range outs {
		if total(o.asset).Sign() == 0 && o.asset != btm {
			addIssue(c.assetIndex(o.asset), c01Classes[(o.w*3+o.to)%10])
		}
	}
	for _, in := range ins {
		has := false
		for _, o := range outs {
			if o.asset == in.asset {
				has = true
			}
		}
		if !has {
			outs = append(outs, &c01OutDraft{kind: "orig", asset: in.asset, to: len(outs), w: 1})
		}
	}
	fee := 2*FeeFor(len(ins), len(outs)+3) + 1000000
	// fit the amounts per asset
	assetsInTx := map[bc.AssetID]bool{}
	var order []bc.AssetID
	for _, o := range outs {
		if !assetsInTx[o.asset] {
			assetsInTx[o.asset] = true
			order = append(order, o.asset)
		}
	}
	maxU := new(big.Int).SetUint64(math.MaxUint64)
	for _, asset := range order {
		avail := total(asset)
		if asset == btm {
			if avail.Cmp(new(big.Int).SetUint64(fee+uint64(len(outs)))) <= 0 {
				return nil
			}
			avail.Sub(avail, new(big.Int).SetUint64(fee))
		}
		var idx []int
		sumW := 0
		for i, o := range outs {
			if o.asset == asset {
				idx = append(idx, i)
				sumW += o.w
			}
		}
		left := new(big.Int).Set(avail)
		for n, i := range idx {
			share := new(big.Int)
			if n == len(idx)-1 {
				share.Set(left)
			} else {
				share.Mul(avail, big.NewInt(int64(outs[i].w)))
				share.Div(share, big.NewInt(int64(sumW)))
			}
			if share.Cmp(maxU) > 0 {
				share.Set(maxU)
			}
			left.Sub(left, share)
			outs[i].amt = share.Uint64()
			if outs[i].kind == "vote" && outs[i].amt < model.MinVoteOutput {
				outs[i].kind = "orig"
			}
		}
	}
	var kept []*c01OutDraft
	for _, o := range outs {
		if o.amt > 0 {
			kept = append(kept, o)
		}
	}
	outs = kept
	if len(outs) == 0 {
		return nil
	}
	// the non-BTM asset the boundary shapes play with
	x := c.assets[s.MA%len(c.assets)]
	for _, o := range outs {
		if o.asset != btm && s.MB%2 == 0 {
			x = o.asset
			break
		}
	}
	xk := c.assetIndex(x)
	const maxI = uint64(math.MaxInt64)
	addOut := func(asset bc.AssetID, amt uint64) {
		outs = append(outs, &c01OutDraft{kind: "orig", asset: asset, to: s.MB, amt: amt})
	}
	label := s.Shape
	switch s.Shape {
	case "max63":
		addIssue(xk, maxI)
		addOut(x, maxI)
	case "sum63m1":
		// only when nothing else of x moves, so that the total stays 2^63-1
		if total(x).Sign() != 0 {
			label = "balanced"
			break
		}
		addIssue(xk, 1<<62)
		addIssue(xk, 1<<62-1)
		addOut(x, 1<<62)
		addOut(x, 1<<62-1)
	case "sum63":
		addIssue(xk, 1<<62)
		addIssue(xk, 1<<62)
		addOut(x, 1<<62)
		addOut(x, 1<<62)
	case "over63":
		addIssue(xk, 1<<63)
		addOut(x, 1<<63)
	case "wrap-in":
		addIssue(xk, maxI)
		addIssue(xk, maxI)
		addIssue(xk, 2)
	case "wrap-out":
		addOut(x, maxI)
		addOut(x, maxI)
		addOut(x, 2)
	case "wrap-out-btm":
		addOut(btm, maxI)
		addOut(btm, maxI)
		addOut(btm, 2)
	case "big-out":
		addOut(x, math.MaxUint64)
		addOut(x, 1)
		if total(x).Sign() == 0 {
			addIssue(xk, 1)
			addOut(x, 1)
		}
	case "big-in":
		addIssue(xk, math.MaxUint64)
		addIssue(xk, 1)
	case "big-out-btm":
		addOut(btm, math.MaxUint64)
		addOut(btm, 1)
	}
	// single-field mutations of the balanced transaction
	pickOut := func(pred func(o *c01OutDraft) bool) *c01OutDraft {
		var c []*c01OutDraft
		for _, o := range outs {
			if pred(o) {
				c = append(c, o)
			}
		}
		if len(c) == 0 {
			return nil
		}
		return c[s.MA%len(c)]
	}
	anyOut := func(o *c01OutDraft) bool { return true }
	mut := s.Mut
	stillValid := false
	switch mut {
	case "":
	case "out+1":
		o := pickOut(anyOut)
		o.amt++
	case "out-1":
		o := pickOut(anyOut)
		if o.amt > 1 {
			o.amt--
			stillValid = o.asset == btm // a BTM output lowered by one only raises the fee
		} else {
			mut = ""
		}
	case "in+1", "in-1":
		var iss []*c01InDraft
		for _, in := range ins {
			if in.issue != nil {
				iss = append(iss, in)
			}
		}
		if len(iss) == 0 {
			addIssue(xk, 1+uint64(s.MB))
			mut = "in+1"
			break
		}
		in := iss[s.MA%len(iss)]
		d := in.amt + 1
		if mut == "in-1" {
			d = in.amt - 1
		}
		k := c.assetIndex(in.asset)
		in.issue = c.issuance(k, d)
		in.amt = d
	case "claim+1":
		// a spend that claims one unit more than the output it names holds, passed on to an output
		in := ins[s.MA%len(ins)]
		if in.src == nil {
			in = ins[0]
		}
		cp := *in.src
		cp.Amount++
		in.src, in.amt = &cp, cp.Amount
		if o := pickOut(func(o *c01OutDraft) bool { return o.asset == in.asset }); o != nil {
			o.amt++
		}
	case "asset-swap":
		o := pickOut(anyOut)
		if o.asset == btm {
			o.asset = x
		} else if s.MB%2 == 0 || len(c.assets) == 1 {
			o.asset = btm
		} else {
			o.asset = c.assets[(c.assetIndex(o.asset))%len(c.assets)]
		}
		if o.kind == "vote" {
			o.kind = "orig"
		}
	case "shift":
		a := pickOut(anyOut)
		b := pickOut(func(o *c01OutDraft) bool { return o.asset != a.asset })
		d := uint64(1 + s.MB)
		if b == nil || a.amt <= d {
			a.amt++
			mut = "out+1"
			break
		}
		a.amt -= d
		b.amt += d
	case "dup-input", "dup-input-plain":
		var sp []*c01InDraft
		for _, in := range ins {
			if in.src != nil {
				sp = append(sp, in)
			}
		}
		in := sp[s.MA%len(sp)]
		ins = append(ins, &c01InDraft{src: in.src, asset: in.asset, amt: in.amt})
		if mut == "dup-input" {
			if o := pickOut(func(o *c01OutDraft) bool { return o.asset == in.asset && o.amt < maxI-in.amt }); o != nil {
				o.amt += in.amt
			}
		}
	case "zero-out":
		asset := btm
		if s.MB%2 == 1 {
			asset = x
		}
		outs = append(outs, &c01OutDraft{kind: "orig", asset: asset, to: s.MB})
	case "retire+1":
		o := pickOut(func(o *c01OutDraft) bool { return o.kind == "retire" })
		if o == nil {
			o = pickOut(anyOut)
			o.kind = "retire"
		}
		o.amt++
	case "vote+1":
		o := pickOut(func(o *c01OutDraft) bool { return o.kind == "vote" })
		if o == nil {
			o = pickOut(func(o *c01OutDraft) bool { return o.asset == btm && o.amt >= model.MinVoteOutput })
			if o == nil {
				o = pickOut(anyOut)
				mut = "out+1"
			} else {
				o.kind = "vote"
			}
		}
		o.amt++
	case "vote-asset":
		o := pickOut(func(o *c01OutDraft) bool { return o.asset != btm })
		if o == nil {
			mut = ""
			break
		}
		o.kind = "vote"
	case "vote-small":
		o := pickOut(func(o *c01OutDraft) bool { return o.asset == btm && o.amt < model.MinVoteOutput })
		if o == nil {
			mut = ""
			break
		}
		o.kind = "vote"
	case "coinbase-in":
		// first position: the mapping ties the coinbase entry to mux source 0, so anywhere else
		// the transaction is malformed for a reason that has nothing to do with value
		ins = append([]*c01InDraft{{cb: true}}, ins...)
		o := pickOut(func(o *c01OutDraft) bool { return o.asset == btm })
		if o == nil {
			outs = append(outs, &c01OutDraft{kind: "orig", asset: btm, to: s.MB, amt: 1000 + fee})
		} else {
			o.amt += 1000 + fee
		}
	case "no-btm-in":
		var ni []*c01InDraft
		for _, in := range ins {
			if in.asset != btm {
				ni = append(ni, in)
			}
		}
		var no []*c01OutDraft
		for _, o := range outs {
			if o.asset != btm {
				no = append(no, o)
			}
		}
		if len(ni) == 0 || len(no) == 0 {
			mut = ""
			break
		}
		ins, outs = ni, no
	}
	if mut != "" {
		label = "balanced/" + mut
	}
	// assemble
	data := types.TxData{Version: 1}
	for _, in := range ins {
		switch {
		case in.cb:
			data.Inputs = append(data.Inputs, types.NewCoinbaseInput([]byte{byte(s.MA), 1}))
		case in.issue != nil:
			data.Inputs = append(data.Inputs, in.issue)
		default:
			data.Inputs = append(data.Inputs, InputFor(in.src))
		}
	}
	for _, o := range outs {
		key := w.Keys[o.to%len(w.Keys)]
		asset := o.asset
		switch o.kind {
		case "vote":
			cand := w.Keys[(o.to+1)%len(w.Keys)]
			data.Outputs = append(data.Outputs, types.NewVoteOutput(asset, o.amt, key.Program, cand.Xpub[:], nil))
		case "retire":
			data.Outputs = append(data.Outputs, types.NewOriginalTxOutput(asset, o.amt, []byte{0x6a}, nil))
		default:
			data.Outputs = append(data.Outputs, types.NewOriginalTxOutput(asset, o.amt, key.Program, nil))
		}
	}
	tx := types.NewTx(data)
	w.SignTx(tx)
	if _, err := tx.TxData.MarshalText(); err != nil {
		// an amount of 2^63 or more has no wire encoding: such a transaction cannot reach a node
		c.r.Count("tx.not_encodable."+label, 1)
		return nil
	}
	tx = resize(tx)
	w.SignTx(tx)
	// what the client is sure of: a plainly valid transaction
	b := &c01Built{tx: tx, label: label}
	if (mut == "" || stillValid) && (label == "balanced" || label == "max63" || label == "sum63m1" || stillValid) {
		b.expectValid = c.plainlyValid(tx)
	}
	return b
}

// plainlyValid restates the documented acceptance conditions a client relies on:
// amounts and per-asset totals below 2^63, exact balance of non-BTM assets, a
// generous BTM fee, no zero outputs, votes in BTM of at least the minimum.
func (c *c01Env) plainlyValid(tx *types.Tx) bool {
	a := c01Count(tx, c.assetName)
	lim := new(big.Int).SetUint64(math.MaxInt64)
	if a.coinbase || a.dupInput {
		return false
	}
	for _, id := range a.assetList {
		in, out := a.get(a.in, id), a.get(a.out, id)
		if in.Cmp(lim) > 0 || out.Cmp(lim) > 0 {
			return false
		}
		if id == c.btm {
			fee := new(big.Int).Sub(in, out)
			if fee.Cmp(new(big.Int).SetUint64(FeeFor(len(tx.Inputs), len(tx.Outputs)))) < 0 {
				return false
			}
		} else if in.Cmp(out) != 0 {
			return false
		}
	}
	if a.get(a.in, c.btm).Sign() == 0 {
		return false
	}
	for _, o := range tx.Outputs {
		if o.Amount == 0 {
			return false
		}
		if o.OutputType() == types.VoteOutputType && (*o.AssetId != c.btm || o.Amount < model.MinVoteOutput) {
			return false
		}
	}
	return true
}

// ---- oracles -------------------------------------------------------------------

// judge applies the statement to one transaction the node admitted or connected.
// poolFee < 0: not a pool entry.
func (c *c01Env) judge(where, ctx string, tx *types.Tx, coinbasePos bool, poolFee *uint64) {
	r := c.r
	a := c01Count(tx, c.assetName)
	r.Count("probe.judged_"+where, 1)
	for _, id := range a.assetList {
		in, out := a.get(a.in, id), a.get(a.out, id)
		if id == c.btm {
			continue
		}
		if in.Cmp(out) != 0 {
			r.Violate("asset-not-conserved", where, "after %s: the node %s a transaction in which asset %s has %s units in and %s out: %s",
				ctx, map[string]string{"pool": "admitted to its pool", "chain": "has on its main chain"}[where], c.assetName(id), in, out, a.describe)
			return
		}
	}
	if coinbasePos {
		return // the coinbase creates BTM by definition; its amount rule is another property
	}
	in, out := a.get(a.in, c.btm), a.get(a.out, c.btm)
	if a.coinbase {
		r.Violate("coinbase-input-outside-coinbase", where, "after %s: the node %s a transaction that is not the block's first and has a coinbase input: %s",
			ctx, map[string]string{"pool": "admitted to its pool", "chain": "has on its main chain"}[where], a.describe)
		return
	}
	if in.Cmp(out) < 0 {
		r.Violate("btm-created", where, "after %s: BTM in %s < BTM out %s in a transaction the node accepted (%s): %s", ctx, in, out, where, a.describe)
		return
	}
	if a.dupInput {
		r.Violate("input-counted-twice", where, "after %s: an accepted transaction (%s) names the same output in two inputs: %s", ctx, where, a.describe)
		return
	}
	diff := new(big.Int).Sub(in, out)
	own := new(big.Int).SetUint64(tx.TxData.Fee())
	if own.Cmp(diff) != 0 {
		r.Violate("fee-mismatch", where+"/own", "after %s: the transaction's own fee computation says %s, BTM in - out = %s: %s", ctx, own, diff, a.describe)
		return
	}
	if poolFee != nil {
		if pf := new(big.Int).SetUint64(*poolFee); pf.Cmp(diff) != 0 {
			r.Violate("fee-mismatch", where+"/validator", "after %s: the pool recorded fee %s (reported by validation), BTM in - out = %s: %s", ctx, pf, diff, a.describe)
			return
		}
	}
}

func execC01(t *testing.T, plan any, r *simkit.Run) {
	p := plan.(*C01Plan)
	Bubble(t, func() {
		w := NewWorld(t, r, p.Cfg)
		start := nowMs()
		w.ProduceTree(&TreePlan{Cfg: p.Cfg, Warm: p.Warm}, Oracles{})
		if r.Failed() || len(w.Order) < p.Warm+1 {
			return
		}
		env := newTxEnv(w, r)
		if env.aborted {
			return
		}
		c := &c01Env{txEnv: env, p: p, btm: *consensus.BTMAssetID, nameOf: map[bc.AssetID]string{*consensus.BTMAssetID: "BTM"}}
		for k := 1; k <= p.Assets; k++ {
			id := types.NewIssuanceInput([]byte{0}, 1, []byte{0x51}, nil, []byte(fmt.Sprintf("asset-%d", k))).AssetID()
			c.assets = append(c.assets, id)
			c.nameOf[id] = fmt.Sprintf("A%d", k)
		}
		env.onPool = func(ctx string, d *protocol.TxDesc) {
			fee := d.Fee
			c.judge("pool", ctx, d.Tx, false, &fee)
		}
		env.onChain = func(ctx string, pos int, tx *types.Tx) { c.judge("chain", ctx, tx, pos == 0, nil) }
		// fan the matured rewards out into working capital
		if !c.fanOut() {
			return
		}
		exotic := 0
		for i, op := range p.Ops {
			if r.Failed() || env.aborted {
				break
			}
			switch op.Kind {
			case "mine":
				blk := env.mine(fmt.Sprintf("mine#%d", i))
				if blk != nil {
					r.Tracef("mine h=%d txs=%d pending=%d", blk.Height, len(blk.Transactions)-1, len(env.pending))
				}
			case "tx":
				b := c.build(op.Tx)
				if b == nil {
					r.Count("op.not_constructible", 1)
					continue
				}
				r.Count("tx.built."+b.label, 1)
				ctx := "submit " + b.label
				poolRes, blockRes := "-", "-"
				if op.Tx.Via != 1 {
					admitted, err := env.submit(ctx, b.tx)
					poolRes = map[bool]string{true: "admitted", false: "refused"}[admitted]
					if r.Failed() {
						break
					}
					if admitted {
						c.admits++
						r.Count("tx.pool_admitted", 1)
					} else {
						c.rejects++
						r.Count("tx.pool_refused", 1)
					}
					if b.expectValid && !admitted {
						a := c01Count(b.tx, c.assetName)
						r.Violate("valid-rejected", "pool/"+b.label, "a plainly valid transaction (balanced, amounts below 2^63, generous fee) was refused by the mempool: %v: %s", err, a.describe)
						break
					}
					if !b.expectValid && admitted {
						r.Count("probe.exotic_admitted", 1)
					}
				}
				if op.Tx.Via >= 1 {
					wedged := env.poisoned()
					accepted, perr := env.offerByz("byzantine block with "+b.label, []*types.Tx{b.tx})
					blockRes = map[bool]string{true: "accepted", false: "refused"}[accepted]
					if r.Failed() {
						break
					}
					r.Count("fault.byzantine_block", 1)
					if accepted {
						c.admits++
					} else {
						c.rejects++
					}
					if b.expectValid && !accepted && wedged {
						r.Count("probe.valid_block_refused_while_wedged", 1)
					} else if b.expectValid && !accepted && !env.aborted {
						a := c01Count(b.tx, c.assetName)
						r.Violate("valid-rejected", "block/"+b.label, "a validly signed block carrying one plainly valid transaction was refused: %v: %s", perr, a.describe)
						break
					}
				}
				if !b.expectValid {
					exotic++
				}
				r.Tracef("tx %s via=%d nin=%d nout=%d expect=%v -> pool=%s block=%s", b.label, op.Tx.Via, len(b.tx.Inputs), len(b.tx.Outputs), b.expectValid, poolRes, blockRes)
			}
		}
		r.SimTime(msDur(nowMs() - start))
		if !r.Failed() && c.admits > 0 && c.rejects > 0 {
			r.NonTrivial()
		}
	})
}

// fanOut spends every matured reward into fourteen outputs, two of them large
// enough to fund votes, and mines the transaction.
func (c *c01Env) fanOut() bool {
	w, r := c.w, c.r
	var ins []*model.Out
	var total uint64
	for _, o := range c.confirmedOuts(model.Normal, model.Coinbase) {
		if o.Asset == c.btm && len(ins) < 6 {
			ins = append(ins, o)
			total += o.Amount
		}
	}
	fee := FeeFor(len(ins), 14)
	if len(ins) == 0 || total < 800000000+fee {
		r.Count("contained.no_capital", 1)
		return false
	}
	rest := total - fee
	var outs []*types.TxOutput
	big2 := uint64(2*model.MinVoteOutput + 20000000)
	for i := 0; i < 2; i++ {
		outs = append(outs, types.NewOriginalTxOutput(c.btm, big2, w.Keys[i%len(w.Keys)].Program, nil))
		rest -= big2
	}
	for i := 0; i < 12; i++ {
		amt := rest / uint64(12-i)
		rest -= amt
		outs = append(outs, types.NewOriginalTxOutput(c.btm, amt, w.Keys[(i+1)%len(w.Keys)].Program, nil))
	}
	tx := w.BuildTx(ins, outs, 0)
	admitted, err := c.submit("fan-out", tx)
	if r.Failed() {
		return false
	}
	if !admitted {
		a := c01Count(tx, c.assetName)
		r.Violate("valid-rejected", "pool/fan-out", "the fan-out payment was refused by the mempool: %v: %s", err, a.describe)
		return false
	}
	c.admits++
	return c.mine("fan-out") != nil
}

// SpecC01: validated transactions conserve value and report the true fee.
func SpecC01() simkit.Spec {
	var probes []string
	for _, s := range []string{"balanced", "max63", "sum63m1", "sum63", "over63", "wrap-in", "wrap-out", "wrap-out-btm", "big-out", "big-in", "big-out-btm"} {
		probes = append(probes, "tx.built."+s)
	}
	for _, m := range c01Muts {
		if m != "" {
			probes = append(probes, "tx.built.balanced/"+m)
		}
	}
	probes = append(probes, "tx.pool_admitted", "tx.pool_refused", "probe.judged_pool", "probe.judged_chain", "probe.exotic_admitted", "blocks.byzantine_accepted", "blocks.byzantine_offered", "txs.on_main_chain")
	return simkit.Spec{
		Prop: "C01", Gen: genC01, NewPlan: func() any { return &C01Plan{} }, Exec: execC01,
		Rule: "warm-up chain until epoch rewards mature; a victim node follows the chain; clients fan the rewards out, issue 1-4 assets (OP_TRUE issuance program) and vote, then 4-18 drawn requests: transactions with spend / issuance / veto inputs and original / vote / retirement outputs, amounts fitted to balance, " +
			"boundary shapes (one amount or a per-asset sum of 2^63-1, 2^63, 2^63+..., 2^64-1, totals that are equal only modulo 2^64 on the input side, the output side, in BTM) and single-field mutations of balanced ones (amount +-1 on either side, asset swapped, value shifted between assets, duplicated input, claimed input amount, zero output, retirement / vote amount, vote in another asset, smuggled coinbase input, no BTM input), " +
			"each submitted to the victim's mempool, embedded alone in a validly signed Byzantine block offered to the victim, or both; honest proposers mine what the pool admitted. Oracle on every pool entry and every transaction of every block the victim connects: exact math/big account of parsed inputs and outputs per asset (non-BTM equal, BTM in >= out, no output named twice, no coinbase input outside the coinbase), pool's recorded fee = BTM difference = TxData.Fee(); plainly valid transactions must be admitted and blocks carrying one must be accepted. " +
			"non-trivial = at least one admission and one refusal; distinct = hash of the trace",
		Components:  nodeComponents,
		FaultKinds:  []string{"fault.byzantine_block"},
		Probes:      probes,
		Assumptions: []string{"input space = the generator's shapes, not all transactions", "BTM totals near 2^63 are unreachable on the input side (supply is far below); they are reached for issued assets and on the BTM output side", "hashing trusted; signatures are always correct here (C02 attacks them)"},
	}
}
