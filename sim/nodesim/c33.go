package nodesim

import (
	"crypto/sha256"
	"fmt"
	"net"
	"strings"
	"testing"

	"github.com/tendermint/go-wire"
	"github.com/tendermint/tmlibs/flowrate"
	"pgregory.net/rapid"

	"github.com/bytom/bytom/consensus"
	"github.com/bytom/bytom/netsync/chainmgr"
	msgs "github.com/bytom/bytom/netsync/messages"
	"github.com/bytom/bytom/netsync/peers"
	"github.com/bytom/bytom/p2p"
	"github.com/bytom/bytom/protocol/bc"

	"verif/sim/model"
	"verif/sim/simdisk"
	"verif/sim/simkit"
)

// C33 — header and block sync responses are well-formed.
//
// A real node (chain, store, finality engine) receives a forking block tree in a
// drawn order, so it holds a main chain and side-chain blocks and reorganises
// while the run goes on. A real chainmgr.Manager (not started: only its message
// handlers run) sits on that chain. Between deliveries a Byzantine or lagging
// peer sends GetHeaders / GetBlocks / GetBlock requests as wire bytes; they are
// decoded and dispatched exactly as ProtocolReactor.Receive does, and whatever
// the handlers send back through the peer object is captured as wire bytes,
// decoded with the reactor's decoder and judged against the reference block tree.

// hash classes a request can name (interpreted against the node's state at request time)
const (
	hcMain    = "main"    // on the node's main chain
	hcBest    = "best"    // the node's best block
	hcGenesis = "genesis" //
	hcSide    = "side"    // stored by the node, not on its main chain
	hcUnknown = "unknown" // never produced
	hcPending = "pending" // produced, but not stored by the node (not delivered yet, or waiting as an orphan)
	hcDup     = "dup"     // repeats an earlier locator entry
)

// HashPick names one hash abstractly; Idx is taken modulo the size of the class.
type HashPick struct {
	Class string `json:"c"`
	Idx   int    `json:"i,omitempty"`
}

// SyncReq is one request of the peer.
type SyncReq struct {
	Kind string `json:"k"` // headers | blocks | block
	// Lagging: the locator is the one an honest peer whose tip is Tip would send
	// (its chain backwards with doubling steps); otherwise Loc is used as drawn.
	Lagging bool       `json:"lag,omitempty"`
	Tip     HashPick   `json:"tip,omitempty"`
	Loc     []HashPick `json:"loc,omitempty"`
	Stop    HashPick   `json:"stop"`
	SkipSel int        `json:"skip,omitempty"` // index into skipTable
	// GetBlock: by height (Height is taken modulo best height + 3; 58-63 select boundary heights up to 2^64-1) and/or by hash
	ByHeight bool `json:"byh,omitempty"`
	ByHash   bool `json:"byhash,omitempty"`
	Height   int  `json:"h,omitempty"`
}

// skipTable: 0, 1, small values, then the boundary values of a 64-bit skip.
var skipTable = []uint64{0, 1, 2, 3, 5, 1 << 32, 1 << 63, ^uint64(0) - 1, ^uint64(0)}

func skipClass(s uint64) string {
	switch {
	case s == 0:
		return "skip=0"
	case s < 1<<32:
		return "skip=small"
	}
	return "skip=huge"
}

// C33Step: one delivery-phase action followed by requests.
type C33Step struct {
	Act  Act       `json:"act"`
	Reqs []SyncReq `json:"reqs,omitempty"`
}

// C33Plan is a tree plan, the delivery schedule with interleaved requests, and
// the per-run protocol maxima (0 = the production values).
type C33Plan struct {
	Tree       TreePlan  `json:"tree"`
	Steps      []C33Step `json:"steps"`
	Final      []SyncReq `json:"final,omitempty"`
	MaxBlocks  int       `json:"max_blocks,omitempty"`
	MaxHeaders int       `json:"max_headers,omitempty"`
}

func genPick(rt *rapid.T, classes []string, label string) HashPick {
	return HashPick{Class: rapid.SampledFrom(classes).Draw(rt, label), Idx: rapid.IntRange(0, 63).Draw(rt, label+"i")}
}

var locClasses = []string{hcMain, hcMain, hcMain, hcBest, hcGenesis, hcSide, hcSide, hcUnknown, hcPending, hcDup}
var stopClasses = []string{hcBest, hcMain, hcMain, hcSide, hcUnknown, hcGenesis, hcPending}

func genReq(rt *rapid.T) SyncReq {
	q := SyncReq{Kind: rapid.SampledFrom([]string{"headers", "headers", "blocks", "blocks", "block"}).Draw(rt, "reqkind")}
	if q.Kind == "block" {
		switch rapid.IntRange(0, 3).Draw(rt, "blockreq") {
		case 0:
			q.ByHeight = true
		case 1:
			q.ByHash = true
		case 2:
			q.ByHeight, q.ByHash = true, true
		}
		q.Height = rapid.IntRange(0, 63).Draw(rt, "height")
		q.Stop = genPick(rt, []string{hcMain, hcSide, hcBest, hcUnknown, hcPending, hcGenesis}, "blockhash")
		return q
	}
	if rapid.IntRange(0, 3).Draw(rt, "peer") == 0 {
		q.Lagging = true
		q.Tip = genPick(rt, []string{hcMain, hcSide, hcGenesis, hcBest}, "tip")
		q.Stop = genPick(rt, []string{hcBest, hcMain}, "lagstop")
	} else {
		n := rapid.IntRange(0, 6).Draw(rt, "nloc")
		for i := 0; i < n; i++ {
			q.Loc = append(q.Loc, genPick(rt, locClasses, "loc"))
		}
		q.Stop = genPick(rt, stopClasses, "stop")
	}
	if q.Kind == "headers" {
		q.SkipSel = rapid.IntRange(0, len(skipTable)-1).Draw(rt, "skip")
	}
	return q
}

func genReqs(rt *rapid.T) []SyncReq {
	var out []SyncReq
	for k := rapid.SampledFrom([]int{0, 0, 1, 1, 2, 3}).Draw(rt, "nreq"); k > 0; k-- {
		out = append(out, genReq(rt))
	}
	return out
}

func genC33(rt *rapid.T) any {
	cfg := GenCfg(rt, 2)
	p := &C33Plan{Tree: TreePlan{Cfg: cfg, Warm: WarmupLen(cfg), Steps: GenSteps(rt, 6, 22, 6, 1)}}
	n := p.Tree.Warm + len(p.Tree.Steps)
	for i, a := range GenActs(rt, n+n/4, 6, false) {
		st := C33Step{Act: a}
		if i >= p.Tree.Warm-4 { // the first part of the linear warm-up chain is delivered without requests
			st.Reqs = genReqs(rt)
		}
		p.Steps = append(p.Steps, st)
	}
	p.Final = append(genReqs(rt), genReq(rt))
	if rapid.IntRange(0, 2).Draw(rt, "smallmax") > 0 {
		p.MaxBlocks = rapid.IntRange(2, 9).Draw(rt, "maxblocks")
		p.MaxHeaders = rapid.IntRange(2, 9).Draw(rt, "maxheaders")
	}
	return p
}

// ---- the peer seen from the node, and the node seen from the peer --------------

// wirePeer is the connection-level peer object: what is sent through it is
// serialised with go-wire the way MConnection.TrySend does and kept as bytes.
type wirePeer struct {
	id   string
	sent [][]byte
}

func (p *wirePeer) Moniker() string                                     { return p.id }
func (p *wirePeer) Addr() net.Addr                                      { return &net.IPAddr{IP: net.ParseIP("10.0.0.33")} }
func (p *wirePeer) ID() string                                          { return p.id }
func (p *wirePeer) RemoteAddrHost() string                              { return "10.0.0.33" }
func (p *wirePeer) ServiceFlag() consensus.ServiceFlag                  { return consensus.SFFullNode }
func (p *wirePeer) TrafficStatus() (*flowrate.Status, *flowrate.Status) { return nil, nil }
func (p *wirePeer) IsLAN() bool                                         { return false }
func (p *wirePeer) TrySend(ch byte, msg interface{}) bool {
	if ch != msgs.BlockchainChannel {
		harness("C33: message on channel %#x", ch)
	}
	p.sent = append(p.sent, wire.BinaryBytes(msg))
	return true
}
func (p *wirePeer) take() [][]byte { s := p.sent; p.sent = nil; return s }

type noBan struct{}

func (noBan) StopPeerGracefully(string)         {}
func (noBan) IsBanned(string, byte, string) bool { return false }

// noSwitch is the p2p switch the Manager registers its reactor with; nothing is dialled.
type noSwitch struct{}

func (noSwitch) AddReactor(name string, r p2p.Reactor) p2p.Reactor { return r }
func (noSwitch) Start() error                                      { return nil }
func (noSwitch) Stop() error                                       { return nil }
func (noSwitch) IsListening() bool                                 { return false }
func (noSwitch) DialPeerWithAddress(*p2p.NetAddress) error         { return nil }
func (noSwitch) Peers() *p2p.PeerSet                               { return nil }

// syncSeam wires a node's chain to a real sync manager and a remote peer.
type syncSeam struct {
	w   *World
	o   *Observer
	mgr *chainmgr.Manager
	in  *wirePeer   // the remote peer as the node sees it: responses arrive here
	out *wirePeer   // the node as the remote peer sees it: requests are serialised here
	rem *peers.Peer // request builder of the remote side (real peers.Peer methods)
	responses int
}

func newSyncSeam(w *World, o *Observer) *syncSeam {
	n := o.N
	n.Activate()
	mgr, err := chainmgr.NewManager(n.cfg, noSwitch{}, n.Chain, n.Pool, n.Disp, peers.NewPeerSet(noBan{}), simdisk.New())
	if err != nil {
		harness("C33: NewManager: %v", err)
	}
	s := &syncSeam{w: w, o: o, mgr: mgr, in: &wirePeer{id: "remote"}, out: &wirePeer{id: "node"}}
	mgr.AddPeer(s.in)
	rs := peers.NewPeerSet(noBan{})
	rs.AddPeer(s.out)
	s.rem = rs.GetPeer("node")
	return s
}

func unknownHash(i int) bc.Hash {
	return bc.NewHash(sha256.Sum256([]byte(fmt.Sprintf("C33 unknown block %d", i))))
}

// view is the node's state at request time, in terms of the reference tree.
type view struct {
	best    *model.BlockState
	main    []*model.BlockState
	side    []bc.Hash // stored, not on the main chain (production order)
	pending []bc.Hash // produced, not stored
	stored  map[bc.Hash]bool
}

func (s *syncSeam) view() *view {
	w, n := s.w, s.o.N
	v := &view{best: w.Tree.Nodes[n.Best()], stored: map[bc.Hash]bool{}}
	if v.best == nil {
		harness("C33: best block unknown to the reference tree")
	}
	v.main = model.MainChain(v.best)
	for _, h := range w.Order {
		h := h
		if _, err := n.Store.GetBlockHeader(&h); err != nil {
			v.pending = append(v.pending, h)
			continue
		}
		v.stored[h] = true
		if !model.IsAncestor(w.Tree.Nodes[h], v.best) {
			v.side = append(v.side, h)
		}
	}
	return v
}

// resolve turns a pick into a hash and the class it actually has.
func (s *syncSeam) resolve(v *view, p HashPick, earlier []bc.Hash) (bc.Hash, string) {
	switch p.Class {
	case hcBest:
		return v.best.Hash, hcMain
	case hcGenesis:
		return v.main[0].Hash, hcMain
	case hcSide:
		if len(v.side) > 0 {
			return v.side[p.Idx%len(v.side)], hcSide
		}
	case hcPending:
		if len(v.pending) > 0 {
			return v.pending[p.Idx%len(v.pending)], hcPending
		}
	case hcDup:
		if len(earlier) > 0 {
			h := earlier[p.Idx%len(earlier)]
			return h, s.classOf(v, h)
		}
		return v.main[p.Idx%len(v.main)].Hash, hcMain
	case hcMain:
		return v.main[p.Idx%len(v.main)].Hash, hcMain
	}
	return unknownHash(p.Idx), hcUnknown
}

func (s *syncSeam) classOf(v *view, h bc.Hash) string {
	st := s.w.Tree.Nodes[h]
	switch {
	case st == nil:
		return hcUnknown
	case !v.stored[h]:
		return hcPending
	case model.IsAncestor(st, v.best):
		return hcMain
	}
	return hcSide
}

func (s *syncSeam) label(v *view, h bc.Hash) string {
	c := s.classOf(v, h)
	if c == hcUnknown {
		return "?"
	}
	return s.w.name(h) + ":" + c
}

// laggingLocator is the locator an honest peer whose best block is tip sends:
// its own chain backwards, step doubling after the ninth entry.
func (s *syncSeam) laggingLocator(tip *model.BlockState) []bc.Hash {
	var loc []bc.Hash
	step := uint64(1)
	for st := tip; st != nil; {
		loc = append(loc, st.Hash)
		if st.Height == 0 {
			break
		}
		if st.Height < step {
			st = model.Ancestor(st, 0)
		} else {
			st = model.Ancestor(st, st.Height-step)
		}
		if len(loc) >= 9 {
			step *= 2
		}
	}
	return loc
}

// Request sends one request and judges what comes back.
func (s *syncSeam) Request(q SyncReq) {
	w, r := s.w, s.w.R
	if r.Failed() {
		return
	}
	v := s.view()
	s.o.N.Activate()
	maxBlocks, maxHeaders := chainmgr.VerifSyncMaxima()

	if q.Kind == "block" {
		s.requestBlock(v, q)
		return
	}
	// ---- build the request
	var loc []bc.Hash
	if q.Lagging {
		tip, _ := s.resolve(v, q.Tip, nil)
		loc = s.laggingLocator(w.Tree.Nodes[tip])
		r.Count("reqs.lagging_peer", 1)
	} else {
		for _, p := range q.Loc {
			h, _ := s.resolve(v, p, loc)
			loc = append(loc, h)
		}
	}
	stop, stopClass := s.resolve(v, q.Stop, nil)
	skip := uint64(0)
	if q.Kind == "headers" {
		skip = skipTable[q.SkipSel%len(skipTable)]
	}
	ptrs := make([]*bc.Hash, len(loc))
	var names []string
	classes := map[string]bool{}
	seen := map[bc.Hash]bool{}
	descending := true
	lastH := ^uint64(0)
	for i := range loc {
		ptrs[i] = &loc[i]
		names = append(names, s.label(v, loc[i]))
		c := s.classOf(v, loc[i])
		classes[c] = true
		if seen[loc[i]] {
			classes[hcDup] = true
		}
		seen[loc[i]] = true
		if c == hcMain {
			if h := w.Tree.Nodes[loc[i]].Height; h > lastH {
				descending = false
			} else {
				lastH = h
			}
		}
	}
	for _, c := range []string{hcSide, hcUnknown, hcPending, hcDup} {
		if classes[c] {
			r.Count("reqs.locator_with_"+c, 1)
		}
	}
	if !descending {
		r.Count("reqs.locator_not_descending", 1)
	}
	r.Count("reqs.stop_"+stopClass, 1)
	if skip >= 1<<32 {
		r.Count("reqs.skip_huge", 1)
	}
	if q.Kind == "headers" {
		s.rem.GetHeaders(ptrs, &stop, skip)
	} else {
		s.rem.GetBlocks(ptrs, &stop)
	}
	raw := s.out.take()
	if len(raw) != 1 {
		harness("C33: request produced %d messages", len(raw))
	}
	// ---- the node receives the bytes
	if err := s.mgr.VerifReceive(s.in, raw[0]); err != nil {
		harness("C33: the node cannot decode a well-formed %s request: %v", q.Kind, err)
	}
	resp := s.in.take()
	r.Count("reqs."+q.Kind, 1)

	// ---- what the statement expects, from the reference tree
	want := v.main[0] // genesis
	found := false
	for _, h := range loc {
		if st := w.Tree.Nodes[h]; st != nil && v.stored[h] && model.IsAncestor(st, v.best) && (!found || st.Height > want.Height) {
			want, found = st, true
		}
	}
	order := "descending-locator"
	if !descending {
		order = "unordered-locator"
	}
	head := fmt.Sprintf("req %s loc=[%s] stop=%s skip=%d", q.Kind, strings.Join(names, " "), s.label(v, stop), skip)
	if len(resp) == 0 {
		r.Tracef("%s -> no response", head)
		r.Count("resp.none", 1)
		return
	}
	if len(resp) > 1 {
		r.Violate("several-responses", q.Kind, "%s: %d messages sent back", head, len(resp))
		return
	}
	// ---- decode the response as the requesting peer's reactor would
	_, msg, err := chainmgr.VerifDecodeMessage(resp[0])
	if err != nil {
		r.Violate("response-undecodable", q.Kind, "%s: response does not decode: %v", head, err)
		return
	}
	var items []bc.Hash
	max := maxHeaders
	switch m := msg.(type) {
	case *msgs.HeadersMessage:
		if q.Kind != "headers" {
			r.Violate("response-type", q.Kind, "%s: answered with %T", head, msg)
			return
		}
		hs, err := m.GetHeaders()
		if err != nil {
			r.Violate("response-undecodable", q.Kind, "%s: headers do not parse: %v", head, err)
			return
		}
		for _, h := range hs {
			items = append(items, h.Hash())
		}
	case *msgs.BlocksMessage:
		if q.Kind != "blocks" {
			r.Violate("response-type", q.Kind, "%s: answered with %T", head, msg)
			return
		}
		max = maxBlocks
		bs, err := m.GetBlocks()
		if err != nil {
			r.Violate("response-undecodable", q.Kind, "%s: blocks do not parse: %v", head, err)
			return
		}
		for _, b := range bs {
			items = append(items, b.Hash())
		}
	default:
		r.Violate("response-type", q.Kind, "%s: answered with %T", head, msg)
		return
	}
	var inames []string
	for _, h := range items {
		inames = append(inames, s.label(v, h))
	}
	if len(inames) > 70 {
		r.Tracef("%s -> %d items [%s …]", head, len(items), strings.Join(inames[:70], " "))
	} else {
		r.Tracef("%s -> %d items [%s]", head, len(items), strings.Join(inames, " "))
	}
	r.Count("resp."+q.Kind, 1)
	if len(items) == 0 {
		return
	}
	r.Count("resp.nonempty", 1)
	s.responses++
	shown := inames
	if len(shown) > 12 {
		shown = append(append([]string{}, inames[:12]...), fmt.Sprintf("… %d items in all", len(inames)))
	}
	ctx := fmt.Sprintf("%s (best %s height %d, maxima %d blocks / %d headers): response [%s]", head, w.name(v.best.Hash), v.best.Height, maxBlocks, maxHeaders, strings.Join(shown, " "))
	if uint64(len(items)) > max {
		r.Violate("too-many-items", q.Kind, "%s holds %d items, the protocol maximum is %d", ctx, len(items), max)
		return
	}
	if uint64(len(items)) == max {
		r.Count("probe.response_at_maximum", 1)
	}
	for i, h := range items {
		st := w.Tree.Nodes[h]
		if st == nil || !model.IsAncestor(st, v.best) {
			r.Violate("item-off-main-chain", q.Kind+"/"+s.classOf(v, h), "%s: item %d is not on the main chain", ctx, i)
			return
		}
		if i > 0 && st.Height <= w.Tree.Nodes[items[i-1]].Height {
			r.Violate("heights-not-increasing", q.Kind+"/"+skipClass(skip), "%s: item %d has height %d after height %d", ctx, i, st.Height, w.Tree.Nodes[items[i-1]].Height)
			return
		}
	}
	if items[0] != want.Hash {
		r.Violate("wrong-start", q.Kind+"/"+order, "%s starts at %s (height %d); the highest main-chain locator entry is %s (height %d; none = genesis)",
			ctx, s.label(v, items[0]), w.Tree.Nodes[items[0]].Height, w.name(want.Hash), want.Height)
		return
	}
	if found && want.Height > 0 {
		r.Count("probe.start_from_locator", 1)
	}
	if st := w.Tree.Nodes[stop]; st != nil && v.stored[stop] {
		if last := w.Tree.Nodes[items[len(items)-1]]; last.Height > st.Height {
			r.Violate("passes-stop", q.Kind+"/stop="+stopClass, "%s ends at height %d, beyond the stop block %s (height %d)", ctx, last.Height, s.label(v, stop), st.Height)
			return
		}
		if items[len(items)-1] == stop {
			r.Count("probe.ends_at_stop", 1)
		}
	}
}

// requestBlock: GetBlock by height and/or hash. The statement only asks that
// handling never panics; the answer, if any, must be the block asked for.
func (s *syncSeam) requestBlock(v *view, q SyncReq) {
	w, r := s.w, s.w.R
	m := &msgs.GetBlockMessage{}
	var hash bc.Hash
	hashClass := "none"
	if q.ByHeight {
		m.Height = uint64(q.Height) % (v.best.Height + 3)
		if q.Height >= 58 { // boundary heights far beyond the chain
			m.Height = []uint64{1 << 32, 1 << 63, ^uint64(0) - 1, ^uint64(0), v.best.Height + 1000, 1<<31 - 1}[q.Height-58]
			s.w.R.Count("reqs.block_height_huge", 1)
		}
	}
	if q.ByHash {
		hash, hashClass = s.resolve(v, q.Stop, nil)
		m.RawHash = hash.Byte32()
	}
	raw := wire.BinaryBytes(struct{ msgs.BlockchainMessage }{m})
	if err := s.mgr.VerifReceive(s.in, raw); err != nil {
		harness("C33: the node cannot decode a well-formed GetBlock request: %v", err)
	}
	r.Count("reqs.block", 1)
	resp := s.in.take()
	head := fmt.Sprintf("req block height=%d hash=%s", m.Height, hashClass)
	if len(resp) == 0 {
		r.Tracef("%s -> no response", head)
		return
	}
	_, msg, err := chainmgr.VerifDecodeMessage(resp[0])
	bm, ok := msg.(*msgs.BlockMessage)
	if err != nil || !ok || len(resp) != 1 {
		r.Violate("response-type", "block", "%s: %d messages, first %T, decode error %v", head, len(resp), msg, err)
		return
	}
	b, err := bm.GetBlock()
	if err != nil {
		r.Violate("response-undecodable", "block", "%s: block does not parse: %v", head, err)
		return
	}
	got := b.Hash()
	r.Tracef("%s -> %s", head, s.label(v, got))
	r.Count("resp.block", 1)
	byHeight := m.Height != 0 && m.Height <= v.best.Height && v.main[m.Height].Hash == got
	byHash := q.ByHash && got == hash
	if !byHeight && !byHash {
		r.Violate("wrong-block", "block", "%s: answered with %s, which is neither the main-chain block at that height nor the block with that hash", head, s.label(v, got))
	}
	_ = w
}

// deliverAct performs one delivery-phase action (Observer.Run without the final flush).
func deliverAct(o *Observer, a Act) {
	r := o.W.R
	switch a.Kind {
	case "blk":
		if len(o.remaining) == 0 {
			return
		}
		i := a.Pick % len(o.remaining)
		h := o.remaining[i]
		o.remaining = append(o.remaining[:i:i], o.remaining[i+1:]...)
		if i > 0 {
			r.Count("fault.reorder", 1)
		}
		o.Deliver(h, false)
	case "dup":
		var done []bc.Hash
		for _, h := range o.W.Order[1:] {
			if o.Delivered[h] {
				done = append(done, h)
			}
		}
		if len(done) == 0 {
			return
		}
		r.Count("fault.duplicate", 1)
		o.Deliver(done[a.Pick%len(done)], true)
	}
}

func execC33(t *testing.T, plan any, r *simkit.Run) {
	p := plan.(*C33Plan)
	Bubble(t, func() {
		w := NewWorld(t, r, p.Tree.Cfg)
		start := nowMs()
		prods := w.ProduceTree(&p.Tree, Oracles{})
		if r.Failed() {
			return
		}
		o := w.NewObserver(ObsOracles{}, prods)
		if o == nil {
			return
		}
		if p.MaxBlocks > 0 && p.MaxHeaders > 0 {
			defer chainmgr.VerifSetSyncMaxima(uint64(p.MaxBlocks), uint64(p.MaxHeaders))()
			r.Count("runs.small_maxima", 1)
		}
		s := newSyncSeam(w, o)
		for _, st := range p.Steps {
			if r.Failed() {
				return
			}
			deliverAct(o, st.Act)
			for _, q := range st.Reqs {
				s.Request(q)
			}
		}
		for len(o.remaining) > 0 && !r.Failed() {
			h := o.remaining[0]
			o.remaining = o.remaining[1:]
			o.Deliver(h, false)
			if len(o.remaining)%3 == 0 && len(p.Final) > 0 {
				s.Request(p.Final[len(o.remaining)/3%len(p.Final)])
			}
		}
		for _, q := range p.Final {
			s.Request(q)
		}
		r.SimTime(msDur(nowMs() - start))
		if !r.Failed() && o.reorgs > 0 && s.responses > 0 {
			r.NonTrivial()
		}
	})
}

// SpecC33: sync responses are well-formed.
func SpecC33() simkit.Spec {
	comps := map[string]string{}
	for k, v := range nodeComponents {
		comps[k] = v
	}
	comps["network / netsync reactors"] = "chainmgr.Manager real (NewManager, not started: message handlers only); ProtocolReactor.Receive reproduced by a 6-line hook (decodeMessage + processMsg) because it needs a concrete *p2p.Peer; peers.Peer / peers.PeerSet real over a connection-level peer object that serialises with go-wire and keeps the bytes; TCP, MConnection framing and the sync worker are not run"
	return simkit.Spec{
		Prop: "C33", Gen: genC33, NewPlan: func() any { return &C33Plan{} }, Exec: execC33,
		Rule: treeRule + "a real chainmgr.Manager serves the observed node's chain; after a delivery a remote peer sends 0-3 GetHeaders/GetBlocks/GetBlock requests as go-wire bytes (built by the real peers.Peer request methods): " +
			"locators of 0-6 entries drawn from {main chain, best, genesis, stored side-chain, produced-but-not-stored, never produced, duplicate} in any order, or the locator an honest lagging peer on a main/side-chain tip would send; stop hash of each class; " +
			"skip in {0,1,2,3,5,2^32,2^63,2^64-2,2^64-1}; in two thirds of the runs the two protocol maxima are lowered to 2-9 (hook) so that short chains reach them. " +
			"Oracle on the decoded response bytes, against the reference tree and the node's best block at that moment: at most the protocol maximum of items, every item an ancestor of best, heights strictly increasing, first item = highest locator entry that is an ancestor of best (none: genesis), last item not above a stop block the node stores; no panic. " +
			"non-trivial = the node reorganised at least once and at least one non-empty response was judged; distinct = hash of the full trace",
		Components: comps,
		FaultKinds: []string{"fault.reorder", "fault.duplicate", "reqs.locator_with_side", "reqs.locator_with_unknown", "reqs.locator_with_pending", "reqs.locator_with_dup", "reqs.locator_not_descending", "reqs.skip_huge", "reqs.stop_side", "reqs.stop_unknown", "reqs.stop_pending"},
		Probes:     []string{"probe.reorg", "probe.response_at_maximum", "probe.start_from_locator", "probe.ends_at_stop", "resp.headers", "resp.blocks", "resp.block", "resp.none", "reqs.lagging_peer"},
		Assumptions: []string{
			"an absent response (unknown or side-chain stop hash, stop below the start) is well-formed: the statement constrains responses that are sent",
			"the two protocol maxima are package variables of chainmgr; runs that lower them check that the handlers honour the configured maximum, the remaining runs use the production values (64 blocks, 1000 headers), which chains of at most ~45 blocks cannot exceed",
			"GetBlock has no locator: only absence of panics and identity of the returned block are judged",
		},
	}
}
