package nodesim

import (
	"fmt"
	"sort"
	"testing/synctest"
	"time"

	"github.com/bytom/bytom/proposal"
	"github.com/bytom/bytom/protocol"
	"github.com/bytom/bytom/protocol/bc"
	"github.com/bytom/bytom/protocol/bc/types"

	"verif/sim/model"
	"verif/sim/simkit"
)

// Shared scaffolding of the transaction-rule checks (C01, C02): one honest
// "victim" node follows a linear chain; clients and a Byzantine peer submit
// transactions to its mempool; honest proposers mine what the pool admitted; a
// Byzantine proposer (it owns the validator keys, so its blocks are validly
// signed for their slot) embeds arbitrary transactions in blocks offered to the
// victim. The oracles only look at what the victim exposes: pool contents and
// the blocks of its main chain.

type txEnv struct {
	w      *World
	r      *simkit.Run
	victim *Node
	tip    bc.Hash
	// pending: transactions the victim's pool admitted, in submission order, not yet mined.
	pending []*types.Tx
	// used: outputs spent by a transaction that was admitted to the victim's pool or mined.
	used map[bc.Hash]bool
	// fresh: outputs created by pooled (unconfirmed) transactions.
	fresh []*model.Out
	// onPool / onBlock are the property's oracles.
	onPool  func(ctx string, d *protocol.TxDesc)
	onChain func(ctx string, pos int, tx *types.Tx)
	aborted bool
	checked map[bc.Hash]bool // pool entries already judged (by tx id + witness hash)
	// poisonedAt: height at which the victim stored a Byzantine block it could not
	// attach (its transactions are individually valid, the block spends an output
	// that does not exist). Until the honest chain passes that height the victim's
	// fork choice may keep pointing at it and answer any sibling with an error: a
	// block-level matter (C13). While it lasts, a refused block says nothing about
	// the transaction it carries, so the "valid must be accepted" expectation for
	// blocks is suspended (and counted); every soundness oracle stays armed.
	poisonedAt uint64
}

// poisoned reports whether an unattachable stored sibling sits at the next height.
func (e *txEnv) poisoned() bool { return e.poisonedAt != 0 && e.poisonedAt == e.height()+1 }

func newTxEnv(w *World, r *simkit.Run) *txEnv {
	e := &txEnv{w: w, r: r, tip: w.Order[len(w.Order)-1], used: map[bc.Hash]bool{}, checked: map[bc.Hash]bool{}}
	snap := w.snaps[e.tip]
	if snap == nil {
		r.Count("contained.no_snapshot", 1)
		e.aborted = true
		return e
	}
	n, err := w.StartNode("victim", snap.Clone(), observerKey())
	if err != nil || n.Best() != e.tip {
		r.Count("contained.victim_restart", 1)
		e.aborted = true
		return e
	}
	synctest.Wait()
	e.victim = n
	return e
}

func (e *txEnv) state() *model.BlockState { return e.w.Tree.Nodes[e.tip] }
func (e *txEnv) height() uint64           { return e.state().Height }

// tick moves the virtual clock so that consecutive pool entries get distinct
// arrival times (the proposer orders by arrival time).
func tick() { time.Sleep(time.Millisecond) }

// poolDescs returns the victim's pool sorted by transaction id.
func (e *txEnv) poolDescs() []*protocol.TxDesc {
	ds := e.victim.Pool.GetTransactions()
	sort.Slice(ds, func(i, j int) bool { return ds[i].Tx.ID.String() < ds[j].Tx.ID.String() })
	return ds
}

func (e *txEnv) inPool(id bc.Hash) *protocol.TxDesc {
	d, err := e.victim.Pool.GetTransaction(&id)
	if err != nil {
		return nil
	}
	return d
}

// witnessKey identifies the exact bytes (witness included) of a transaction.
func witnessKey(tx *types.Tx) bc.Hash {
	raw, err := tx.TxData.MarshalText()
	if err != nil {
		harness("marshal tx: %v", err)
	}
	return bc.NewHash(sha3sum(raw))
}

// checkPool runs the property's pool oracle over every entry not judged yet.
func (e *txEnv) checkPool(ctx string) {
	if e.onPool == nil || e.r.Failed() {
		return
	}
	for _, d := range e.poolDescs() {
		k := witnessKey(d.Tx)
		if e.checked[k] {
			continue
		}
		e.checked[k] = true
		e.onPool(ctx, d)
		if e.r.Failed() {
			return
		}
	}
}

// submit offers tx to the victim's mempool and reports whether the pool holds a
// transaction with that id afterwards, and whether it is this very byte string.
func (e *txEnv) submit(ctx string, tx *types.Tx) (admitted bool, err error) {
	before := e.inPool(tx.ID) != nil
	_, err = e.victim.SubmitTx(tx)
	tick()
	d := e.inPool(tx.ID)
	admitted = d != nil && !before && witnessKey(d.Tx) == witnessKey(tx)
	if admitted {
		e.pending = append(e.pending, tx)
		e.noteSpent(tx)
		e.noteFresh(tx)
	}
	e.checkPool(ctx)
	return admitted, err
}

func (e *txEnv) noteSpent(tx *types.Tx) {
	for _, id := range tx.SpentOutputIDs {
		e.used[id] = true
	}
}

func (e *txEnv) noteFresh(tx *types.Tx) {
	for j, out := range tx.Outputs {
		if out.Amount == 0 || (len(out.ControlProgram) > 0 && out.ControlProgram[0] == 0x6a) {
			continue
		}
		f := &model.Out{ID: *tx.ResultIds[j], Kind: model.Normal, Asset: *out.AssetId, Amount: out.Amount,
			Program: out.ControlProgram, State: out.StateData, TxID: tx.ID, Pos: j}
		if out.OutputType() == types.VoteOutputType {
			f.Kind = model.Vote
			f.Vote = out.TypedOutput.(*types.VoteOutput).Vote
		}
		switch en := tx.Entries[*tx.ResultIds[j]].(type) {
		case *bc.OriginalOutput:
			f.SourceID, f.SourcePos = *en.Source.Ref, en.Source.Position
		case *bc.VoteOutput:
			f.SourceID, f.SourcePos = *en.Source.Ref, en.Source.Position
		}
		e.fresh = append(e.fresh, f)
	}
}

// proposeSpaced is World.Propose with distinct arrival times of the offered
// transactions in the builder's pool (so that the block content is a function of
// the plan and not of map iteration order).
func (e *txEnv) proposeSpaced(txs []*types.Tx) *ProposeResult {
	w := e.w
	res := &ProposeResult{}
	parent := e.tip
	pb := w.Blocks[parent]
	n, err := w.builderFor(parent)
	if err != nil {
		res.Err = err
		return res
	}
	res.Node = n
	ts := w.SlotTime(pb, 0)
	if ts > w.P.MaxOffsetMs {
		SleepUntilMs(ts - w.P.MaxOffsetMs + 1)
	}
	v, err := n.Chain.GetValidator(&parent, ts)
	if err != nil || v == nil {
		res.Err = fmt.Errorf("GetValidator: %v", err)
		return res
	}
	res.Validator = v.PubKey
	key := w.keyByPub[v.PubKey]
	if key == nil {
		res.Err = fmt.Errorf("scheduled validator %s is not a simulated key", v.PubKey)
		return res
	}
	n.SetKey(key)
	for _, tx := range txs {
		n.SubmitTx(tx)
		tick()
	}
	n.Activate()
	block, err := proposal.NewBlockTemplate(n.Chain, v, n.Acct, ts, time.Second, 2*time.Second)
	if err != nil {
		res.Err = err
		return res
	}
	res.Block = block
	res.FeedOrphan, res.FeedErr = n.Chain.ProcessBlock(block)
	synctest.Wait()
	return res
}

// mine lets the scheduled honest proposer build a block from the pending
// transactions, records it in the world and delivers it to the victim.
//
// A victim that holds an earlier Byzantine block of the same height whose
// transactions are individually valid but which cannot be attached (it spends an
// output that does not exist) may prefer that sibling, fail to attach it and
// answer the honest block with an error while keeping its old tip (a block-level
// matter, judged by C13). The honest chain then simply grows by another block,
// which makes it the longer one; if the victim follows, the run continues.
func (e *txEnv) mine(ctx string) *types.Block {
	w, r := e.w, e.r
	if e.aborted || r.Failed() {
		return nil
	}
	var first *types.Block
	var delivered []bc.Hash
	txs := e.pending
	for try := 0; try < 3; try++ {
		res := e.proposeSpaced(txs)
		if res.Err != nil || res.Block == nil || res.FeedErr != nil || res.FeedOrphan {
			r.Count("contained.cannot_mine", 1)
			e.aborted = true
			return nil
		}
		h := res.Block.Hash()
		st := w.Admit(res)
		if st.Invalid != nil {
			r.Count("contained.model_rejects", 1)
			e.aborted = true
			return nil
		}
		if first == nil {
			first = res.Block
		}
		_, err := e.victim.Process(res.Block)
		e.tip = h
		delivered = append(delivered, h)
		r.Count("blocks.honest", 1)
		if e.victim.Best() == h {
			for _, d := range delivered {
				e.afterBlock(ctx, d)
			}
			return first
		}
		if _, serr := e.victim.Store.GetBlockHeader(&h); serr != nil {
			_ = err // an honest block refused outright is a block-level matter (C12/C13): contained and counted here
			r.Count("contained.victim_rejects_honest_block", 1)
			e.aborted = true
			return nil
		}
		r.Count("probe.victim_prefers_unattachable_sibling", 1)
		txs = nil
	}
	r.Count("contained.victim_stuck", 1)
	e.aborted = true
	return nil
}

// afterBlock judges the block the victim now has at its tip and updates the
// client-side bookkeeping.
func (e *txEnv) afterBlock(ctx string, h bc.Hash) {
	blk, err := e.victim.Chain.GetBlockByHash(&h)
	if err != nil {
		harness("victim has best %s but cannot return it: %v", e.w.name(h), err)
	}
	mined := map[bc.Hash]bool{}
	for i, tx := range blk.Transactions {
		mined[tx.ID] = true
		if i > 0 {
			e.noteSpent(tx)
			e.r.Count("txs.on_main_chain", 1)
		}
		if e.onChain != nil && !e.r.Failed() {
			e.onChain(ctx, i, tx)
		}
	}
	var keep []*types.Tx
	for _, tx := range e.pending {
		if !mined[tx.ID] {
			keep = append(keep, tx)
		}
	}
	e.pending = keep
	var fr []*model.Out
	for _, f := range e.fresh {
		if !mined[f.TxID] {
			fr = append(fr, f)
		}
	}
	e.fresh = fr
	e.checkPool(ctx)
}

// offerByz builds a validly signed block on the tip that carries txs after the
// honest coinbase and offers it to the victim. accepted = it is the victim's
// best block afterwards (then the world continues on it).
func (e *txEnv) offerByz(ctx string, txs []*types.Tx) (accepted bool, perr error) {
	w, r := e.w, e.r
	if e.aborted || r.Failed() {
		return false, nil
	}
	base := e.proposeSpaced(nil)
	if base.Err != nil || base.Block == nil || base.FeedErr != nil {
		r.Count("contained.cannot_mine", 1)
		e.aborted = true
		return false, nil
	}
	b := copyBlock(base.Block)
	b.SupLinks = nil
	b.Transactions = append(b.Transactions, txs...)
	resign(b, w.keyByPub[base.Validator], false)
	h := b.Hash()
	_, perr = e.victim.Process(b)
	r.Count("blocks.byzantine_offered", 1)
	if e.victim.Best() != h {
		if _, serr := e.victim.Store.GetBlockHeader(&h); serr == nil {
			e.poisonedAt = b.Height
			r.Count("probe.byzantine_block_stored_unattached", 1)
		}
		return false, perr
	}
	r.Count("blocks.byzantine_accepted", 1)
	// the victim took it: judge it, then carry on on top of it
	e.tip = h
	if _, known := w.Blocks[h]; !known {
		st, err := w.Tree.Add(b)
		if err != nil {
			harness("%v", err)
		}
		w.Blocks[h] = b
		w.Order = append(w.Order, h)
		w.snaps[h] = e.victim.Disk.Clone()
		e.afterBlock(ctx, h)
		if st.Invalid != nil && !r.Failed() {
			r.Count("contained.model_rejects", 1)
			e.aborted = true
		}
	} else {
		e.afterBlock(ctx, h)
	}
	return true, perr
}

// confirmedOuts lists the simulated keys' outputs spendable in the next block
// that no admitted transaction spends yet.
func (e *txEnv) confirmedOuts(kinds ...model.OutKind) []*model.Out {
	var outs []*model.Out
	for _, o := range e.w.Spendable(e.state(), e.height()+1, kinds...) {
		if !e.used[o.ID] {
			outs = append(outs, o)
		}
	}
	return outs
}

// resize recomputes SerializedSize on the current (signed) form and re-maps.
func resize(tx *types.Tx) *types.Tx {
	raw, err := tx.TxData.MarshalText()
	if err != nil {
		harness("marshal tx: %v", err)
	}
	d := tx.TxData
	d.SerializedSize = uint64(len(raw) / 2)
	return types.NewTx(d)
}
