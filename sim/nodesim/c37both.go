package nodesim

import (
	"testing"

	"pgregory.net/rapid"

	"verif/sim/simkit"
)

// C37 runs in two modes from one instrumented, race-enabled binary:
//   - "free": real goroutines released together, scheduler inactive (the instrumented
//     packages then use the plain sync primitives), race detector + hang watchdog;
//   - "scheduled": the cooperative scheduler decides every interleaving from the plan's
//     tape, so a lock cycle is reported deterministically with its wait-for description.
type C37Both struct {
	Free  *C37Plan  `json:"free,omitempty"`
	Sched *C37dPlan `json:"sched,omitempty"`
}

func genC37Both(rt *rapid.T) any {
	if rapid.IntRange(0, 1).Draw(rt, "mode") == 0 {
		return &C37Both{Free: genC37(rt).(*C37Plan)}
	}
	return &C37Both{Sched: genC37d(rt).(*C37dPlan)}
}

func execC37Both(t *testing.T, plan any, r *simkit.Run) {
	p := plan.(*C37Both)
	if p.Sched != nil {
		r.Count("mode.scheduled", 1)
		execC37d(t, p.Sched, r)
		return
	}
	if p.Free != nil {
		r.Count("mode.free", 1)
		execC37(t, p.Free, r)
	}
}

// SpecC37Both is the registered C37 check.
func SpecC37Both() simkit.Spec {
	a, b := SpecC37(), SpecC37d()
	return simkit.Spec{
		ReplayAttempts: 8, Prop: "C37", Gen: genC37Both, NewPlan: func() any { return &C37Both{} }, Exec: execC37Both,
		Rule:        "half of the runs (free mode): " + a.Rule + " — the other half (scheduled mode): " + b.Rule,
		Components:  nodeComponents,
		Assumptions: a.Assumptions,
		Probes:      []string{"mode.free", "mode.scheduled", "concurrent.calls", "simrt.steps"},
	}
}
