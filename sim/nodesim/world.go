// Package nodesim runs whole Bytom nodes (real chain, Casper engine, mempool,
// store, proposer, validation and VM) inside one process under a simulated clock,
// simulated disk and simulated delivery, and checks the node-level properties
// against the reference models in verif/sim/model.
package nodesim

import (
	"encoding/hex"
	"encoding/json"
	"fmt"
	"io"
	"math"
	"os"
	"strings"
	"testing"
	"testing/synctest"
	"time"

	log "github.com/sirupsen/logrus"

	"github.com/bytom/bytom/account"
	"github.com/bytom/bytom/config"
	"github.com/bytom/bytom/consensus"
	"github.com/bytom/bytom/crypto"
	"github.com/bytom/bytom/crypto/ed25519/chainkd"
	"github.com/bytom/bytom/database"
	"github.com/bytom/bytom/event"
	"github.com/bytom/bytom/proposal"
	"github.com/bytom/bytom/protocol"
	"github.com/bytom/bytom/protocol/bc"
	"github.com/bytom/bytom/protocol/bc/types"
	"github.com/bytom/bytom/protocol/state"
	"github.com/bytom/bytom/protocol/vm/vmutil"

	"verif/sim/model"
	"verif/sim/simdisk"
	"verif/sim/simkit"
)

func init() {
	log.SetOutput(io.Discard)
	log.SetLevel(log.PanicLevel)
}

func harness(format string, args ...any) {
	fmt.Fprintf(os.Stderr, "nodesim: HARNESS: "+format+"\n", args...)
	os.Exit(2)
}

// Bubble runs f inside a synctest bubble; the end-of-bubble panic caused by the
// node's never-ending goroutines is swallowed, anything else is re-raised.
func Bubble(t *testing.T, f func()) {
	var inner any
	func() {
		defer func() {
			if p := recover(); p != nil {
				if strings.Contains(fmt.Sprint(p), "deadlock: main bubble goroutine has exited") {
					return
				}
				panic(p)
			}
		}()
		synctest.Test(t, func(t *testing.T) {
			defer func() {
				if p := recover(); p != nil {
					inner = simkit.Capture(p)
				}
			}()
			f()
		})
	}()
	if inner != nil {
		panic(inner)
	}
}

// Key is one simulated identity (validator and/or client).
type Key struct {
	Idx     int
	Xprv    chainkd.XPrv
	Xpub    chainkd.XPub
	PubHex  string // hex xpub: the validator identity
	PubKey  []byte // ed25519 public key used in P2WPKH witnesses
	Program []byte // P2WPKH program paying this key
}

func newKey(i int) *Key {
	xprv, err := chainkd.NewXPrv(strings.NewReader(fmt.Sprintf("verif simulated key %04d %s", i, strings.Repeat("x", 64))))
	if err != nil {
		harness("key: %v", err)
	}
	xpub := xprv.XPub()
	k := &Key{Idx: i, Xprv: xprv, Xpub: xpub, PubHex: xpub.String(), PubKey: xpub.PublicKey()}
	prog, err := vmutil.P2WPKHProgram(crypto.Ripemd160(k.PubKey))
	if err != nil {
		harness("program: %v", err)
	}
	k.Program = prog
	return k
}

// WorldCfg is the per-run configuration (drawn by the plan).
type WorldCfg struct {
	E           int    `json:"e"`            // blocks per epoch
	Validators  int    `json:"validators"`   // federation size
	ExtraKeys   int    `json:"extra_keys"`   // further client / candidate keys
	VotePending int    `json:"vote_pending"` // vote lock in blocks
	MinVotes    uint64 `json:"min_votes"`
}

// World is the shared context of a run.
type World struct {
	T    *testing.T
	R    *simkit.Run
	Cfg  WorldCfg
	P    model.Params
	Keys []*Key // first Cfg.Validators are the federation
	Tree *model.Tree

	Genesis *types.Block
	Blocks  map[bc.Hash]*types.Block
	Order   []bc.Hash // production order, genesis first
	// snaps[h] is a chain database whose best block is h.
	snaps     map[bc.Hash]*simdisk.Disk
	keyByProg map[string]*Key
	keyByPub  map[string]*Key
	nodes     int
	// Jitter (ms) is added to the timestamp of the next proposal and then reset.
	Jitter uint64
}

// nowMs is the virtual clock in milliseconds.
func nowMs() uint64 { return uint64(time.Now().UnixNano() / 1e6) }

// SleepUntilMs advances virtual time to ms (no-op if already later).
func SleepUntilMs(ms uint64) {
	if n := nowMs(); n < ms {
		time.Sleep(time.Duration(ms-n) * time.Millisecond)
	}
}

// NewWorld sets the process-wide network parameters and creates the genesis
// state. It must be called inside a bubble, before any node exists.
func NewWorld(t *testing.T, r *simkit.Run, cfg WorldCfg) *World {
	w := &World{T: t, R: r, Cfg: cfg, Blocks: map[bc.Hash]*types.Block{}, snaps: map[bc.Hash]*simdisk.Disk{},
		keyByProg: map[string]*Key{}, keyByPub: map[string]*Key{}}
	for i := 0; i < cfg.Validators+cfg.ExtraKeys; i++ {
		k := newKey(i)
		w.Keys = append(w.Keys, k)
		w.keyByProg[hex.EncodeToString(k.Program)] = k
		w.keyByPub[k.PubHex] = k
	}
	params := consensus.TestNetParams
	params.CasperConfig = consensus.CasperConfig{
		BlockTimeInterval:    6000,
		MaxTimeOffsetMs:      3000,
		BlocksOfEpoch:        uint64(cfg.E),
		MinValidatorVoteNum:  cfg.MinVotes,
		VotePendingBlockNums: []consensus.VotePendingBlockNum{{BeginBlock: 0, EndBlock: math.MaxUint64, Num: uint64(cfg.VotePending)}},
	}
	for _, k := range w.Keys[:cfg.Validators] {
		params.CasperConfig.FederationXpubs = append(params.CasperConfig.FederationXpubs, k.Xpub)
	}
	consensus.ActiveNetParams = params
	w.P = model.Params{E: uint64(cfg.E), IntervalMs: 6000, MaxOffsetMs: 3000, MinVotes: cfg.MinVotes,
		VotePending: uint64(cfg.VotePending), BTM: *consensus.BTMAssetID}
	for _, k := range w.Keys[:cfg.Validators] {
		w.P.Federation = append(w.P.Federation, k.PubHex)
	}
	w.Genesis = config.GenesisBlock()
	// The bubble clock starts in 2000; move to genesis time before anything with a ticker exists.
	SleepUntilMs(w.Genesis.Timestamp + 1000)
	w.Tree = model.NewTree(w.P, w.Genesis)
	gh := w.Genesis.Hash()
	w.Blocks[gh] = w.Genesis
	w.Order = append(w.Order, gh)
	return w
}

// Node is one real Bytom node.
type Node struct {
	W      *World
	Name   string
	Disk   *simdisk.Disk
	Wallet *simdisk.Disk
	Store  *database.Store
	Disp   *event.Dispatcher
	Pool   *protocol.TxPool
	Chain  *protocol.Chain
	Acct   *account.Manager
	Key    *Key
	cfg    *config.Config
}

// StartNode (re)starts a node from the given chain database. key is the node's
// validator identity (also its coinbase payee).
func (w *World) StartNode(name string, disk *simdisk.Disk, key *Key) (*Node, error) {
	n := &Node{W: w, Name: name, Disk: disk, Wallet: simdisk.New(), Key: key}
	n.cfg = config.DefaultConfig()
	xprv := key.Xprv
	n.cfg.XPrv = &xprv
	n.Activate()
	n.Store = database.NewStore(disk)
	n.Disp = event.NewDispatcher()
	n.Pool = protocol.NewTxPool(n.Store, n.Disp)
	chain, err := protocol.NewChain(n.Store, n.Pool, n.Disp)
	if err != nil {
		return nil, err
	}
	n.Chain = chain
	n.Acct = account.NewManager(n.Wallet, chain)
	n.setCoinbaseProgram(key.Program)
	w.nodes++
	return n, nil
}

// setCoinbaseProgram stores the mining address the way the account manager persists it.
func (n *Node) setCoinbaseProgram(prog []byte) {
	cp := &account.CtrlProgram{ControlProgram: prog}
	raw, err := json.Marshal(cp)
	if err != nil {
		harness("%v", err)
	}
	n.Wallet.Set([]byte("MiningAddress"), raw)
}

// Activate installs this node's process-global configuration (validator key).
// Exactly one node executes at a time in sequential mode.
func (n *Node) Activate() { config.CommonConfig = n.cfg }

// SetKey switches the node's validator identity.
func (n *Node) SetKey(k *Key) {
	n.Key = k
	xprv := k.Xprv
	n.cfg.XPrv = &xprv
	xpub := k.Xpub
	n.cfg.XPub = &xpub
	n.setCoinbaseProgram(k.Program)
}

// Process feeds a block to the node and waits for quiescence.
func (n *Node) Process(b *types.Block) (orphan bool, err error) {
	n.Activate()
	// the node owns (and mutates: suplinks) what it is given: hand it a private copy
	orphan, err = n.Chain.ProcessBlock(copyBlock(b))
	synctest.Wait()
	return
}

func copyBlock(b *types.Block) *types.Block {
	raw, err := b.MarshalText()
	if err != nil {
		harness("marshal block: %v", err)
	}
	nb := &types.Block{}
	if err := nb.UnmarshalText(raw); err != nil {
		harness("unmarshal block: %v", err)
	}
	return nb
}

// SubmitTx offers a transaction to the node's mempool.
func (n *Node) SubmitTx(tx *types.Tx) (bool, error) {
	n.Activate()
	// one virtual millisecond between submissions: the proposer orders pool
	// transactions by arrival time with an unstable sort over a map walk, so equal
	// arrival times would make block contents differ from run to run
	time.Sleep(time.Millisecond)
	orphan, err := n.Chain.ValidateTx(tx)
	synctest.Wait()
	return orphan, err
}

// Best returns the node's best block hash.
func (n *Node) Best() bc.Hash { return *n.Chain.BestBlockHash() }

// ProposeResult is what a proposal produced.
type ProposeResult struct {
	Block      *types.Block
	Node       *Node
	Validator  string // hex pubkey the node says is scheduled
	Err        error  // error from template building
	FeedErr    error  // error from feeding the block back (C38)
	FeedOrphan bool
}

// builderFor returns a transient node whose best block is parent.
func (w *World) builderFor(parent bc.Hash) (*Node, error) {
	snap, ok := w.snaps[parent]
	if !ok {
		return nil, fmt.Errorf("no snapshot with best %s", parent.String())
	}
	n, err := w.StartNode(fmt.Sprintf("builder%d", w.nodes), snap.Clone(), w.Keys[0])
	if err != nil {
		return nil, fmt.Errorf("builder restart from snapshot of %s: %v", parent.String(), err)
	}
	if n.Best() != parent {
		return nil, fmt.Errorf("builder restarted from snapshot of %s has best %s", parent.String(), hs(n.Best()))
	}
	return n, nil
}

// SlotTime returns the timestamp of the k-th slot after parent (k >= 0).
func (w *World) SlotTime(parent *types.Block, k int) uint64 {
	return parent.Timestamp + w.P.IntervalMs*uint64(1+k)
}

// Propose builds a block on parent at slot k with the real proposer of a node
// whose best block is parent, after offering txs to that node's mempool, and feeds
// it back to that node. asKey overrides the signing identity (nil = the
// validator the node itself reports as scheduled).
func (w *World) Propose(parent bc.Hash, k int, txs []*types.Tx, asKey *Key) *ProposeResult {
	res := &ProposeResult{}
	pb := w.Blocks[parent]
	n, err := w.builderFor(parent)
	if err != nil {
		res.Err = err
		return res
	}
	res.Node = n
	ts := w.SlotTime(pb, k) + w.Jitter // Jitter: a legal timestamp inside the slot, not on the slot grid
	w.Jitter = 0
	if ts > w.P.MaxOffsetMs {
		SleepUntilMs(ts - w.P.MaxOffsetMs + 1)
	}
	v, err := n.Chain.GetValidator(&parent, ts)
	if err != nil || v == nil {
		res.Err = fmt.Errorf("GetValidator: %v", err)
		return res
	}
	res.Validator = v.PubKey
	key := asKey
	if key == nil {
		key = w.keyByPub[v.PubKey]
		if key == nil {
			res.Err = fmt.Errorf("scheduled validator %s is not a simulated key", v.PubKey)
			return res
		}
	}
	n.SetKey(key)
	for _, tx := range txs {
		n.SubmitTx(tx)
	}
	n.Activate()
	block, err := proposal.NewBlockTemplate(n.Chain, v, n.Acct, ts, time.Second, 2*time.Second)
	if err != nil {
		res.Err = err
		return res
	}
	res.Block = block
	// Exactly what blockproposer does: feed the template itself (the finality
	// engine adds the proposer's own verification link to it), then broadcast it.
	res.FeedOrphan, res.FeedErr = n.Chain.ProcessBlock(block)
	synctest.Wait()
	return res
}

// Admit records a produced block in the world: model tree, snapshot for builders.
func (w *World) Admit(res *ProposeResult) *model.BlockState {
	b := res.Block
	h := b.Hash()
	if _, ok := w.Blocks[h]; ok {
		return w.Tree.Nodes[h]
	}
	st, err := w.Tree.Add(b)
	if err != nil {
		harness("%v", err)
	}
	w.Blocks[h] = b
	w.Order = append(w.Order, h)
	if os.Getenv("VERIF_DEBUG_HASH") != "" {
		fmt.Fprintf(os.Stderr, "DEBUGHASH B%d h=%d ts=%d txs=%d %s\n", len(w.Order)-1, b.Height, b.Timestamp, len(b.Transactions), h.String())
	}
	if res.Node != nil && res.FeedErr == nil && !res.FeedOrphan && res.Node.Best() == h {
		w.snaps[h] = res.Node.Disk.Clone()
	}
	return st
}

// InitSnapshots creates the genesis snapshot (a node initialised on an empty disk).
func (w *World) InitSnapshots() error {
	n, err := w.StartNode("genesis", simdisk.New(), w.Keys[0])
	if err != nil {
		return err
	}
	synctest.Wait()
	w.snaps[w.Genesis.Hash()] = n.Disk.Clone()
	return nil
}

var _ = state.Justified
