package nodesim

import (
	"fmt"
	"testing"

	"pgregory.net/rapid"

	"github.com/bytom/bytom/consensus"
	"github.com/bytom/bytom/protocol/bc"
	"github.com/bytom/bytom/protocol/bc/types"

	"verif/sim/model"
	"verif/sim/simdisk"
	"verif/sim/simkit"
)

// C13 — a Byzantine proposer (it owns validator keys, so its blocks carry a valid
// proposer signature for their slot) offers blocks that break exactly one rule.

// Mutation kinds. Each breaks one consensus rule of an otherwise valid block.
var blockMutations = []string{
	"height+1", "height-1", "foreign-parent", "time-early", "time-future", "wrong-slot-signer", "garbage-signature", "no-signature",
	"merkle-root", "version", "coinbase-extra-output", "coinbase-nonzero-offepoch", "reward+1", "reward-1", "reward-other-program", "reward-missing-payee",
	"tx-unbalanced", "tx-bad-signature", "tx-wrong-key", "spend-missing", "double-spend-in-block", "double-spend-cross-block", "immature-coinbase", "locked-vote", "fork-branch-double-spend",
}

// ledgerLevel mutants pass block validation on arrival (their transactions are
// individually valid) and are only refused when the block is attached.
var ledgerLevel = map[string]bool{"spend-missing": true, "double-spend-in-block": true, "double-spend-cross-block": true, "immature-coinbase": true, "locked-vote": true}

// MutStep: after honest step At, the Byzantine proposer offers a mutated block.
type MutStep struct {
	Kind string `json:"kind"`
	At   int    `json:"at"`            // after which honest delivery (index into the delivery sequence)
	Back int    `json:"back,omitempty"` // parent: 0 = observer's tip, k = k blocks behind (side branch)
	A    int    `json:"a,omitempty"`
}

// C13Plan is a tree plan plus Byzantine offers.
type C13Plan struct {
	Tree TreePlan  `json:"tree"`
	Muts []MutStep `json:"muts"`
}

func genC13(rt *rapid.T) any {
	cfg := GenCfg(rt, 3)
	p := &C13Plan{Tree: TreePlan{Cfg: cfg, Warm: WarmupLen(cfg), Steps: GenSteps(rt, 4, 14, 3, 4)}}
	n := rapid.IntRange(1, 6).Draw(rt, "nmut")
	for i := 0; i < n; i++ {
		p.Muts = append(p.Muts, MutStep{
			Kind: rapid.SampledFrom(blockMutations).Draw(rt, "mut"),
			At:   rapid.IntRange(0, 13).Draw(rt, "at"),
			Back: rapid.SampledFrom([]int{0, 0, 0, 1, 2}).Draw(rt, "mback"),
			A:    rapid.IntRange(0, 7).Draw(rt, "ma"),
		})
	}
	return p
}

// resign recomputes the merkle root (unless keepRoot) and signs the header with key.
func resign(b *types.Block, key *Key, keepRoot bool) {
	if !keepRoot {
		var ids []*bc.Tx
		for _, tx := range b.Transactions {
			ids = append(ids, tx.Tx)
		}
		root, err := types.TxMerkleRoot(ids)
		if err != nil {
			harness("merkle: %v", err)
		}
		b.TransactionsMerkleRoot = root
	}
	if key != nil {
		h := b.Hash()
		b.BlockWitness.Set(key.Xprv.Sign(h.Bytes()))
	}
}

// rebuildTx re-maps a transaction after its data changed.
func rebuildTx(d types.TxData) *types.Tx { return types.NewTx(d) }

// coinbaseWith returns a copy of the block's coinbase with outputs replaced.
func coinbaseWith(b *types.Block, outs []*types.TxOutput) *types.Tx {
	d := b.Transactions[0].TxData
	d.Outputs = outs
	raw, _ := (&d).MarshalText()
	d.SerializedSize = uint64(len(raw) / 2)
	return rebuildTx(d)
}

// Mutate builds the Byzantine block for m on parent (a block of the honest tree
// the victim already has). It returns nil when the mutation cannot be built in
// the current state (e.g. no vote output to veto early).
func (w *World) Mutate(m MutStep, parent bc.Hash) (blk *types.Block, expectModelInvalid bool, desc string) {
	pst := w.Tree.Nodes[parent]
	if pst == nil || pst.Invalid != nil || w.snaps[parent] == nil {
		return nil, false, ""
	}
	btm := *consensus.BTMAssetID
	h := pst.Height + 1
	// an honest, valid template on this parent with a few ordinary transactions
	txs := w.MakeTxs(pst, []TxOp{{Kind: "pay", A: m.A}, {Kind: "pay", A: m.A + 1, B: 1}}, 7000+m.A)
	base := w.Propose(parent, 0, txs, nil)
	if base.Err != nil || base.Block == nil {
		return nil, false, ""
	}
	b := copyBlock(base.Block)
	b.SupLinks = nil
	signer := w.keyByPub[base.Validator]
	sched := func(ts uint64) *Key {
		v, ok := w.Tree.ScheduledValidator(pst, ts)
		if !ok {
			return signer
		}
		return w.keyByPub[v.PubKey]
	}
	cb := b.Transactions[0]
	spendable := func(kinds ...model.OutKind) []*model.Out {
		var outs []*model.Out
		for _, o := range w.OwnedAll(pst) {
			for _, k := range kinds {
				if o.Kind == k && o.Asset == btm {
					outs = append(outs, o)
				}
			}
		}
		return outs
	}
	payTo := func(o *model.Out) *types.Tx {
		if o.Amount <= FeeFor(1, 1) {
			return nil
		}
		return w.BuildTx([]*model.Out{o}, []*types.TxOutput{types.NewOriginalTxOutput(btm, o.Amount-FeeFor(1, 1), w.Keys[0].Program, nil)}, 0)
	}
	switch m.Kind {
	case "height+1":
		b.Height++
		resign(b, signer, false)
	case "height-1":
		b.Height--
		resign(b, signer, false)
	case "foreign-parent":
		// keep the height, point at another known block of a different height
		var other *model.BlockState
		for _, x := range w.Order {
			s := w.Tree.Nodes[x]
			if s.Height != pst.Height && s.Invalid == nil {
				other = s
			}
		}
		if other == nil {
			return nil, false, ""
		}
		b.PreviousBlockHash = other.Hash
		resign(b, signer, false)
	case "time-early":
		b.Timestamp = w.Blocks[parent].Timestamp + w.P.IntervalMs - 1
		resign(b, sched(b.Timestamp), false)
	case "time-future":
		b.Timestamp = nowMs() + w.P.MaxOffsetMs + w.P.IntervalMs*uint64(2+m.A)
		// align to a slot so that only the "too far in the future" rule is broken
		pts := w.Blocks[parent].Timestamp
		b.Timestamp = pts + ((b.Timestamp-pts)/w.P.IntervalMs+1)*w.P.IntervalMs
		resign(b, sched(b.Timestamp), false)
	case "wrong-slot-signer":
		var other *Key
		for _, k := range w.Keys {
			if k != signer {
				other = k
				break
			}
		}
		if other == nil {
			return nil, false, ""
		}
		vs := w.Tree.EffectiveValidators(w.Tree.CheckpointOf(pst).Votes)
		if len(vs) == 1 && vs[0].PubKey == other.PubHex {
			return nil, false, ""
		}
		resign(b, other, false)
	case "garbage-signature":
		resign(b, signer, false)
		sig := append([]byte{}, b.BlockWitness...)
		sig[m.A%len(sig)] ^= 0x40
		b.BlockWitness.Set(sig)
	case "no-signature":
		resign(b, nil, false)
		b.BlockWitness = nil
	case "merkle-root":
		resign(b, nil, false)
		b.TransactionsMerkleRoot.V0 ^= 1 << uint(m.A)
		resign(b, signer, true)
	case "version":
		b.Version = 2
		resign(b, signer, false)
	case "coinbase-extra-output":
		if h%w.P.E == 1 {
			return nil, false, ""
		}
		outs := append([]*types.TxOutput{}, cb.Outputs...)
		outs = append(outs, types.NewOriginalTxOutput(btm, 0, w.Keys[0].Program, nil))
		b.Transactions[0] = coinbaseWith(b, outs)
		resign(b, signer, false)
		expectModelInvalid = true
	case "coinbase-nonzero-offepoch":
		if h%w.P.E == 1 {
			return nil, false, ""
		}
		o := *cb.Outputs[0]
		b.Transactions[0] = coinbaseWith(b, []*types.TxOutput{types.NewOriginalTxOutput(btm, uint64(1+m.A), o.ControlProgram, nil)})
		resign(b, signer, false)
		expectModelInvalid = true
	case "reward+1", "reward-1", "reward-other-program", "reward-missing-payee":
		if h%w.P.E != 1 || h == 1 {
			return nil, false, ""
		}
		var outs []*types.TxOutput
		for _, o := range cb.Outputs {
			outs = append(outs, types.NewOriginalTxOutput(*o.AssetId, o.Amount, o.ControlProgram, nil))
		}
		idx := -1
		for i, o := range outs {
			if o.Amount > 1 {
				idx = i
			}
		}
		if idx < 0 {
			return nil, false, ""
		}
		switch m.Kind {
		case "reward+1":
			outs[idx].Amount++
		case "reward-1":
			outs[idx].Amount--
		case "reward-other-program":
			outs[idx].ControlProgram = newKey(7777).Program
		case "reward-missing-payee":
			if len(outs) == 1 {
				outs[0].Amount = 0
			} else {
				outs = append(outs[:idx:idx], outs[idx+1:]...)
			}
		}
		b.Transactions[0] = coinbaseWith(b, outs)
		resign(b, signer, false)
		expectModelInvalid = true
	case "tx-unbalanced":
		if len(b.Transactions) < 2 {
			return nil, false, ""
		}
		d := b.Transactions[1].TxData
		outs := make([]*types.TxOutput, len(d.Outputs))
		for i, o := range d.Outputs {
			c := *o
			outs[i] = &c
		}
		var in uint64
		for _, inp := range d.Inputs {
			in += inp.Amount()
		}
		// outputs now claim one unit more than the inputs provide
		var out uint64
		for _, o := range outs {
			out += o.Amount
		}
		outs[0] = types.NewOriginalTxOutput(btm, outs[0].Amount+(in-out)+1, outs[0].ControlProgram, nil)
		d.Outputs = outs
		tx := rebuildTx(d)
		w.SignTx(tx)
		b.Transactions[1] = tx
		resign(b, signer, false)
	case "tx-bad-signature", "tx-wrong-key":
		if len(b.Transactions) < 2 {
			return nil, false, ""
		}
		d := b.Transactions[1].TxData
		ins := make([]*types.TxInput, len(d.Inputs))
		for i, inp := range d.Inputs {
			c := *inp
			ins[i] = &c
		}
		args := ins[0].Arguments()
		if len(args) != 2 {
			return nil, false, ""
		}
		if m.Kind == "tx-bad-signature" {
			sig := append([]byte{}, args[0]...)
			sig[m.A%len(sig)] ^= 1
			args = [][]byte{sig, args[1]}
		} else {
			thief := newKey(8888)
			tmp := rebuildTx(d)
			sh := tmp.SigHash(0)
			args = [][]byte{thief.Xprv.Sign(sh.Bytes()), thief.PubKey}
		}
		switch t := ins[0].TypedInput.(type) {
		case *types.SpendInput:
			c := *t
			c.Arguments = args
			ins[0].TypedInput = &c
		case *types.VetoInput:
			c := *t
			c.Arguments = args
			ins[0].TypedInput = &c
		}
		d.Inputs = ins
		b.Transactions[1] = rebuildTx(d)
		resign(b, signer, false)
	case "spend-missing":
		// spend an output of a block that is not an ancestor (never existed on this branch)
		ghost := &model.Out{Kind: model.Normal, Asset: btm, Amount: 5000000, Program: w.Keys[0].Program, SourceID: bc.NewHash([32]byte{byte(m.A), 9, 9}), SourcePos: 0}
		tx := payTo(ghost)
		b.Transactions = append(b.Transactions, tx)
		resign(b, signer, false)
		expectModelInvalid = true
	case "double-spend-in-block":
		c := spendableFilter(w, pst, h, spendable(model.Normal, model.Coinbase))
		if len(c) == 0 {
			return nil, false, ""
		}
		o := c[m.A%len(c)]
		// drop template txs that might touch the same output, then spend it twice
		b.Transactions = b.Transactions[:1]
		t1 := payTo(o)
		t2 := w.BuildTx([]*model.Out{o}, []*types.TxOutput{types.NewOriginalTxOutput(btm, o.Amount-FeeFor(1, 1)-1, w.Keys[1%len(w.Keys)].Program, nil)}, 0)
		if t1 == nil || t2 == nil {
			return nil, false, ""
		}
		b.Transactions = append(b.Transactions, t1, t2)
		resign(b, signer, false)
		expectModelInvalid = true
	case "double-spend-cross-block":
		// spend an output that an ancestor block already spent
		var victim *model.Out
		for s := pst; s != nil && s.Parent != nil && victim == nil; s = s.Parent {
			for _, tx := range s.Block.Transactions[1:] {
				for _, inp := range tx.Inputs {
					if id, err := inp.SpentOutputID(); err == nil {
						if o := w.Tree.AllOutputs[id]; o != nil && o.Asset == btm && w.keyByProg[fmt.Sprintf("%x", o.Program)] != nil {
							victim = o
						}
					}
				}
			}
		}
		if victim == nil {
			return nil, false, ""
		}
		tx := payTo(victim)
		if tx == nil {
			return nil, false, ""
		}
		b.Transactions = append(b.Transactions[:1:1], tx)
		resign(b, signer, false)
		expectModelInvalid = true
	case "immature-coinbase":
		var o *model.Out
		for _, c := range spendable(model.Coinbase) {
			if c.Height+model.CoinbaseMaturity > h { // not yet mature at this height
				o = c
			}
		}
		if o == nil {
			return nil, false, ""
		}
		tx := payTo(o)
		if tx == nil {
			return nil, false, ""
		}
		b.Transactions = append(b.Transactions[:1:1], tx)
		resign(b, signer, false)
		expectModelInvalid = true
	case "locked-vote":
		var o *model.Out
		for _, c := range spendable(model.Vote) {
			if c.Height+w.P.VotePending > h {
				o = c
			}
		}
		if o == nil {
			return nil, false, ""
		}
		tx := payTo(o)
		if tx == nil {
			return nil, false, ""
		}
		b.Transactions = append(b.Transactions[:1:1], tx)
		resign(b, signer, false)
		expectModelInvalid = true
	default:
		return nil, false, ""
	}
	return b, expectModelInvalid, fmt.Sprintf("%s on %s (height %d)", m.Kind, w.name(parent), h)
}

func spendableFilter(w *World, pst *model.BlockState, h uint64, outs []*model.Out) []*model.Out {
	var res []*model.Out
	for _, o := range outs {
		if o.Kind == model.Coinbase && o.Height+model.CoinbaseMaturity > h {
			continue
		}
		if o.Amount > FeeFor(1, 1)+2 {
			res = append(res, o)
		}
	}
	return res
}

func execC13(t *testing.T, plan any, r *simkit.Run) {
	p := plan.(*C13Plan)
	Bubble(t, func() {
		w := NewWorld(t, r, p.Tree.Cfg)
		prods := w.ProduceTree(&p.Tree, Oracles{})
		if r.Failed() || len(prods) == 0 {
			return
		}
		victim, err := w.StartNode("victim", simdisk.New(), observerKey())
		if err != nil {
			r.Violate("init", "", "%v", err)
			return
		}
		type offered struct {
			hash bc.Hash
			desc string
			kind string
		}
		var bad []offered
		checkBad := func(ctx string) {
			for _, o := range bad {
				if _, twin := w.Blocks[o.hash]; twin {
					// an honest block with the same hash was produced after the offer (the block signature
					// is not part of the hash: a later honest proposal for the same parent and slot is the
					// mutant's valid twin). What is on the chain under this hash says nothing about the
					// mutant any more; it was judged when it arrived (not stored).
					continue
				}
				if victim.Chain.InMainChain(o.hash) || victim.Best() == o.hash {
					r.Violate("invalid-block-on-main-chain", o.kind, "after %s: block breaking one rule [%s] is on the victim's main chain", ctx, o.desc)
					return
				}
			}
		}
		delivered := 0
		for i, pr := range prods {
			// honest delivery, in production order
			if _, err := victim.Process(w.Blocks[pr.Hash]); err != nil {
				// an honest valid block must be accepted unless it forks below the finalized checkpoint
				_, fin := victim.Chain.Casper().LastFinalized()
				ph := pr.Hash
				_, serr := victim.Store.GetBlockHeader(&ph)
				if f := w.Tree.Nodes[fin]; (f == nil || model.IsAncestor(f, pr.State)) && serr != nil {
					r.Violate("valid-block-rejected", "", "honest block %s (height %d) rejected and not stored after %d Byzantine offers: %v", w.name(pr.Hash), pr.State.Height, len(bad), err)
					return
				}
				// stored, but ProcessBlock reported an error: the fork choice still points at a
				// stored Byzantine block whose attachment fails. Tolerated while faults flow;
				// the progress check after the faults stop decides whether it is a wedge.
				r.Count("probe.valid_block_error_while_poisoned", 1)
			}
			delivered++
			checkBad("deliver " + w.name(pr.Hash))
			if r.Failed() {
				return
			}
			if i < p.Tree.Warm {
				continue
			}
			for _, m := range p.Muts {
				if m.At != i-p.Tree.Warm {
					continue
				}
				// parent: the victim's tip or a recent ancestor of it
				tip := w.Tree.Nodes[victim.Best()]
				par := tip
				for k := 0; k < m.Back && par.Parent != nil; k++ {
					par = par.Parent
				}
				if m.Kind == "fork-branch-double-spend" {
					// a VALID sibling branch block that spends an output, then (below) a child of it that
					// spends the same output again: when the branch overtakes the victim's chain both are
					// attached in one reorganisation
					if par.Parent == nil {
						continue
					}
					base := par.Parent
					ftxs := w.MakeTxs(base, []TxOp{{Kind: "pay", A: m.A}, {Kind: "pay", A: m.A + 3, B: 2}}, 8100+m.A)
					fres := w.Propose(base.Hash, 1+m.A%2, ftxs, nil)
					if fres.Err != nil || fres.Block == nil || fres.FeedErr != nil || len(fres.Block.Transactions) < 2 {
						r.Count("mutation.not_constructible", 1)
						continue
					}
					w.Admit(fres)
					victim.Process(fres.Block)
					r.Tracef("deliver valid fork block %s on %s", w.name(fres.Block.Hash()), w.name(base.Hash))
					par = w.Tree.Nodes[fres.Block.Hash()]
					m.Kind = "double-spend-cross-block"
				}
				blk, expectModelInvalid, desc := w.Mutate(m, par.Hash)
				if blk == nil {
					r.Count("mutation.not_constructible", 1)
					continue
				}
				if expectModelInvalid {
					// sanity of the mutator: the reference ledger must also reject it
					probe := model.NewTreeFrom(w.Tree)
					st, perr := probe.Add(blk)
					if perr != nil || st.Invalid == nil {
						harness("mutation %s was expected to be ledger-invalid but the reference ledger accepts it (%v)", desc, perr)
					}
				}
				mh := blk.Hash()
				_, before := victim.Store.GetBlockHeader(&mh)
				_, perr := victim.Process(blk)
				r.Tracef("offer %s -> err=%v", desc, perr != nil)
				if _, after := victim.Store.GetBlockHeader(&mh); before != nil && after == nil && !ledgerLevel[m.Kind] {
					// header- and transaction-level rules are checked before a block is stored
					r.Violate("invalid-block-stored", m.Kind, "block breaking one rule [%s] was accepted into the victim's block store (ProcessBlock error: %v)", desc, perr)
					return
				}
				r.Count("fault.byzantine_block."+m.Kind, 1)
				r.Count("fault.byzantine_block", 1)
				if perr == nil {
					r.Count("probe.mutant_not_rejected_at_arrival", 1)
				}
				if _, twin := w.Blocks[mh]; twin {
					// the block signature and transaction witnesses are not part of the block hash:
					// a mutant that only differs there shares its hash with a valid honest block,
					// so "this hash is on the main chain" says nothing about the mutant
					r.Count("probe.mutant_shares_hash_with_honest_block", 1)
				} else {
					bad = append(bad, offered{mh, desc, m.Kind})
				}
				checkBad("offer " + desc)
				if r.Failed() {
					return
				}
			}
		}
		// liveness once the faults have stopped: an honest continuation of the victim's
		// valid tip, four more blocks, must end up as its best chain
		tip := victim.Best()
		for k := 0; k < 4; k++ {
			res := w.Propose(tip, 0, nil, nil)
			if res.Err != nil || res.Block == nil || res.FeedErr != nil {
				r.Count("contained.cannot_extend", 1)
				break
			}
			w.Admit(res)
			if _, err := victim.Process(res.Block); err != nil {
				bh := res.Block.Hash()
				if _, serr := victim.Store.GetBlockHeader(&bh); serr != nil {
					r.Violate("valid-block-rejected", "after-faults", "honest extension at height %d rejected and not stored after the Byzantine offers stopped: %v", res.Block.Height, err)
					return
				}
				r.Count("probe.valid_block_error_while_poisoned", 1)
			}
			tip = res.Block.Hash()
			checkBad("extension")
		}
		if victim.Best() != tip && len(bad) > 0 && !r.Failed() {
			bst := w.Tree.Nodes[victim.Best()]
			r.Violate("no-progress-after-faults", "", "four honest blocks extending the victim's valid tip were accepted but its best block stayed %s (height %d) instead of %s",
				w.name(victim.Best()), bst.Height, w.name(tip))
			return
		}
		if len(bad) > 0 {
			r.NonTrivial()
		}
	})
}

// SpecC13: blocks violating consensus rules never enter the main chain.
func SpecC13() simkit.Spec {
	var faults []string
	for _, k := range blockMutations {
		faults = append(faults, "fault.byzantine_block."+k)
	}
	return simkit.Spec{
		Prop: "C13", Gen: genC13, NewPlan: func() any { return &C13Plan{} }, Exec: execC13,
		Rule: "an honest tree (real proposers, transactions) is delivered to a victim node while a Byzantine proposer holding validator keys offers, at drawn moments on the tip or on a side branch, blocks that are valid templates with exactly one rule broken (24 kinds: height, parent, timestamp window, slot signer, signature, merkle root, version, coinbase shape, reward amounts/payees, unbalanced or wrongly-signed transaction, missing / double / immature / locked spends), re-signed for their slot; oracle after every event: no offered block is on the victim's main chain; honest blocks keep being accepted; after the offers stop four honest blocks move the best chain; non-trivial = at least one mutant offered; distinct = hash of the trace",
		Components:  nodeComponents,
		FaultKinds:  append([]string{"fault.byzantine_block"}, faults...),
		Probes:      []string{"probe.mutant_not_rejected_at_arrival", "mutation.not_constructible"},
		Assumptions: []string{"exactly-one-rule is by construction of the mutator; for ledger-rule mutants the reference ledger must agree they are invalid (else harness error)", "the block gas limit mutation is not generated (needs fees beyond short-run rewards)"},
	}
}
