package nodesim

import (
	"bytes"
	"crypto/ed25519"
	"fmt"
	"sort"
	"testing"

	"pgregory.net/rapid"

	"github.com/bytom/bytom/consensus"
	"github.com/bytom/bytom/crypto"
	"github.com/bytom/bytom/protocol"
	"github.com/bytom/bytom/protocol/bc"
	"github.com/bytom/bytom/protocol/bc/types"
	"github.com/bytom/bytom/protocol/vm/vmutil"

	"verif/sim/model"
	"verif/sim/simkit"
)

// C02 — outputs locked by standard programs are spendable only with a matching
// witness. Honest clients lock funds to pay-to-key-hash, pay-to-script-hash
// (m-of-n multisig redeem script, n <= 6) and bare multisig programs, in the
// segwit and the expanded form, and spend them correctly; a Byzantine peer tries
// to take every such output with forged, replayed, truncated, permuted or
// bit-flipped witnesses, through the mempool and inside validly signed blocks.
// Ownership is client-side model state (which keys were committed when the
// output was created).

// LockSpec is one lock shape drawn by the plan.
type LockSpec struct {
	Form string `json:"form"` // p2wpkh | p2pkh | p2wsh | p2sh | multisig
	N    int    `json:"n"`
	M    int    `json:"m"`
	K    int    `json:"k"` // first key
}

type C02Ev struct {
	Kind   string `json:"k"` // attack | honest | mine | poison | twin
	Attack string `json:"attack,omitempty"`
	T      int    `json:"t,omitempty"`  // target pick
	T2     int    `json:"t2,omitempty"` // second input pick (0 = none)
	A      int    `json:"a,omitempty"`
	B      int    `json:"b,omitempty"`
	Via    int    `json:"via,omitempty"`    // 0 mempool, 1 Byzantine block, 2 both
	Relock int    `json:"relock,omitempty"` // honest: 0 = pay a plain key, k = lock k-1 again
}

type C02Plan struct {
	Cfg    WorldCfg   `json:"cfg"`
	Warm   int        `json:"warm"`
	Locks  []LockSpec `json:"locks"`
	Events []C02Ev    `json:"events"`
}

var c02Attacks = []string{"wrong-key", "replay-out-amount", "replay-out-program", "replay-add-output", "replay-add-input", "replay-time-range", "replay-version",
	"replay-other-output", "permute-sigs", "repeat-sig", "m-1", "non-member", "script-swap", "script-threshold", "script-matching", "flip-sig", "flip-pub", "flip-script",
	"swap-witness", "empty-witness", "sig-over-txid", "sig-over-input-id", "sig-other-input"}

func genC02(rt *rapid.T) any {
	cfg := GenCfg(rt, 2)
	p := &C02Plan{Cfg: cfg, Warm: WarmupLen(cfg)}
	nl := rapid.IntRange(1, 4).Draw(rt, "nlocks")
	for i := 0; i < nl; i++ {
		form := rapid.SampledFrom([]string{"p2wpkh", "p2wsh", "p2wsh", "p2pkh", "p2sh", "multisig"}).Draw(rt, "form")
		n, m := 1, 1
		if form != "p2wpkh" && form != "p2pkh" {
			n = rapid.IntRange(1, 6).Draw(rt, "n")
			m = rapid.IntRange(1, n).Draw(rt, "m")
		}
		p.Locks = append(p.Locks, LockSpec{Form: form, N: n, M: m, K: rapid.IntRange(0, 5).Draw(rt, "k")})
	}
	ne := rapid.IntRange(4, 16).Draw(rt, "nev")
	for i := 0; i < ne; i++ {
		ev := C02Ev{T: rapid.IntRange(0, 11).Draw(rt, "t"), A: rapid.IntRange(0, 255).Draw(rt, "a"), B: rapid.IntRange(0, 7).Draw(rt, "b")}
		switch rapid.IntRange(0, 9).Draw(rt, "evk") {
		case 0:
			ev.Kind = "mine"
		case 1, 2:
			ev.Kind = "honest"
			ev.Via = rapid.SampledFrom([]int{0, 0, 0, 1}).Draw(rt, "hvia")
			ev.Relock = rapid.IntRange(0, nl).Draw(rt, "relock")
			if rapid.IntRange(0, 2).Draw(rt, "two") == 0 {
				ev.T2 = rapid.IntRange(1, 11).Draw(rt, "t2")
			}
		case 3:
			ev.Kind = "poison"
			if rapid.Bool().Draw(rt, "twinq") {
				ev.Kind = "twin"
				ev.Via = rapid.IntRange(0, 3).Draw(rt, "twinkind")
			}
		default:
			ev.Kind = "attack"
			// rapid favours small values: rotate by the event index so that every kind is reached evenly
			ev.Attack = c02Attacks[(rapid.IntRange(0, len(c02Attacks)-1).Draw(rt, "attack")+i*5)%len(c02Attacks)]
			ev.Via = rapid.SampledFrom([]int{0, 0, 1, 2}).Draw(rt, "via")
			if ev.Attack == "swap-witness" || rapid.IntRange(0, 4).Draw(rt, "two") == 0 {
				ev.T2 = rapid.IntRange(1, 11).Draw(rt, "t2")
			}
		}
		p.Events = append(p.Events, ev)
	}
	// finally every remaining locked output is spent by its owners and mined
	p.Events = append(p.Events, C02Ev{Kind: "mine"}, C02Ev{Kind: "sweep"}, C02Ev{Kind: "mine"})
	return p
}

// ---- client-side model: who may spend what --------------------------------------

type c02Lock struct {
	Spec    LockSpec
	Keys    []*Key // committed keys, in committed order
	Script  []byte // redeem script (script-hash forms) or the program itself (bare multisig)
	Program []byte
}

func (l *c02Lock) isKeyHash() bool { return l.Spec.Form == "p2wpkh" || l.Spec.Form == "p2pkh" }
func (l *c02Lock) label() string {
	if l.isKeyHash() {
		return l.Spec.Form
	}
	return fmt.Sprintf("%s-%dof%d", l.Spec.Form, l.Spec.M, l.Spec.N)
}

type c02Env struct {
	*txEnv
	btm     bc.AssetID
	locks   []*c02Lock
	byOut   map[bc.Hash]*c02Lock // output id -> lock (client-side record made when the output was created)
	outs    []*model.Out         // locked outputs in creation order
	unconf  map[bc.Hash]bool     // created by a pooled transaction, not mined yet
	members []*Key
	thieves []*Key
	labels  map[bc.Hash]string // exact transaction bytes -> attack label
	honest  map[bc.Hash]string // tx id -> label of honest spends admitted to the pool, waiting to be mined
	attacks int
	spends  int
}

func mustProg(p []byte, err error) []byte {
	if err != nil {
		harness("program: %v", err)
	}
	return p
}

func (c *c02Env) makeLock(s LockSpec) *c02Lock {
	l := &c02Lock{Spec: s}
	for i := 0; i < s.N; i++ {
		l.Keys = append(l.Keys, c.members[(s.K+i)%len(c.members)])
	}
	var pubs []ed25519.PublicKey
	for _, k := range l.Keys {
		pubs = append(pubs, ed25519.PublicKey(k.PubKey))
	}
	switch s.Form {
	case "p2wpkh":
		l.Program = mustProg(vmutil.P2WPKHProgram(crypto.Ripemd160(l.Keys[0].PubKey)))
	case "p2pkh":
		l.Program = mustProg(vmutil.P2PKHSigProgram(crypto.Ripemd160(l.Keys[0].PubKey)))
	case "p2wsh":
		l.Script = mustProg(vmutil.P2SPMultiSigProgram(pubs, s.M))
		h := sha3sum(l.Script)
		l.Program = mustProg(vmutil.P2WSHProgram(h[:]))
	case "p2sh":
		l.Script = mustProg(vmutil.P2SPMultiSigProgram(pubs, s.M))
		h := sha3sum(l.Script)
		l.Program = mustProg(vmutil.P2SHProgram(h[:]))
	case "multisig":
		l.Script = mustProg(vmutil.P2SPMultiSigProgram(pubs, s.M))
		l.Program = l.Script
	default:
		harness("lock form %q", s.Form)
	}
	return l
}

// lockOf returns the lock of a known output: the client-side record, or the
// plain key of a simulated identity for reward / change outputs.
func (c *c02Env) lockOf(id bc.Hash) *c02Lock {
	if l := c.byOut[id]; l != nil {
		return l
	}
	o := c.w.Tree.AllOutputs[id]
	if o == nil {
		for _, f := range c.fresh {
			if f.ID == id {
				o = f
			}
		}
	}
	if o == nil {
		return nil
	}
	if k := c.w.keyByProg[fmt.Sprintf("%x", o.Program)]; k != nil {
		return &c02Lock{Spec: LockSpec{Form: "p2wpkh", N: 1, M: 1}, Keys: []*Key{k}, Program: k.Program}
	}
	return nil
}

// sigHash is the documented message an input's signatures cover: the hash of the
// input's entry id and the transaction id.
func c02SigHash(tx *types.Tx, i int) []byte {
	buf := append(append([]byte{}, tx.InputIDs[i].Bytes()...), tx.ID.Bytes()...)
	h := sha3sum(buf)
	return h[:]
}

// authorised decides, from the statement alone, whether the witness of input i
// carries valid signatures of at least m distinct committed keys over this
// transaction's signature hash (and names the committed key / script).
func authorised(tx *types.Tx, i int, l *c02Lock) bool {
	args := tx.Inputs[i].Arguments()
	msg := c02SigHash(tx, i)
	if l.isKeyHash() {
		return len(args) == 2 && bytes.Equal(args[1], l.Keys[0].PubKey) && ed25519.Verify(ed25519.PublicKey(l.Keys[0].PubKey), msg, args[0])
	}
	sigs := args
	if l.Spec.Form != "multisig" {
		if len(args) < 1 || !bytes.Equal(args[len(args)-1], l.Script) {
			return false
		}
		sigs = args[:len(args)-1]
	}
	n := 0
	for _, k := range l.Keys {
		for _, s := range sigs {
			if len(s) == ed25519.SignatureSize && ed25519.Verify(ed25519.PublicKey(k.PubKey), msg, s) {
				n++
				break
			}
		}
	}
	return n >= l.Spec.M
}

// signers picks m committed keys in committed order.
func (l *c02Lock) signers(a int) []*Key {
	n, m := l.Spec.N, l.Spec.M
	idx := make([]int, 0, m)
	for j := 0; j < m; j++ {
		idx = append(idx, (a+j)%n)
	}
	sort.Ints(idx)
	var ks []*Key
	for _, i := range idx {
		ks = append(ks, l.Keys[i])
	}
	return ks
}

// witness builds the arguments for a lock from the given signing keys over msg.
func (l *c02Lock) witness(keys []*Key, msg []byte, script []byte) [][]byte {
	if l.isKeyHash() {
		return [][]byte{keys[0].Xprv.Sign(msg), keys[0].PubKey}
	}
	var args [][]byte
	for _, k := range keys {
		args = append(args, k.Xprv.Sign(msg))
	}
	if l.Spec.Form != "multisig" {
		args = append(args, script)
	}
	return args
}

// signAll gives every input its owners' correct witness.
func (c *c02Env) signAll(tx *types.Tx, ins []*model.Out, a int) {
	for i, o := range ins {
		l := c.lockOf(o.ID)
		tx.SetInputArguments(uint32(i), l.witness(l.signers(a), c02SigHash(tx, i), l.Script))
	}
}

// spendTx is the owners' transaction spending ins to dest, fully and correctly signed.
// tag makes otherwise identical transactions distinct (it goes to the fee).
func (c *c02Env) spendTx(ins []*model.Out, dest []byte, a int, tag uint64) *types.Tx {
	var total uint64
	data := types.TxData{Version: 1}
	for _, o := range ins {
		data.Inputs = append(data.Inputs, types.NewSpendInput(nil, o.SourceID, o.Asset, o.Amount, o.SourcePos, o.Program, o.State))
		total += o.Amount
	}
	fee := uint64(len(ins))*3500000 + 1000000 + tag
	if total <= fee+1 {
		return nil
	}
	data.Outputs = []*types.TxOutput{types.NewOriginalTxOutput(c.btm, total-fee, dest, nil)}
	tx := types.NewTx(data)
	c.signAll(tx, ins, a)
	tx = resize(tx)
	c.signAll(tx, ins, a)
	return tx
}

// withData re-maps tx after a change of committed data, keeping the witnesses as they are.
func withData(d types.TxData) *types.Tx { return types.NewTx(d) }

func cloneData(tx *types.Tx) types.TxData {
	raw, err := tx.TxData.MarshalText()
	if err != nil {
		harness("marshal tx: %v", err)
	}
	var d types.TxData
	if err := d.UnmarshalText(raw); err != nil {
		harness("unmarshal tx: %v", err)
	}
	return d
}

// targets lists locked outputs no admitted transaction spends. confirmedOnly
// leaves out those created by transactions still in the pool.
func (c *c02Env) targets(confirmedOnly bool) []*model.Out {
	var ts []*model.Out
	for _, o := range c.outs {
		if c.used[o.ID] || (confirmedOnly && c.unconf[o.ID]) {
			continue
		}
		ts = append(ts, o)
	}
	return ts
}

func flipBit(b []byte, n int) []byte {
	c := append([]byte{}, b...)
	if len(c) == 0 {
		return c
	}
	c[(n/8)%len(c)] ^= 1 << uint(n%8)
	return c
}

// attack builds one theft attempt. theft = by construction it does not carry m
// signatures of committed keys over its own signature hash.
func (c *c02Env) attack(ev C02Ev, confirmedOnly bool) (tx *types.Tx, theft bool, label string) {
	all := c.targets(confirmedOnly)
	// kinds that only make sense against some locks look for such a lock among the targets
	suits := func(l *c02Lock) bool {
		switch ev.Attack {
		case "permute-sigs", "repeat-sig":
			return !l.isKeyHash() && l.Spec.M >= 2
		case "script-swap", "script-threshold", "flip-script":
			return !l.isKeyHash() && l.Spec.Form != "multisig"
		}
		return true
	}
	var ts []*model.Out
	for _, x := range all {
		if suits(c.lockOf(x.ID)) {
			ts = append(ts, x)
		}
	}
	if len(ts) == 0 {
		return nil, false, ""
	}
	o := ts[ev.T%len(ts)]
	l := c.lockOf(o.ID)
	ins := []*model.Out{o}
	t2 := ev.T2
	if t2 == 0 && (ev.Attack == "swap-witness" || ev.Attack == "sig-other-input") {
		t2 = 1 + ev.B
	}
	if t2 > 0 && len(all) > 1 {
		for j := 0; j < len(all); j++ {
			if o2 := all[(ev.T+t2+j)%len(all)]; o2.ID != o.ID {
				ins = append(ins, o2)
				break
			}
		}
	}
	thief := c.thieves[ev.B%len(c.thieves)]
	tag := uint64(1 + ev.A%3)
	base := c.spendTx(ins, c.w.Keys[ev.B%len(c.w.Keys)].Program, ev.A, tag)
	if base == nil {
		return nil, false, ""
	}
	kind := ev.Attack
	msg := c02SigHash(base, 0)
	multi := !l.isKeyHash()
	thiefKeys := func(n int) []*Key {
		var ks []*Key
		for j := 0; j < n; j++ {
			ks = append(ks, c.thieves[(ev.B+j)%len(c.thieves)])
		}
		return ks
	}
	set := func(args [][]byte) { base.SetInputArguments(0, args) }
	replay := func(edit func(d *types.TxData)) *types.Tx {
		d := cloneData(base)
		edit(&d)
		return withData(d)
	}
	theft = true
	switch kind {
	case "wrong-key":
		set(l.witness(thiefKeys(l.Spec.M), msg, l.Script))
	case "replay-out-amount":
		tx = replay(func(d *types.TxData) { d.Outputs[0].Amount -= uint64(1 + ev.A%5) })
	case "replay-out-program":
		tx = replay(func(d *types.TxData) { d.Outputs[0].ControlProgram = thief.Program })
	case "replay-add-output":
		tx = replay(func(d *types.TxData) {
			d.Outputs = append(d.Outputs, types.NewOriginalTxOutput(c.btm, 1000000, thief.Program, nil))
		})
	case "replay-add-input":
		// another party's correctly signed input joins; the victim's witness stays as it was
		var extra *model.Out
		for _, x := range c.confirmedOuts(model.Normal, model.Coinbase) {
			if x.Asset == c.btm && c.byOut[x.ID] == nil {
				extra = x
				break
			}
		}
		if extra == nil {
			return nil, false, ""
		}
		tx = replay(func(d *types.TxData) {
			d.Inputs = append(d.Inputs, types.NewSpendInput(nil, extra.SourceID, extra.Asset, extra.Amount, extra.SourcePos, extra.Program, extra.State))
			d.Outputs = append(d.Outputs, types.NewOriginalTxOutput(c.btm, extra.Amount, thief.Program, nil))
		})
		k := c.w.keyByProg[fmt.Sprintf("%x", extra.Program)]
		tx.SetInputArguments(uint32(len(tx.Inputs)-1), [][]byte{k.Xprv.Sign(c02SigHash(tx, len(tx.Inputs)-1)), k.PubKey})
	case "replay-time-range":
		tx = replay(func(d *types.TxData) { d.TimeRange = c.height() + 2 + uint64(ev.A%50) })
	case "replay-version":
		tx = replay(func(d *types.TxData) { d.Version = 2 })
	case "replay-other-output":
		// the owners' witness for one output, presented for another output under the same lock
		var other *model.Out
		for _, x := range all {
			if x.ID != o.ID && bytes.Equal(x.Program, o.Program) && (len(ins) < 2 || x.ID != ins[1].ID) {
				other = x
				break
			}
		}
		if other == nil {
			return nil, false, ""
		}
		tx = replay(func(d *types.TxData) {
			d.Inputs[0] = types.NewSpendInput(base.Inputs[0].Arguments(), other.SourceID, other.Asset, other.Amount, other.SourcePos, other.Program, other.State)
			d.Outputs[0].Amount = d.Outputs[0].Amount - o.Amount + other.Amount
		})
	case "permute-sigs", "repeat-sig", "m-1", "non-member":
		keys := l.signers(ev.A)
		var sigs [][]byte
		for _, k := range keys {
			sigs = append(sigs, k.Xprv.Sign(msg))
		}
		switch kind {
		case "permute-sigs":
			if len(sigs) < 2 {
				return nil, false, ""
			}
			for i, j := 0, len(sigs)-1; i < j; i, j = i+1, j-1 {
				sigs[i], sigs[j] = sigs[j], sigs[i]
			}
			theft = false // it does contain m valid signatures of committed keys: the statement does not forbid it
		case "repeat-sig":
			if len(sigs) < 2 {
				return nil, false, ""
			}
			for i := range sigs {
				sigs[i] = sigs[0]
			}
		case "m-1":
			sigs = sigs[:len(sigs)-1]
		case "non-member":
			sigs[ev.A%len(sigs)] = thief.Xprv.Sign(msg)
		}
		if !multi {
			if kind == "m-1" {
				set([][]byte{l.Keys[0].PubKey})
			} else {
				set([][]byte{sigs[0], l.Keys[0].PubKey})
			}
			break
		}
		if l.Spec.Form != "multisig" {
			sigs = append(sigs, l.Script)
		}
		set(sigs)
	case "script-swap", "script-threshold":
		if !multi || l.Spec.Form == "multisig" {
			return nil, false, ""
		}
		var pubs []ed25519.PublicKey
		var signers []*Key
		if kind == "script-swap" {
			signers = thiefKeys(l.Spec.M)
			for _, k := range thiefKeys(l.Spec.N) {
				pubs = append(pubs, ed25519.PublicKey(k.PubKey))
			}
			s2 := mustProg(vmutil.P2SPMultiSigProgram(pubs, l.Spec.M))
			set((&c02Lock{Spec: l.Spec}).witness(signers, msg, s2))
		} else {
			// same keys plus the thief's, threshold one, signed by the thief alone
			for _, k := range l.Keys {
				pubs = append(pubs, ed25519.PublicKey(k.PubKey))
			}
			if len(pubs) < 6 {
				pubs = append(pubs, ed25519.PublicKey(thief.PubKey))
			} else {
				pubs[ev.A%6] = ed25519.PublicKey(thief.PubKey)
			}
			s2 := mustProg(vmutil.P2SPMultiSigProgram(pubs, 1))
			set([][]byte{thief.Xprv.Sign(msg), s2})
		}
	case "script-matching":
		// the input names an output with the thief's own program (so hash and witness match) at the victim's position
		var l2 *c02Lock
		tl := &c02Env{members: c.thieves}
		l2 = tl.makeLock(LockSpec{Form: l.Spec.Form, N: l.Spec.N, M: l.Spec.M, K: ev.B})
		tx = replay(func(d *types.TxData) {
			d.Inputs[0] = types.NewSpendInput(nil, o.SourceID, o.Asset, o.Amount, o.SourcePos, l2.Program, o.State)
		})
		tx.SetInputArguments(0, l2.witness(l2.signers(0), c02SigHash(tx, 0), l2.Script))
	case "flip-sig":
		args := base.Inputs[0].Arguments()
		args[0] = flipBit(args[0], ev.A+8*ev.B)
		set(args)
	case "flip-pub":
		args := base.Inputs[0].Arguments()
		if multi && l.Spec.Form == "multisig" {
			return nil, false, ""
		}
		last := len(args) - 1
		if multi {
			// a bit inside the first public key of the redeem script (after OP_TXSIGHASH and the push opcode)
			args[last] = flipBit(args[last], 16+ev.A)
		} else {
			args[last] = flipBit(args[last], ev.A)
		}
		set(args)
	case "flip-script":
		if !multi || l.Spec.Form == "multisig" {
			return nil, false, ""
		}
		args := base.Inputs[0].Arguments()
		args[len(args)-1] = flipBit(args[len(args)-1], ev.A*7+ev.B)
		set(args)
	case "swap-witness":
		if len(ins) < 2 {
			return nil, false, ""
		}
		a0, a1 := base.Inputs[0].Arguments(), base.Inputs[1].Arguments()
		base.SetInputArguments(0, a1)
		base.SetInputArguments(1, a0)
	case "empty-witness":
		set(nil)
	case "sig-over-txid", "sig-over-input-id", "sig-other-input":
		var m2 []byte
		switch kind {
		case "sig-over-txid":
			m2 = base.ID.Bytes()
		case "sig-over-input-id":
			m2 = base.InputIDs[0].Bytes()
		default:
			if len(ins) < 2 {
				return nil, false, ""
			}
			m2 = c02SigHash(base, 1)
		}
		set(l.witness(l.signers(ev.A), m2, l.Script))
	default:
		return nil, false, ""
	}
	if tx == nil {
		tx = base
	}
	return tx, theft, kind + "/" + l.label()
}

// noteLocked records the locked outputs a client transaction creates.
func (c *c02Env) noteLocked(tx *types.Tx, confirmed bool) {
	for j, out := range tx.Outputs {
		var l *c02Lock
		for _, x := range c.locks {
			if bytes.Equal(x.Program, out.ControlProgram) {
				l = x
			}
		}
		if l == nil {
			continue
		}
		o := &model.Out{ID: *tx.ResultIds[j], Kind: model.Normal, Asset: *out.AssetId, Amount: out.Amount, Program: out.ControlProgram, TxID: tx.ID, Pos: j}
		if en, ok := tx.Entries[o.ID].(*bc.OriginalOutput); ok {
			o.SourceID, o.SourcePos = *en.Source.Ref, en.Source.Position
		}
		c.byOut[o.ID] = l
		c.outs = append(c.outs, o)
		if !confirmed {
			c.unconf[o.ID] = true
		}
	}
}

// judgeTx applies the statement to a transaction the victim holds (pool or main chain).
func (c *c02Env) judgeTx(where, ctx string, tx *types.Tx) {
	r := c.r
	for i, inp := range tx.Inputs {
		if _, ok := inp.TypedInput.(*types.SpendInput); !ok {
			continue
		}
		id, err := inp.SpentOutputID()
		if err != nil {
			continue
		}
		l := c.lockOf(id)
		if l == nil {
			r.Count("probe.spend_of_unknown_output_"+where, 1)
			continue
		}
		r.Count("probe.witness_judged_"+where, 1)
		if !authorised(tx, i, l) {
			label := c.labels[witnessKey(tx)]
			if label == "" {
				label = "unlabelled/" + l.label()
			}
			r.Violate("unauthorised-spend", where+"/"+label, "after %s: the victim %s a transaction whose input %d spends an output locked by %s without %d valid signature(s) of the committed keys over this transaction's signature hash (attempt: %s; %d witness items)",
				ctx, map[string]string{"pool": "admitted to its pool", "chain": "has on its main chain"}[where], i, l.label(), l.Spec.M, label, len(inp.Arguments()))
			return
		}
	}
}

func execC02(t *testing.T, plan any, r *simkit.Run) {
	p := plan.(*C02Plan)
	Bubble(t, func() {
		w := NewWorld(t, r, p.Cfg)
		start := nowMs()
		w.ProduceTree(&TreePlan{Cfg: p.Cfg, Warm: p.Warm}, Oracles{})
		if r.Failed() || len(w.Order) < p.Warm+1 {
			return
		}
		env := newTxEnv(w, r)
		if env.aborted {
			return
		}
		c := &c02Env{txEnv: env, btm: *consensus.BTMAssetID, byOut: map[bc.Hash]*c02Lock{}, unconf: map[bc.Hash]bool{},
			labels: map[bc.Hash]string{}, honest: map[bc.Hash]string{}}
		for i := 0; i < 12; i++ {
			c.members = append(c.members, newKey(200+i))
		}
		for i := 0; i < 7; i++ {
			c.thieves = append(c.thieves, newKey(300+i))
		}
		for _, s := range p.Locks {
			c.locks = append(c.locks, c.makeLock(s))
		}
		env.onPool = func(ctx string, d *protocol.TxDesc) { c.judgeTx("pool", ctx, d.Tx) }
		env.onChain = func(ctx string, pos int, tx *types.Tx) {
			if pos > 0 {
				c.judgeTx("chain", ctx, tx)
			}
		}
		if !c.fund() {
			return
		}
		for i, ev := range p.Events {
			if r.Failed() || env.aborted {
				break
			}
			switch ev.Kind {
			case "mine":
				c.mineAndCheck(fmt.Sprintf("mine#%d", i))
			case "honest":
				c.honestSpend(ev, false)
			case "sweep":
				for n := 0; n < 12 && !r.Failed() && !env.aborted; n++ {
					if len(c.targets(false)) == 0 {
						break
					}
					c.honestSpend(C02Ev{Kind: "honest", T: n, A: n}, true)
				}
			case "poison":
				c.poison(ev)
			case "twin":
				c.twinAfterValid(ev)
			case "attack":
				c.runAttack(ev)
			}
		}
		r.SimTime(msDur(nowMs() - start))
		if !r.Failed() && c.attacks > 0 && c.spends > 0 {
			r.NonTrivial()
		}
	})
}

// fund moves the matured rewards into three outputs per lock plus plain change.
func (c *c02Env) fund() bool {
	w, r := c.w, c.r
	var ins []*model.Out
	var total uint64
	for _, o := range c.confirmedOuts(model.Normal, model.Coinbase) {
		if o.Asset == c.btm && len(ins) < 6 {
			ins = append(ins, o)
			total += o.Amount
		}
	}
	n := 3*len(c.locks) + 3
	fee := FeeFor(len(ins), n)
	if len(ins) == 0 || total < uint64(n)*20000000+fee {
		r.Count("contained.no_capital", 1)
		return false
	}
	rest := total - fee
	each := rest / uint64(n)
	var outs []*types.TxOutput
	for _, l := range c.locks {
		for j := 0; j < 3; j++ {
			outs = append(outs, types.NewOriginalTxOutput(c.btm, each-uint64(j), l.Program, nil))
			rest -= each - uint64(j)
		}
	}
	for j := 0; j < 3; j++ {
		amt := each
		if j == 2 {
			amt = rest
		}
		rest -= amt
		outs = append(outs, types.NewOriginalTxOutput(c.btm, amt, w.Keys[j%len(w.Keys)].Program, nil))
	}
	tx := w.BuildTx(ins, outs, 0)
	admitted, err := c.submit("funding", tx)
	if r.Failed() {
		return false
	}
	if !admitted {
		r.Violate("honest-spend-rejected", "pool/funding", "the funding payment (plain key-hash spends of matured rewards) was refused by the mempool: %v", err)
		return false
	}
	c.noteLocked(tx, false)
	c.honest[tx.ID] = "funding"
	return c.mineAndCheck("funding")
}

// mineAndCheck mines the pending transactions; every honest spend the pool
// admitted must be in the block.
func (c *c02Env) mineAndCheck(ctx string) bool {
	blk := c.mine(ctx)
	if blk == nil {
		return false
	}
	mined := map[bc.Hash]bool{}
	for _, tx := range blk.Transactions {
		mined[tx.ID] = true
	}
	var missing []string
	keys := make([]bc.Hash, 0, len(c.honest))
	for id := range c.honest {
		keys = append(keys, id)
	}
	sort.Slice(keys, func(i, j int) bool { return keys[i].String() < keys[j].String() })
	for _, id := range keys {
		if mined[id] {
			delete(c.honest, id)
			c.r.Count("probe.honest_spend_mined", 1)
		} else {
			missing = append(missing, c.honest[id])
		}
	}
	for _, o := range c.outs {
		if mined[o.TxID] {
			delete(c.unconf, o.ID)
		}
	}
	c.r.Tracef("mine h=%d txs=%d", blk.Height, len(blk.Transactions)-1)
	if len(missing) > 0 {
		sort.Strings(missing)
		c.r.Violate("honest-spend-not-mined", missing[0], "after %s: %d correctly signed spend(s) admitted to the pool were left out of the next honest block (first: %s)", ctx, len(missing), missing[0])
		return false
	}
	return true
}

func (c *c02Env) honestSpend(ev C02Ev, sweep bool) {
	r := c.r
	viaBlock := ev.Via == 1
	ts := c.targets(viaBlock)
	if len(ts) == 0 {
		r.Count("op.not_constructible", 1)
		return
	}
	o := ts[ev.T%len(ts)]
	ins := []*model.Out{o}
	if ev.T2 > 0 && len(ts) > 1 {
		if o2 := ts[(ev.T+ev.T2)%len(ts)]; o2.ID != o.ID {
			ins = append(ins, o2)
		}
	}
	dest := c.w.Keys[ev.B%len(c.w.Keys)].Program
	if ev.Relock > 0 {
		dest = c.locks[(ev.Relock-1)%len(c.locks)].Program
	}
	tx := c.spendTx(ins, dest, ev.A, 0)
	if tx == nil {
		r.Count("op.not_constructible", 1)
		return
	}
	label := c.lockOf(o.ID).label()
	if len(ins) > 1 {
		label += "+" + c.lockOf(ins[1].ID).label()
	}
	for i := range ins {
		if !authorised(tx, i, c.lockOf(ins[i].ID)) {
			harness("the honest client's own witness does not satisfy the statement (%s)", label)
		}
	}
	c.spends++
	r.Count("spend.honest."+c.lockOf(o.ID).Spec.Form, 1)
	if viaBlock {
		wedged := c.poisoned()
		accepted, perr := c.offerByz("block with honest spend of "+label, []*types.Tx{tx})
		r.Tracef("honest %s via block -> %v", label, accepted)
		if r.Failed() || c.aborted {
			return
		}
		if !accepted && wedged {
			r.Count("probe.valid_block_refused_while_wedged", 1)
			return
		}
		if !accepted {
			r.Violate("honest-spend-rejected", "block/"+label, "a validly signed block carrying one correctly signed spend of %s was refused: %v", label, perr)
			return
		}
		c.noteLocked(tx, true)
		return
	}
	admitted, err := c.submit("honest spend of "+label, tx)
	r.Tracef("honest %s -> admitted=%v", label, admitted)
	if r.Failed() {
		return
	}
	if !admitted {
		r.Violate("honest-spend-rejected", "pool/"+label, "a correctly signed spend of %s (signatures of %d committed key(s) in committed order) was refused by the mempool: %v", label, c.lockOf(o.ID).Spec.M, err)
		return
	}
	c.noteLocked(tx, false)
	c.honest[tx.ID] = label
}

// runAttack offers one theft attempt to the mempool and/or inside a Byzantine block.
func (c *c02Env) runAttack(ev C02Ev) {
	r := c.r
	tx, theft, label := c.attack(ev, ev.Via >= 1)
	if tx == nil {
		r.Count("attack.not_constructible."+ev.Attack, 1)
		return
	}
	if _, err := tx.TxData.MarshalText(); err != nil {
		r.Count("attack.not_encodable", 1)
		return
	}
	key := witnessKey(tx)
	c.labels[key] = label
	c.attacks++
	r.Count("fault.theft."+ev.Attack, 1)
	// self-check of the attacker model: a theft must fail the statement's own test
	if theft {
		ok := true
		for i := range tx.Inputs {
			if id, err := tx.Inputs[i].SpentOutputID(); err == nil {
				if l := c.lockOf(id); l != nil && !authorised(tx, i, l) {
					ok = false
				} else if l == nil {
					ok = false // names an output nobody created
				}
			}
		}
		if ok {
			r.Count("probe.theft_passes_statement_test", 1)
		}
	}
	poolRes, blockRes := "-", "-"
	if ev.Via != 1 {
		_, _ = c.victim.SubmitTx(tx)
		tick()
		d := c.inPool(tx.ID)
		in := d != nil && witnessKey(d.Tx) == key
		poolRes = map[bool]string{true: "admitted", false: "refused"}[in]
		if in && theft {
			r.Violate("theft-admitted", "pool/"+label, "the victim's mempool admitted a theft attempt (%s): %d input(s), first witness has %d item(s)", label, len(tx.Inputs), len(tx.Inputs[0].Arguments()))
			return
		}
		if in {
			// not a theft by the statement (permuted order): it now occupies the outputs
			c.pending = append(c.pending, tx)
			c.noteSpent(tx)
			r.Count("probe.non_theft_variant_admitted", 1)
		}
		c.checkPool("attack " + label)
		if r.Failed() {
			return
		}
	}
	if ev.Via >= 1 {
		accepted, _ := c.offerByz("byzantine block with "+label, []*types.Tx{tx})
		blockRes = map[bool]string{true: "accepted", false: "refused"}[accepted]
		r.Count("fault.byzantine_block", 1)
		if r.Failed() {
			return
		}
		if accepted && theft {
			r.Violate("theft-admitted", "chain/"+label, "the victim connected a block carrying a theft attempt (%s)", label)
			return
		}
	}
	r.Tracef("attack %s via=%d theft=%v -> pool=%s block=%s", label, ev.Via, theft, poolRes, blockRes)
}

// poison: a copy of a correctly signed spend with one signature bit flipped
// arrives first (same transaction id: the id does not cover witnesses), then the
// correct one. Whether the node then still takes the correct one is recorded as
// a probe, not judged: the statement is about what may be spent, not about
// censorship through the rejection cache.
func (c *c02Env) poison(ev C02Ev) {
	r := c.r
	ts := c.targets(false)
	if len(ts) == 0 {
		return
	}
	o := ts[ev.T%len(ts)]
	l := c.lockOf(o.ID)
	dest := c.w.Keys[ev.B%len(c.w.Keys)].Program
	good := c.spendTx([]*model.Out{o}, dest, ev.A, 7)
	if good == nil {
		return
	}
	bad := withData(cloneData(good))
	args := bad.Inputs[0].Arguments()
	args[0] = flipBit(args[0], ev.A)
	bad.SetInputArguments(0, args)
	c.labels[witnessKey(bad)] = "poison-flip-sig/" + l.label()
	c.attacks++
	r.Count("fault.theft.poison", 1)
	c.victim.SubmitTx(bad)
	tick()
	if d := c.inPool(bad.ID); d != nil && witnessKey(d.Tx) == witnessKey(bad) {
		r.Violate("theft-admitted", "pool/poison-flip-sig/"+l.label(), "the victim's mempool admitted a spend of %s with one signature bit flipped", l.label())
		return
	}
	admitted, _ := c.submit("correct spend after its bit-flipped twin", good)
	r.Tracef("poison %s -> correct twin admitted=%v", l.label(), admitted)
	if r.Failed() {
		return
	}
	if admitted {
		c.spends++
		c.honest[good.ID] = l.label()
		r.Count("probe.correct_twin_admitted_after_bad_twin", 1)
		return
	}
	r.Count("probe.correct_twin_refused_after_bad_twin", 1)
	// the owners re-sign a different transaction (other fee): that one must pass
	again := c.spendTx([]*model.Out{o}, dest, ev.A, 8)
	admitted, err := c.submit("re-made spend after rejection-cache hit", again)
	if r.Failed() {
		return
	}
	if !admitted {
		r.Violate("honest-spend-rejected", "pool/after-poison/"+l.label(), "a correctly signed spend of %s with a fresh transaction id was refused: %v", l.label(), err)
		return
	}
	c.spends++
	c.honest[again.ID] = l.label()
}

// twinAfterValid: the owners' correctly signed spend reaches the victim first (the mempool validates
// and admits it); then a Byzantine proposer offers a block that carries the same transaction - same
// id, the id does not cover witnesses - with a witness that authorises nothing (a flipped signature
// bit, zeroed or dropped signatures, an empty witness). A node that remembers "this transaction id has
// been verified" instead of verifying what it is given would connect it.
func (c *c02Env) twinAfterValid(ev C02Ev) {
	r := c.r
	ts := c.targets(true)
	if len(ts) == 0 {
		return
	}
	o := ts[ev.T%len(ts)]
	l := c.lockOf(o.ID)
	dest := c.w.Keys[ev.B%len(c.w.Keys)].Program
	good := c.spendTx([]*model.Out{o}, dest, ev.A, 9)
	if good == nil {
		return
	}
	admitted, _ := c.submit("correct spend before its invalid twin", good)
	if r.Failed() || !admitted {
		return
	}
	c.spends++
	c.honest[good.ID] = l.label()
	bad := withData(cloneData(good))
	args := bad.Inputs[0].Arguments()
	kind := []string{"flip-sig", "zero-sig", "drop-sig", "empty-witness"}[ev.Via%4]
	switch kind {
	case "flip-sig":
		args[0] = flipBit(args[0], ev.A)
	case "zero-sig":
		args[0] = make([]byte, len(args[0]))
	case "drop-sig":
		args = args[1:]
	case "empty-witness":
		args = nil
	}
	bad.SetInputArguments(0, args)
	if authorised(bad, 0, l) {
		r.Count("probe.theft_passes_statement_test", 1)
		return
	}
	label := "twin-after-valid-" + kind + "/" + l.label()
	c.labels[witnessKey(bad)] = label
	c.attacks++
	r.Count("fault.theft.twin_after_valid", 1)
	accepted, _ := c.offerByz("byzantine block with "+label, []*types.Tx{bad})
	r.Count("fault.byzantine_block", 1)
	if r.Failed() {
		return
	}
	if accepted {
		r.Violate("theft-admitted", "chain/"+label, "the victim connected a block in which the spend of %s carries a witness that authorises nothing (%s); it had verified the same transaction id with the owners' witness before", l.label(), kind)
		return
	}
	r.Tracef("twin %s -> block refused", label)
}

// SpecC02: standard programs need a matching witness.
func SpecC02() simkit.Spec {
	faults := []string{"fault.byzantine_block", "fault.theft.poison", "fault.theft.twin_after_valid"}
	for _, a := range c02Attacks {
		faults = append(faults, "fault.theft."+a)
	}
	return simkit.Spec{
		Prop: "C02", Gen: genC02, NewPlan: func() any { return &C02Plan{} }, Exec: execC02,
		Rule: "warm-up chain until epoch rewards mature; a victim node follows the chain; honest clients move the rewards into three outputs for each of 1-4 drawn locks (P2WPKH, expanded P2PKH, P2WSH and expanded P2SH over an m-of-n multisig redeem script, bare multisig; n <= 6, every m) and later spend them with the owners' witness (one or two inputs, possibly re-locking), through the mempool or alone inside a validly signed block; " +
			"a Byzantine peer attacks unspent locked outputs with 23 kinds of attempt (signatures by foreign keys; the owners' witness replayed after changing an output amount / program, adding an output or input, the time range, the version, or for another output under the same lock; permuted, repeated, m-1, non-member signatures; foreign or threshold-1 redeem script; an input naming the thief's own program; one flipped bit in a signature, key or script; witnesses swapped between inputs; empty witness; signatures over the transaction id, the input id or another input's hash) through the mempool, inside Byzantine blocks or both; and a Byzantine block that carries an already admitted, correctly signed spend with its witness replaced by one that authorises nothing (same transaction id). " +
			"Oracle on every pool entry and every main-chain transaction: each input spending a client-recorded output carries valid signatures of >= m distinct committed keys over sha3(input id, transaction id) and the committed key / script (ed25519 checked independently); attempts that are thefts by construction must never be held; honest spends must be admitted, mined and accepted in blocks. non-trivial = at least one attempt and one honest spend; distinct = hash of the trace",
		Components:  nodeComponents,
		FaultKinds:  faults,
		Probes:      []string{"probe.witness_judged_pool", "probe.witness_judged_chain", "probe.honest_spend_mined", "probe.correct_twin_refused_after_bad_twin", "probe.correct_twin_admitted_after_bad_twin", "probe.non_theft_variant_admitted", "probe.theft_passes_statement_test", "spend.honest.p2wpkh", "spend.honest.p2pkh", "spend.honest.p2wsh", "spend.honest.p2sh", "spend.honest.multisig"},
		Assumptions: []string{"ed25519 and hashing trusted", "only the three standard shapes (and their expanded forms) are attacked, not arbitrary contracts", "a permuted-order multisig witness is not a theft by the statement; whether the node takes it is recorded, not judged"},
	}
}
