package nodesim

import (
	"github.com/bytom/bytom/consensus"
	"github.com/bytom/bytom/consensus/bcrp"
	"github.com/bytom/bytom/protocol/bc"
	"github.com/bytom/bytom/protocol/bc/types"
	"github.com/bytom/bytom/protocol/vm/vmutil"
	"strings"

	"verif/sim/model"
)

// contractCode returns one of a few tiny contract programs (variant selects which).
func contractCode(variant int) []byte {
	switch variant % 3 {
	case 0:
		return []byte{0x51} // OP_TRUE
	case 1:
		return []byte{0x51, 0x51, 0x9a} // TRUE TRUE BOOLAND
	}
	return []byte{0x52, 0x52, 0x87} // 2 2 EQUAL
}

// withRegistration rebuilds the proposed block with an extra transaction that
// registers a contract (BCRP). Such transactions cannot pass the mempool in this
// tree (any BCRP output is classified as dust), so the proposer includes it by
// hand: the block stays valid, re-signed by the same proposer, and is fed to a
// fresh node whose best block is the parent.
func (w *World) withRegistration(parent bc.Hash, res *ProposeResult, variant int, pst *model.BlockState) *ProposeResult {
	if res == nil || res.Block == nil || res.Err != nil {
		return nil
	}
	btm := *consensus.BTMAssetID
	h := pst.Height + 1
	used := map[bc.Hash]bool{}
	for _, tx := range res.Block.Transactions[1:] {
		for _, inp := range tx.Inputs {
			if id, err := inp.SpentOutputID(); err == nil {
				used[id] = true
			}
		}
	}
	var in *model.Out
	for _, o := range w.Spendable(pst, h, model.Normal, model.Coinbase) {
		if !used[o.ID] && o.Asset == btm && o.Amount > FeeFor(1, 2)+2 {
			in = o
			break
		}
	}
	if in == nil {
		return nil
	}
	prog, err := vmutil.RegisterProgram(contractCode(variant))
	if err != nil || !bcrp.IsBCRPScript(prog) {
		harness("register program: %v", err)
	}
	rest := in.Amount - FeeFor(1, 2)
	reg := w.BuildTx([]*model.Out{in}, []*types.TxOutput{
		types.NewOriginalTxOutput(btm, 1, prog, nil),
		types.NewOriginalTxOutput(btm, rest-1, w.Keys[variant%len(w.Keys)].Program, nil),
	}, 0)
	b := copyBlock(res.Block)
	b.SupLinks = nil
	b.Transactions = append(b.Transactions, reg)
	signer := w.keyByPub[res.Validator]
	if signer == nil {
		return nil
	}
	resign(b, signer, false)
	n, err := w.builderFor(parent)
	if err != nil {
		return nil
	}
	n.SetKey(signer)
	n.Activate()
	out := &ProposeResult{Block: b, Node: n, Validator: res.Validator}
	out.FeedOrphan, out.FeedErr = n.Chain.ProcessBlock(b)
	if out.FeedErr != nil && strings.Contains(out.FeedErr.Error(), "gas is over the limit") {
		// the harness, not the proposer, added the registration: on builds with a small block gas
		// limit it may not fit; the proposer's own block is kept then
		return nil
	}
	return out
}
