package nodesim

import (
	"fmt"
	"testing"
	"testing/synctest"

	"github.com/bytom/bytom/protocol/bc"
	"github.com/bytom/bytom/protocol/bc/types"

	"verif/sim/model"
	"verif/sim/simkit"
)

// Oracles selects which properties' oracles are armed in a run (each check arms
// only its own; defects of other properties are contained and counted).
type Oracles struct {
	C38 bool // own proposals are accepted
	C14 bool // reward table / supply
	C15 bool // validator schedule
}

// Produced is one produced block with what the producer observed.
type Produced struct {
	Hash  bc.Hash
	State *model.BlockState
	Res   *ProposeResult
	Txs   []*types.Tx // transactions offered to the proposer
}

// shortHash renders a stable, run-local name for a block: its production index.
func (w *World) name(h bc.Hash) string {
	for i, x := range w.Order {
		if x == h {
			return fmt.Sprintf("B%d", i)
		}
	}
	return "B?"
}

// ProduceTree runs the production phase of a TreePlan: warm-up chain, then the
// drawn steps, each block built by the real proposer of a node whose best block
// is the chosen parent.
func (w *World) ProduceTree(p *TreePlan, or Oracles) []*Produced {
	r := w.R
	if err := w.InitSnapshots(); err != nil {
		r.Violate("init", "", "node cannot initialise an empty store: %v", err)
		return nil
	}
	var out []*Produced
	steps := make([]BlockStep, 0, p.Warm+len(p.Steps))
	for i := 0; i < p.Warm; i++ {
		steps = append(steps, BlockStep{})
	}
	steps = append(steps, p.Steps...)
	for i, st := range steps {
		if r.Failed() {
			return out
		}
		parent := w.ParentFor(st.Back)
		pst := w.Tree.Nodes[parent]
		if pst.Invalid != nil || w.snaps[parent] == nil {
			// fall back to the most recent extendable block
			found := false
			for j := len(w.Order) - 1; j >= 0; j-- {
				h := w.Order[j]
				if w.Tree.Nodes[h].Invalid == nil && w.snaps[h] != nil {
					parent, pst, found = h, w.Tree.Nodes[h], true
					break
				}
			}
			if !found {
				harness("no extendable block")
			}
		}
		txs := w.MakeTxs(pst, st.Txs, i)
		skip := st.Skip
		w.Jitter = uint64(st.Jit)
		res := w.Propose(parent, skip, txs, nil)
		for try := 0; try < 3 && res.Block != nil && w.Blocks[res.Block.Hash()] != nil; try++ {
			// identical to an existing block (same parent, slot, proposer, content): use a later slot
			skip++
			w.Jitter = uint64(st.Jit)
			res = w.Propose(parent, skip, txs, nil)
		}
		ts := w.SlotTime(w.Blocks[parent], skip) + uint64(st.Jit)
		if st.Reg > 0 {
			if r2 := w.withRegistration(parent, res, st.Reg, pst); r2 != nil {
				res = r2
				r.Count("probe.contract_registration_block", 1)
			}
		}
		if or.C15 {
			want, ok := w.Tree.ScheduledValidator(pst, ts)
			if !ok || want.PubKey != res.Validator {
				r.Violate("schedule", "propose", "block on %s at t=%d: node schedules validator %.16s…, reference schedule says %.16s… (ok=%v)",
					w.name(parent), ts, res.Validator, want.PubKey, ok)
				return out
			}
		}
		if res.Err != nil {
			if or.C38 {
				r.Violate("template", "", "proposer failed to build a block on %s (height %d): %v", w.name(parent), pst.Height+1, res.Err)
			} else {
				r.Count("contained.template_error", 1)
			}
			return out
		}
		if res.FeedErr != nil || res.FeedOrphan {
			if or.C38 {
				r.Violate("own-block-rejected", "", "block built on %s (height %d, %d txs, %d offered) rejected by its own node: orphan=%v err=%v",
					w.name(parent), pst.Height+1, len(res.Block.Transactions)-1, len(txs), res.FeedOrphan, res.FeedErr)
			} else {
				r.Count("contained.own_block_rejected", 1)
			}
			return out
		}
		if _, dup := w.Blocks[res.Block.Hash()]; dup {
			// same parent, slot, proposer and transactions: the identical block again
			r.Count("blocks.identical_reproduced", 1)
			continue
		}
		bst := w.Admit(res)
		pr := &Produced{Hash: res.Block.Hash(), State: bst, Res: res, Txs: txs}
		out = append(out, pr)
		r.Tracef("produce %s on %s h=%d slot+%d txs=%d/%d by=%d", w.name(pr.Hash), w.name(parent), bst.Height, st.Skip,
			len(res.Block.Transactions)-1, len(txs), w.keyByPub[res.Validator].Idx)
		r.Count("blocks.produced", 1)
		r.Count("txs.offered", len(txs))
		r.Count("txs.included", len(res.Block.Transactions)-1)
		if st.Back != 0 {
			r.Count("blocks.fork", 1)
		}
		if bst.Invalid != nil {
			// The node accepted its own block but the reference ledger says it breaks a rule.
			if or.C14 || or.C38 {
				r.Violate("model-rejects-own-block", "", "node produced and accepted %s (height %d) but the reference ledger rejects it: %v",
					w.name(pr.Hash), bst.Height, bst.Invalid)
			} else {
				r.Count("contained.model_rejects", 1)
			}
			return out
		}
		if bst.Height%w.P.E == 1 && bst.Height > 1 {
			r.Count("probe.reward_block", 1)
		}
		if or.C15 && bst.Invalid == nil && (bst.Height%w.P.E == 0 || i%4 == 0) {
			// query the schedule for children of this block over several rotation rounds, on and off the slot grid
			nv := len(w.Tree.EffectiveValidators(w.Tree.CheckpointOf(bst).Votes))
			bh := pr.Hash
			for k := 0; k < 2*nv+2 && !r.Failed(); k++ {
				for _, off := range []uint64{0, 1, 2999, 5999} {
					qt := res.Block.Timestamp + w.P.IntervalMs*uint64(1+k) + off
					want, ok := w.Tree.ScheduledValidator(bst, qt)
					got, err := res.Node.Chain.GetValidator(&bh, qt)
					again, err2 := res.Node.Chain.GetValidator(&bh, qt)
					r.Count("probe.schedule_queries", 1)
					if err != nil || err2 != nil || got == nil || again == nil || !ok || got.PubKey != want.PubKey || again.PubKey != got.PubKey {
						gp := "none"
						if got != nil {
							gp = got.PubKey[:16]
						}
						r.Violate("schedule", "query", "child of %s at t=parent+%dms: node schedules %s…, reference schedule says %.16s… (validators in the epoch: %d)",
							w.name(bh), qt-res.Block.Timestamp, gp, want.PubKey, nv)
						break
					}
				}
			}
		}
		synctest.Wait()
	}
	return out
}

// CheckSupply is the C14 money-supply invariant on node n: BTM in outputs the
// node reports unspent never exceeds the genesis amount plus rewards paid on its
// main chain.
func (w *World) CheckSupply(n *Node, tip *model.BlockState) {
	var unspent, paid uint64
	for _, id := range w.Tree.SortedOutputIDs() {
		o := w.Tree.AllOutputs[id]
		if o.Asset != w.P.BTM {
			continue
		}
		id := id
		e, err := n.Store.GetUtxo(&id)
		if err == nil && !e.Spent {
			unspent += o.Amount
		}
	}
	var genesis uint64
	for _, tx := range w.Genesis.Transactions {
		for _, o := range tx.Outputs {
			if *o.AssetId == w.P.BTM {
				genesis += o.Amount
			}
		}
	}
	for _, s := range model.MainChain(tip) {
		if s.Height == 0 {
			continue
		}
		for _, o := range s.Block.Transactions[0].Outputs {
			paid += o.Amount
		}
	}
	if unspent > genesis+paid {
		w.R.Violate("supply", "", "node %s holds %d BTM unspent, genesis %d + rewards paid %d = %d", n.Name, unspent, genesis, paid, genesis+paid)
	}
}

func runBubble(t *testing.T, r *simkit.Run, f func()) { Bubble(t, f) }
