package nodesim

// Production phase shared by the C03 and C04 checks. It is ProduceTree / Propose
// with one difference: the transactions offered to a proposer arrive one
// millisecond apart. The real proposer orders its mempool by arrival time and
// the mempool hands it over in map order, so transactions arriving in the same
// instant would be ordered differently from one execution to the next, and a
// saved plan would not replay.

import (
	"fmt"
	"testing/synctest"
	"time"

	"github.com/bytom/bytom/proposal"
	"github.com/bytom/bytom/protocol/bc"
	"github.com/bytom/bytom/protocol/bc/types"

	"verif/sim/model"
)

// idPropose builds a block on parent at slot k with the real proposer of a node
// whose best block is parent, and feeds it back to that node.
func (w *World) idPropose(parent bc.Hash, k int, txs []*types.Tx) *ProposeResult {
	res := &ProposeResult{}
	pb := w.Blocks[parent]
	n, err := w.builderFor(parent)
	if err != nil {
		res.Err = err
		return res
	}
	res.Node = n
	ts := w.SlotTime(pb, k) + w.Jitter
	w.Jitter = 0
	if ts > w.P.MaxOffsetMs {
		SleepUntilMs(ts - w.P.MaxOffsetMs + 1)
	}
	v, err := n.Chain.GetValidator(&parent, ts)
	if err != nil || v == nil {
		res.Err = fmt.Errorf("GetValidator: %v", err)
		return res
	}
	res.Validator = v.PubKey
	key := w.keyByPub[v.PubKey]
	if key == nil {
		res.Err = fmt.Errorf("scheduled validator %s is not a simulated key", v.PubKey)
		return res
	}
	n.SetKey(key)
	// The proposer lists the reward payees of an epoch in map order (its own first);
	// with three or more payees the reward block, hence every id derived from it,
	// would differ from one execution to the next. Validators therefore share two
	// payee programs (by key index parity), which keeps every run replayable and
	// still yields reward coinbases with one and with two outputs.
	n.setCoinbaseProgram(w.Keys[key.Idx%2].Program)
	for _, tx := range txs {
		n.SubmitTx(tx)
		time.Sleep(time.Millisecond)
	}
	n.Activate()
	block, err := proposal.NewBlockTemplate(n.Chain, v, n.Acct, ts, time.Second, 2*time.Second)
	if err != nil {
		res.Err = err
		return res
	}
	res.Block = block
	res.FeedOrphan, res.FeedErr = n.Chain.ProcessBlock(block)
	synctest.Wait()
	return res
}

// idProduceTree runs the production phase of a TreePlan (warm-up chain, then the
// drawn steps). Problems that belong to other properties are counted, not reported.
func (w *World) idProduceTree(p *TreePlan, extra ...func(pst *model.BlockState, step int, txs []*types.Tx) []*types.Tx) []*Produced {
	r := w.R
	if err := w.InitSnapshots(); err != nil {
		r.Violate("init", "", "node cannot initialise an empty store: %v", err)
		return nil
	}
	var out []*Produced
	steps := make([]BlockStep, 0, p.Warm+len(p.Steps))
	for i := 0; i < p.Warm; i++ {
		steps = append(steps, BlockStep{})
	}
	steps = append(steps, p.Steps...)
	for i, st := range steps {
		if r.Failed() {
			return out
		}
		parent := w.ParentFor(st.Back)
		pst := w.Tree.Nodes[parent]
		if pst.Invalid != nil || w.snaps[parent] == nil {
			found := false
			for j := len(w.Order) - 1; j >= 0; j-- {
				h := w.Order[j]
				if w.Tree.Nodes[h].Invalid == nil && w.snaps[h] != nil {
					parent, pst, found = h, w.Tree.Nodes[h], true
					break
				}
			}
			if !found {
				harness("no extendable block")
			}
		}
		txs := w.MakeTxs(pst, st.Txs, i)
		for _, f := range extra {
			// further transactions of the calling check for this block (post warm-up steps only)
			if i >= p.Warm {
				txs = f(pst, i-p.Warm, txs)
			}
		}
		if r.Failed() {
			return out
		}
		skip := st.Skip
		w.Jitter = uint64(st.Jit)
		res := w.idPropose(parent, skip, txs)
		for try := 0; try < 3 && res.Block != nil && w.Blocks[res.Block.Hash()] != nil; try++ {
			skip++
			w.Jitter = uint64(st.Jit)
			res = w.idPropose(parent, skip, txs)
		}
		if res.Err != nil {
			r.Count("contained.template_error", 1)
			return out
		}
		if res.FeedErr != nil || res.FeedOrphan {
			r.Count("contained.own_block_rejected", 1)
			return out
		}
		if _, dup := w.Blocks[res.Block.Hash()]; dup {
			r.Count("blocks.identical_reproduced", 1)
			continue
		}
		bst := w.Admit(res)
		pr := &Produced{Hash: res.Block.Hash(), State: bst, Res: res, Txs: txs}
		out = append(out, pr)
		r.Tracef("produce %s on %s h=%d slot+%d txs=%d/%d by=%d", w.name(pr.Hash), w.name(parent), bst.Height, st.Skip,
			len(res.Block.Transactions)-1, len(txs), w.keyByPub[res.Validator].Idx)
		r.Count("blocks.produced", 1)
		r.Count("txs.offered", len(txs))
		r.Count("txs.included", len(res.Block.Transactions)-1)
		if st.Back != 0 {
			r.Count("blocks.fork", 1)
		}
		if bst.Invalid != nil {
			r.Count("contained.model_rejects", 1)
			return out
		}
		synctest.Wait()
	}
	return out
}
