package nodesim

// C27 "built and signed wallet transactions are valid and pay as requested".
//
// A wallet node with three accounts (single key, 2-of-3 multisig, single key)
// funded from epoch rewards and from harness-made split transactions (so that the
// accounts hold drawn UTXO sets) executes drawn action lists through the REAL
// builders: account spend_account / spend_account_unspent_output, asset issue,
// txbuilder control_address / control_program / retire, txbuilder.Build,
// txbuilder.Sign with a sign function over harness-held root keys, then what
// FinalizeTx does (size, Chain.ValidateTx), then the real proposer on the wallet
// node and a peer node that must accept the block.

import (
	"bytes"
	"context"
	"encoding/hex"
	"encoding/json"
	"fmt"
	"math/big"
	"sort"
	"testing"
	"time"

	"pgregory.net/rapid"

	"github.com/bytom/bytom/account"
	"github.com/bytom/bytom/asset"
	"github.com/bytom/bytom/blockchain/txbuilder"
	"github.com/bytom/bytom/consensus"
	"github.com/bytom/bytom/crypto/ed25519/chainkd"
	bytomerrors "github.com/bytom/bytom/errors"
	"github.com/bytom/bytom/protocol/bc"
	"github.com/bytom/bytom/protocol/bc/types"

	"verif/sim/model"
	"verif/sim/simdisk"
	"verif/sim/simkit"
)

// C27Recv is one abstract receiver of an action list.
type C27Recv struct {
	Kind   string `json:"k"`               // addr | prog | retire
	To     int    `json:"to,omitempty"`    // addr: wallet program pick; prog: external key pick
	Weight int    `json:"w"`               // share of the amount to distribute (1-9)
	Asset  int    `json:"asset,omitempty"` // 0 = BTM, 1 = the list's other asset
}

// C27List is one abstract action list.
type C27List struct {
	Spenders  []int     `json:"spenders"`        // account picks (repeats allowed: several spend actions of one account)
	Asset     int       `json:"asset,omitempty"` // 0 = BTM only; k > 0 = also move asset k (issued in this list if nobody holds it)
	IssueAmt  int       `json:"issue,omitempty"` // amount class of an issuance
	Recv      []C27Recv `json:"recv"`
	Frac      int       `json:"frac"`            // tenths of each spender's usable BTM to spend (1-9); 10 = more than it owns (cannot be funded)
	Fee       int       `json:"fee,omitempty"`   // fee class
	Merge     bool      `json:"merge,omitempty"` // merge spends of one account and asset first (as the RPC layer does)
	Utxo      bool      `json:"utxo,omitempty"`  // first spender also spends one particular output
	TimeRange int       `json:"time_range,omitempty"`
	SkipKey   int       `json:"skip_key,omitempty"` // multisig: 1-3 = that root key does not sign
	TwoStep   bool      `json:"two_step,omitempty"` // build in two calls: the second half of the actions is added onto the first call's transaction (Build's base transaction)
}

// C27Plan is the plan of C27.
type C27Plan struct {
	Cfg   WorldCfg  `json:"cfg"`
	Salt  int       `json:"salt"`
	Extra int       `json:"extra"` // blocks after the warm-up before the funding block
	Split []int     `json:"split"` // weights of the outputs of the funding transactions (program picks by position)
	Lists []C27List `json:"lists"`
}

func genC27(rt *rapid.T) any {
	cfg := GenCfg(rt, 2)
	p := &C27Plan{Cfg: cfg, Salt: rapid.IntRange(0, 1<<20).Draw(rt, "salt"), Extra: rapid.IntRange(0, 6).Draw(rt, "extra")}
	for i, n := 0, rapid.IntRange(3, 12).Draw(rt, "nsplit"); i < n; i++ {
		p.Split = append(p.Split, rapid.IntRange(1, 9).Draw(rt, "weight"))
	}
	for i, n := 0, rapid.IntRange(2, 6).Draw(rt, "nlists"); i < n; i++ {
		l := C27List{Frac: rapid.SampledFrom([]int{3, 1, 5, 7, 9, 9, 10, 11}).Draw(rt, "frac"), Fee: rapid.IntRange(0, 2).Draw(rt, "fee"),
			Merge: rapid.Bool().Draw(rt, "merge"), Utxo: rapid.IntRange(0, 3).Draw(rt, "utxoq") == 3,
			TimeRange: rapid.SampledFrom([]int{0, 0, 3, 50}).Draw(rt, "timerange"), SkipKey: rapid.IntRange(0, 3).Draw(rt, "skipkey")}
		l.TwoStep = rapid.IntRange(0, 2).Draw(rt, "twostep") == 2
		for j, m := 0, rapid.IntRange(1, 3).Draw(rt, "nspend"); j < m; j++ {
			l.Spenders = append(l.Spenders, rapid.IntRange(0, 2).Draw(rt, "spender"))
		}
		if rapid.IntRange(0, 2).Draw(rt, "assetq") == 2 {
			l.Asset = rapid.IntRange(1, 2).Draw(rt, "asset")
			l.IssueAmt = rapid.IntRange(0, 3).Draw(rt, "issueamt")
		}
		for j, m := 0, rapid.IntRange(1, 4).Draw(rt, "nrecv"); j < m; j++ {
			rc := C27Recv{Kind: rapid.SampledFrom([]string{"addr", "addr", "prog", "retire"}).Draw(rt, "recvkind"),
				To: rapid.IntRange(0, 9).Draw(rt, "to"), Weight: rapid.IntRange(1, 9).Draw(rt, "w")}
			if l.Asset > 0 && rapid.Bool().Draw(rt, "recvasset") {
				rc.Asset = 1
			}
			l.Recv = append(l.Recv, rc)
		}
		p.Lists = append(p.Lists, l)
	}
	return p
}

// c27sim is the state of one C27 run.
type c27sim struct {
	r       *simkit.Run
	w       *World
	wn      *WalletNode
	peer    *Node
	assets  map[int]*asset.Asset // plan asset number -> defined asset
	built   int
	mined   int
	refused int
}

// ownBlock lets the wallet node propose its next block, records it and feeds the peer.
func (s *c27sim) ownBlock(txs []*types.Tx) *types.Block {
	w, r, wn := s.w, s.r, s.wn
	old := wn.Best()
	h := w.Blocks[old].Height + 1
	// one payee per epoch: the three accounts in turn
	a := wn.Accts[int((h-1)/w.P.E)%len(wn.Accts)]
	res := w.ProposeOn(wn.Node, a.Progs[0].CP.ControlProgram, 0, txs)
	if res.Err != nil || res.Block == nil {
		r.Violate("propose", "template", "the wallet node's proposer cannot build block %d: %v", h, res.Err)
		return nil
	}
	if res.FeedErr != nil || res.FeedOrphan {
		r.Violate("propose", "own-block-rejected", "the wallet node rejects its own block %d: orphan=%v err=%v", h, res.FeedOrphan, res.FeedErr)
		return nil
	}
	w.Admit(res)
	r.Count("blocks.produced", 1)
	orphan, err := s.peer.Process(res.Block)
	if err != nil || orphan || s.peer.Best() != res.Block.Hash() {
		r.Violate("peer-rejects-block", "", "a peer rejects block %d (%d transactions) built by the wallet node: orphan=%v err=%v", h, len(res.Block.Transactions), orphan, err)
		return nil
	}
	return res.Block
}

// balances sums what each account holds per asset on the wallet node's main chain:
// usable = what the wallet may reserve now (not a vote output, matured one block ago
// at least), total = everything unspent that is not a vote output.
type holding struct {
	usable, total uint64
	outs          []*Owned // usable outputs
}

func (s *c27sim) holdings() (map[string]*holding, map[bc.Hash]*Owned, uint64) {
	scan, best, err := s.wn.ScanMainChain(s.wn.Chain, false)
	if err != nil {
		harness("scan: %v", err)
	}
	m := map[string]*holding{}
	for _, o := range OwnedList(scan) {
		if o.Kind == model.Vote {
			continue
		}
		k := o.Prog.Acct.Name + "/" + o.Asset.String()
		if m[k] == nil {
			m[k] = &holding{}
		}
		m[k].total += o.Amount
		if o.Kind != model.Coinbase || o.Height+model.CoinbaseMaturity <= best {
			m[k].usable += o.Amount
			m[k].outs = append(m[k].outs, o)
		}
	}
	return m, scan, best
}

type wantRecv struct {
	kind    string
	asset   bc.AssetID
	program []byte
	amount  uint64
}

func mustAction(a txbuilder.Action, err error) txbuilder.Action {
	if err != nil {
		harness("decode action: %v", err)
	}
	return a
}

func jsonOf(v map[string]any) []byte {
	b, err := json.Marshal(v)
	if err != nil {
		harness("%v", err)
	}
	return b
}

// defineAsset defines plan asset k through the real registry (issuer keys: harness-held).
func (s *c27sim) defineAsset(k int) *asset.Asset {
	if a := s.assets[k]; a != nil {
		return a
	}
	wn := s.wn
	var xpubs []chainkd.XPub
	quorum := 1
	nkeys := 1
	if k%2 == 0 {
		nkeys, quorum = 2, 2
	}
	for i := 0; i < nkeys; i++ {
		key := newKey(500 + 10*k + i)
		wn.rootByXP[key.Xpub] = key
		xpubs = append(xpubs, key.Xpub)
	}
	a, err := wn.Assets.Define(xpubs, quorum, map[string]interface{}{"name": fmt.Sprintf("asset%d", k), "decimals": 2}, 0, fmt.Sprintf("ASSET%d", k), nil)
	if err != nil {
		harness("define asset: %v", err)
	}
	s.assets[k] = a
	return a
}

var reservationErrors = []error{account.ErrInsufficient, account.ErrImmature, account.ErrReserved}

// fundingFailure reports whether err is a Build failure whose every cause is of the
// insufficient-funds class and (if want is set) one of them is exactly want.
func fundingFailure(err error, want error) (bool, string) {
	if bytomerrors.Root(err) != txbuilder.ErrAction {
		return false, fmt.Sprintf("%v", err)
	}
	errs, _ := bytomerrors.Data(err)["actions"].([]error)
	if len(errs) == 0 {
		return false, "no action errors"
	}
	exact := want == nil
	for _, e := range errs {
		ok := false
		for _, cls := range reservationErrors {
			ok = ok || bytomerrors.Root(e) == cls
		}
		if !ok {
			return false, fmt.Sprintf("%v", bytomerrors.Root(e))
		}
		exact = exact || bytomerrors.Root(e) == want
	}
	if !exact {
		return false, fmt.Sprintf("%v (expected: %v)", bytomerrors.Root(errs[0]), want)
	}
	return true, ""
}

func feeClass(c int) uint64 { return []uint64{12000000, 20000000, 35000000}[c%3] }

// runList executes one action list.
func (s *c27sim) runList(li int, l C27List) {
	w, r, wn := s.w, s.r, s.wn
	btm := *consensus.BTMAssetID
	hold, scan, best := s.holdings()
	ctx := fmt.Sprintf("list %d", li)

	// ---- turn the abstract list into amounts
	var spenders []*WAccount
	for _, i := range l.Spenders {
		spenders = append(spenders, wn.Accts[i%len(wn.Accts)])
	}
	unfundable := l.Frac >= 10
	beyondMature := false
	spendOf := map[string]uint64{} // account/asset -> requested spend in total
	var actions []txbuilder.Action
	var order []string // human-readable action kinds, for traces
	seenSpender := map[string]int{}
	var particular *Owned
	var totalBTM uint64
	for i, a := range spenders {
		h := hold[a.Name+"/"+btm.String()]
		if h == nil {
			h = &holding{}
		}
		seenSpender[a.Name]++
		// the share of this action: the account's usable funds are divided over its spend actions
		n := 0
		for _, b := range spenders {
			if b == a {
				n++
			}
		}
		base := h.usable
		if particular != nil && particular.Prog.Acct == a {
			base -= particular.Amount // already spent whole by the first action
		}
		amt := base / uint64(n) * uint64(l.Frac) / 10
		if l.Frac == 11 && i == 0 && h.total > h.usable {
			// more than is usable now, less than the account owns: part of it is still immature
			amt = h.usable + (h.total-h.usable)/2 + 1
			beyondMature = true
			r.Count("lists.asked_beyond_mature", 1)
		} else if l.Frac == 11 {
			amt = h.usable / uint64(n) / 2
		} else if unfundable && i == 0 {
			amt = h.total + 1 + uint64(l.Fee)*1000
		} else if unfundable {
			amt = h.usable / uint64(n) / 2
		}
		if l.Utxo && i == 0 && !unfundable && len(h.outs) > 0 {
			// one particular output first (spent whole), the rest of the share by amount
			particular = h.outs[(l.Fee+l.TimeRange)%len(h.outs)]
			id := particular.ID
			actions = append(actions, mustAction(wn.Acct.DecodeSpendUTXOAction(jsonOf(map[string]any{"output_id": id.String()}))))
			order = append(order, "utxo:"+a.Name)
			spendOf[a.Name+"/"+btm.String()] += particular.Amount
			totalBTM += particular.Amount
			rest := (h.usable - particular.Amount) / uint64(n) * uint64(l.Frac) / 10
			amt = rest
		}
		if amt == 0 {
			continue
		}
		actions = append(actions, mustAction(wn.Acct.DecodeSpendAction(jsonOf(map[string]any{"account_id": a.Acc.ID, "asset_id": btm.String(), "amount": amt}))))
		order = append(order, "spend:"+a.Name)
		spendOf[a.Name+"/"+btm.String()] += amt
		totalBTM += amt
	}
	fee := feeClass(l.Fee)
	// the other asset: spend it from the first spender that holds it, else issue it
	var other *asset.Asset
	var otherAmt uint64
	issued := false
	if l.Asset > 0 {
		other = s.defineAsset(l.Asset)
		for _, a := range spenders {
			if h := hold[a.Name+"/"+other.AssetID.String()]; h != nil && h.usable > 0 {
				otherAmt = h.usable * uint64(l.Frac) / 10
				if unfundable {
					otherAmt = h.usable
				}
				if otherAmt == 0 {
					otherAmt = h.usable
				}
				actions = append(actions, mustAction(wn.Acct.DecodeSpendAction(jsonOf(map[string]any{"account_id": a.Acc.ID, "asset_id": other.AssetID.String(), "amount": otherAmt}))))
				order = append(order, "spend-asset:"+a.Name)
				spendOf[a.Name+"/"+other.AssetID.String()] += otherAmt
				break
			}
		}
		if otherAmt == 0 {
			otherAmt = []uint64{1, 1000, 123456789, 1 << 40}[l.IssueAmt%4]
			id := other.AssetID
			actions = append(actions, wn.Assets.NewIssueAction(bc.AssetAmount{AssetId: &id, Amount: otherAmt}))
			order = append(order, "issue")
			issued = true
		}
	}
	if totalBTM <= fee+uint64(len(l.Recv)) || len(actions) == 0 {
		r.Count("lists.skipped_no_funds", 1)
		return
	}
	// receivers
	var wants []wantRecv
	split := func(total uint64, recvs []C27Recv, assetID bc.AssetID) {
		var wsum uint64
		for _, rc := range recvs {
			wsum += uint64(rc.Weight)
		}
		left := total
		for i, rc := range recvs {
			amt := total / wsum * uint64(rc.Weight)
			if i == len(recvs)-1 {
				amt = left
			}
			if amt == 0 {
				amt = 1
			}
			if amt > left {
				amt = left
			}
			left -= amt
			if amt == 0 {
				continue
			}
			switch rc.Kind {
			case "addr":
				progs := s.allProgs()
				p := progs[rc.To%len(progs)]
				actions = append(actions, mustAction(txbuilder.DecodeControlAddressAction(jsonOf(map[string]any{"address": p.CP.Address, "asset_id": assetID.String(), "amount": amt}))))
				wants = append(wants, wantRecv{"addr", assetID, p.CP.ControlProgram, amt})
			case "prog":
				k := w.Keys[rc.To%len(w.Keys)]
				actions = append(actions, mustAction(txbuilder.DecodeControlProgramAction(jsonOf(map[string]any{"control_program": hex.EncodeToString(k.Program), "asset_id": assetID.String(), "amount": amt}))))
				wants = append(wants, wantRecv{"prog", assetID, k.Program, amt})
			case "retire":
				actions = append(actions, mustAction(txbuilder.DecodeRetireAction(jsonOf(map[string]any{"asset_id": assetID.String(), "amount": amt, "arbitrary": hex.EncodeToString([]byte{byte(li), byte(i)})}))))
				wants = append(wants, wantRecv{"retire", assetID, nil, amt})
			}
			order = append(order, rc.Kind)
		}
	}
	var btmRecv, otherRecv []C27Recv
	for _, rc := range l.Recv {
		if rc.Asset == 1 && other != nil {
			otherRecv = append(otherRecv, rc)
		} else {
			btmRecv = append(btmRecv, rc)
		}
	}
	if other != nil && len(otherRecv) == 0 {
		otherRecv = append(otherRecv, C27Recv{Kind: "addr", To: l.Fee + l.TimeRange, Weight: 1})
	}
	if len(btmRecv) == 0 {
		btmRecv = append(btmRecv, C27Recv{Kind: "addr", To: l.Fee, Weight: 1})
	}
	split(totalBTM-fee, btmRecv, btm)
	if other != nil {
		split(otherAmt, otherRecv, other.AssetID)
	}
	if l.Merge {
		actions = account.MergeSpendAction(actions)
	}

	// ---- can the wallet fund it? (from the independent scan)
	mustFail, mustWork := false, true
	keys := make([]string, 0, len(spendOf))
	for k := range spendOf {
		keys = append(keys, k)
	}
	sort.Strings(keys)
	for _, k := range keys {
		h := hold[k]
		if h == nil {
			h = &holding{}
		}
		if spendOf[k] > h.total {
			mustFail = true
		}
		if spendOf[k] > h.usable {
			mustWork = false
		}
	}

	// several unmerged spend actions of one account reserve separately and each needs outputs
	// of its own: whether that works depends on how the funds are cut, so only the error class is judged
	if !l.Merge {
		for _, n := range seenSpender {
			if n > 1 {
				mustWork = false
			}
		}
	}
	if particular != nil && seenSpender[particular.Prog.Acct.Name] > 0 {
		// the particular output is reserved first; the account's spend by amount must be funded by its other outputs
		k := particular.Prog.Acct.Name + "/" + btm.String()
		if spendOf[k]-particular.Amount > hold[k].usable-particular.Amount {
			mustWork = false
		}
	}

	// ---- build
	timeRange := uint64(0)
	if l.TimeRange > 0 {
		timeRange = best + uint64(l.TimeRange)
	}
	maxTime := time.Now().Add(60 * time.Second)
	var tpl *txbuilder.Template
	var err error
	if l.TwoStep && len(actions) >= 2 {
		// two parties (or one caller in two requests): the first half is built alone, the second half is added
		// onto that transaction as Build's base; the signing instructions of both calls together are the
		// template of the final transaction
		k := len(actions) / 2
		var first *txbuilder.Template
		if first, err = txbuilder.Build(context.Background(), nil, actions[:k], maxTime, timeRange); err == nil {
			base := first.Transaction.TxData
			if tpl, err = txbuilder.Build(context.Background(), &base, actions[k:], maxTime, timeRange); err == nil {
				tpl.SigningInstructions = append(append([]*txbuilder.SigningInstruction{}, first.SigningInstructions...), tpl.SigningInstructions...)
				r.Count("lists.two_step_builds", 1)
			}
		}
	} else {
		tpl, err = txbuilder.Build(context.Background(), nil, actions, maxTime, timeRange)
	}
	r.Tracef("%s: %v frac=%d merge=%v -> built=%v mustFail=%v mustWork=%v", ctx, order, l.Frac, l.Merge, err == nil, mustFail, mustWork)
	if err != nil {
		// more than the account owns: insufficient; within what it owns but beyond what is mature: immature
		var wantErr error
		dupUnmerged := false
		if !l.Merge {
			for _, n := range seenSpender {
				dupUnmerged = dupUnmerged || n > 1
			}
		}
		if particular != nil || dupUnmerged {
			// outputs reserved by the list's own earlier actions change which reason the keeper
			// gives, and unmerged actions are judged one by one: only the class is required
		} else if mustFail {
			wantErr = account.ErrInsufficient
		} else if beyondMature {
			wantErr = account.ErrImmature
		}
		isFunding, why := fundingFailure(err, wantErr)
		switch {
		case mustWork:
			r.Violate("build-failed", "fundable", "%s (%v): every spending account holds enough usable funds, Build fails: %v", ctx, order, err)
		case !isFunding:
			r.Violate("build-failed", "wrong-error-class", "%s (%v): the list cannot be funded, Build fails with %s instead of an insufficient-funds error", ctx, order, why)
		default:
			s.refused++
			r.Count("lists.refused_insufficient", 1)
		}
		s.expireReservations()
		return
	}
	if mustFail {
		r.Violate("built-unfundable", "", "%s (%v): an account is asked for more than it owns, yet Build produced a transaction", ctx, order)
		return
	}
	s.built++
	r.Count("lists.built", 1)
	if issued {
		r.Count("lists.with_issue", 1)
	}

	// ---- sign: every held key signs (one signature per call and witness, as with one password per call)
	skip := map[chainkd.XPub]bool{}
	for _, a := range wn.Accts {
		if len(a.Roots) == 3 && a.Quorum <= 2 && l.SkipKey > 0 {
			skip[a.Roots[(l.SkipKey-1)%3].Xpub] = true
		}
	}
	for i := 0; i < 3; i++ {
		if err := txbuilder.Sign(context.Background(), tpl, "", wn.SignFn(skip)); err != nil {
			r.Violate("sign-failed", "", "%s (%v): Sign fails: %v", ctx, order, err)
			return
		}
	}
	if !txbuilder.SignProgress(tpl) {
		r.Violate("sign-incomplete", "", "%s (%v): all needed keys signed, the template still misses signatures", ctx, order)
		return
	}

	// ---- what FinalizeTx does before handing the transaction to the chain
	tx := tpl.Transaction
	raw, err := tx.TxData.MarshalText()
	if err != nil {
		r.Violate("serialize", "", "%s: %v", ctx, err)
		return
	}
	tx.TxData.SerializedSize = uint64(len(raw) / 2)
	tx.Tx.SerializedSize = uint64(len(raw) / 2)

	// ---- judge the transaction as parsed from its bytes
	parsed := &types.Tx{}
	if err := parsed.UnmarshalText(raw); err != nil {
		r.Violate("serialize", "reparse", "%s: the signed transaction does not parse back: %v", ctx, err)
		return
	}
	if !s.judge(ctx, order, parsed, tpl, wants, spendOf, scan, particular, other, otherAmt, issued, fee) {
		return
	}

	// ---- consensus: mempool admission, then the real proposer, then a peer
	orphan, err := wn.SubmitTx(tx)
	if err != nil || orphan {
		ample := (tx.TxData.SerializedSize + 12000*uint64(len(tx.Inputs))) * 200
		if fee < ample {
			r.Count("contained.fee_below_ample_bound", 1)
			s.expireReservations()
			return
		}
		r.Violate("rejected", "mempool", "%s (%v, %d inputs, %d outputs, fee %d): the node rejects the built and signed transaction: orphan=%v err=%v", ctx, order, len(tx.Inputs), len(tx.Outputs), fee, orphan, err)
		return
	}
	blk := s.ownBlock(nil)
	if blk == nil {
		return
	}
	in := false
	for _, btx := range blk.Transactions {
		in = in || btx.ID == tx.ID
	}
	if !in {
		r.Violate("rejected", "proposer", "%s (%v): the proposer leaves the admitted transaction out of the next block (height %d, time range %d)", ctx, order, blk.Height, timeRange)
		return
	}
	s.mined++
	r.Count("lists.mined", 1)
	r.Count("inputs.total", len(tx.Inputs))
	if len(tx.Inputs) > len(l.Spenders)+1 {
		r.Count("probe.several_inputs_per_spend", 1)
	}
	s.expireReservations()
}

// expireReservations lets virtual time pass the reservations' expiry.
func (s *c27sim) expireReservations() { time.Sleep(62 * time.Second) }

func (s *c27sim) allProgs() []*WProg {
	var ps []*WProg
	for _, a := range s.wn.Accts {
		ps = append(ps, a.Progs...)
	}
	return ps
}

// judge is the oracle on the built transaction.
func (s *c27sim) judge(ctx string, order []string, tx *types.Tx, tpl *txbuilder.Template, wants []wantRecv, spendOf map[string]uint64,
	scan map[bc.Hash]*Owned, particular *Owned, other *asset.Asset, otherAmt uint64, issued bool, fee uint64) bool {
	r, wn := s.r, s.wn
	btm := *consensus.BTMAssetID
	// inputs: wallet outputs of the named accounts, or the requested issuance
	inOf := map[string]*big.Int{}
	add := func(m map[string]*big.Int, k string, v uint64) {
		if m[k] == nil {
			m[k] = new(big.Int)
		}
		m[k].Add(m[k], new(big.Int).SetUint64(v))
	}
	sawParticular := particular == nil
	issues := 0
	seen := map[bc.Hash]bool{}
	for i, inp := range tx.Inputs {
		switch inp.InputType() {
		case types.IssuanceInputType:
			issues++
			if !issued || inp.AssetID() != other.AssetID || inp.Amount() != otherAmt {
				r.Violate("inputs", "unrequested-issuance", "%s (%v): input %d issues %d of an asset nobody asked for", ctx, order, i, inp.Amount())
				return false
			}
		case types.SpendInputType:
			id, err := inp.SpentOutputID()
			o := scan[id]
			if err != nil || o == nil || seen[id] {
				r.Violate("inputs", "not-a-wallet-output", "%s (%v): input %d does not spend an unspent wallet output of the main chain (or spends one twice)", ctx, order, i)
				return false
			}
			seen[id] = true
			if o.Asset != inp.AssetID() || o.Amount != inp.Amount() || !bytes.Equal(o.Program, inp.ControlProgram()) {
				r.Violate("inputs", "wrong-commitment", "%s (%v): input %d states asset/amount/program that differ from the output it spends", ctx, order, i)
				return false
			}
			k := o.Prog.Acct.Name + "/" + o.Asset.String()
			if _, ok := spendOf[k]; !ok {
				r.Violate("inputs", "unasked-account", "%s (%v): input %d takes %s funds of %s, which no action spends", ctx, order, i, assetName(o.Asset), o.Prog.Acct.Name)
				return false
			}
			add(inOf, k, o.Amount)
			if particular != nil && id == particular.ID {
				sawParticular = true
			}
		default:
			r.Violate("inputs", "kind", "%s (%v): input %d is neither a spend nor an issuance", ctx, order, i)
			return false
		}
	}
	if !sawParticular {
		r.Violate("inputs", "particular-output-missing", "%s (%v): the output named by spend_account_unspent_output is not among the inputs", ctx, order)
		return false
	}
	if issued && issues != 1 {
		r.Violate("inputs", "issuance-count", "%s (%v): %d issuance inputs for one issue action", ctx, order, issues)
		return false
	}
	// outputs: one per receiver with exactly its amount; everything else is change of a spending account
	matched := make([]bool, len(tx.Outputs))
	for _, wnt := range wants {
		found := false
		for j, o := range tx.Outputs {
			if matched[j] || *o.AssetId != wnt.asset || o.Amount != wnt.amount || o.OutputType() != types.OriginalOutputType {
				continue
			}
			if wnt.kind == "retire" {
				if len(o.ControlProgram) == 0 || o.ControlProgram[0] != 0x6a {
					continue
				}
			} else if !bytes.Equal(o.ControlProgram, wnt.program) {
				continue
			}
			matched[j], found = true, true
			break
		}
		if !found {
			r.Violate("receiver", wnt.kind+"/"+assetName(wnt.asset), "%s (%v): no output pays the %s receiver exactly %d of %s", ctx, order, wnt.kind, wnt.amount, assetName(wnt.asset))
			return false
		}
	}
	changeOf := map[string]*big.Int{}
	for j, o := range tx.Outputs {
		if matched[j] {
			continue
		}
		p := wn.Owner(o.ControlProgram)
		if p == nil || o.OutputType() != types.OriginalOutputType {
			r.Violate("stray-output", assetName(*o.AssetId), "%s (%v): output %d (%d of %s) pays neither a receiver nor a wallet program", ctx, order, j, o.Amount, assetName(*o.AssetId))
			return false
		}
		k := p.Acct.Name + "/" + o.AssetId.String()
		if _, ok := spendOf[k]; !ok {
			r.Violate("change", "to-other-account/"+assetName(*o.AssetId), "%s (%v): output %d returns %d of %s to %s, which does not spend that asset", ctx, order, j, o.Amount, assetName(*o.AssetId), p.Acct.Name)
			return false
		}
		add(changeOf, k, o.Amount)
	}
	keys := make([]string, 0, len(spendOf))
	for k := range spendOf {
		keys = append(keys, k)
	}
	sort.Strings(keys)
	for _, k := range keys {
		in, ch := inOf[k], changeOf[k]
		if in == nil {
			in = new(big.Int)
		}
		if ch == nil {
			ch = new(big.Int)
		}
		want := new(big.Int).Sub(in, new(big.Int).SetUint64(spendOf[k]))
		if want.Sign() < 0 || want.Cmp(ch) != 0 {
			an := "asset"
			if k[len(k)-len(btm.String()):] == btm.String() {
				an = "btm"
			}
			r.Violate("change", "amount/"+an, "%s (%v): %s puts in %s, is asked for %d, gets %s back (should be %s)", ctx, order, k[:2], in, spendOf[k], ch, want)
			return false
		}
	}
	// fee = BTM in - BTM out, in exact arithmetic, and what the template and the transaction report
	inBTM, outBTM := new(big.Int), new(big.Int)
	for _, inp := range tx.Inputs {
		if inp.AssetID() == btm {
			inBTM.Add(inBTM, new(big.Int).SetUint64(inp.Amount()))
		}
	}
	for _, o := range tx.Outputs {
		if *o.AssetId == btm {
			outBTM.Add(outBTM, new(big.Int).SetUint64(o.Amount))
		}
	}
	diff := new(big.Int).Sub(inBTM, outBTM)
	if diff.Sign() < 0 || !diff.IsUint64() || diff.Uint64() != tx.TxData.Fee() || diff.Uint64() != tpl.Fee {
		r.Violate("fee", "reported", "%s (%v): BTM in - BTM out = %s, TxData.Fee() = %d, template fee = %d", ctx, order, diff, tx.TxData.Fee(), tpl.Fee)
		return false
	}
	if diff.Uint64() != fee {
		r.Violate("fee", "requested", "%s (%v): the actions leave %d BTM as fee, the transaction pays %s", ctx, order, fee, diff)
		return false
	}
	return true
}

func assetName(a bc.AssetID) string {
	if a == *consensus.BTMAssetID {
		return "btm"
	}
	return "asset"
}

func execC27(t *testing.T, plan any, r *simkit.Run) {
	p := plan.(*C27Plan)
	restore := installDetRand(p.Salt)
	defer restore()
	Bubble(t, func() {
		w := NewWorld(t, r, p.Cfg)
		start := nowMs()
		if err := w.InitSnapshots(); err != nil {
			r.Violate("init", "", "node cannot initialise an empty store: %v", err)
			return
		}
		specs := []AcctSpec{{Keys: 1, Quorum: 1, Addrs: 2}, {Keys: 3, Quorum: 2, Addrs: 1}, {Keys: 1, Quorum: 1, Addrs: 1}}
		wn, err := w.StartWalletNode("wallet", w.snaps[w.Genesis.Hash()].Clone(), specs, false)
		if err != nil {
			r.Violate("init", "wallet", "wallet node cannot start: %v", err)
			return
		}
		peer, err := w.StartNode("peer", simdisk.New(), observerKey())
		if err != nil {
			r.Violate("init", "peer", "%v", err)
			return
		}
		s := &c27sim{r: r, w: w, wn: wn, peer: peer, assets: map[int]*asset.Asset{}}
		for i := 0; i < WarmupLen(p.Cfg)+p.Extra && !r.Failed(); i++ {
			s.ownBlock(nil)
		}
		if r.Failed() {
			return
		}
		// funding: split what has matured into a drawn set of outputs over all programs
		hold, _, _ := s.holdings()
		var ftxs []*types.Tx
		progs := s.allProgs()
		btm := *consensus.BTMAssetID
		pos := 0
		for _, a := range wn.Accts {
			h := hold[a.Name+"/"+btm.String()]
			if h == nil {
				continue
			}
			for _, o := range h.outs {
				nOut := 2 + (pos+len(p.Split))%4
				feeF := OwnedFee([]*Owned{o}, nOut)
				if o.Amount <= feeF+uint64(nOut)*1000 {
					continue
				}
				var wsum uint64
				var ws []uint64
				for j := 0; j < nOut; j++ {
					wt := uint64(p.Split[(pos+j)%len(p.Split)])
					ws = append(ws, wt)
					wsum += wt
				}
				left := o.Amount - feeF
				var outs []*types.TxOutput
				for j := 0; j < nOut; j++ {
					amt := (o.Amount - feeF) / wsum * ws[j]
					if j == nOut-1 {
						amt = left
					}
					left -= amt
					outs = append(outs, types.NewOriginalTxOutput(btm, amt, progs[(pos+j)%len(progs)].CP.ControlProgram, nil))
				}
				pos += nOut
				ftxs = append(ftxs, wn.BuildOwned([]*Owned{o}, outs, 0))
			}
		}
		if blk := s.ownBlock(ftxs); blk == nil {
			return
		} else {
			r.Count("funding.txs", len(blk.Transactions)-1)
			r.Tracef("funding block h=%d txs=%d/%d", blk.Height, len(blk.Transactions)-1, len(ftxs))
		}
		// the wallet must have caught up before it is asked to build
		for li, l := range p.Lists {
			if r.Failed() {
				break
			}
			st := wn.Wal.GetWalletStatusInfo()
			if st.BestHash != wn.Best() {
				harness("wallet not on the best block before a list")
			}
			s.runList(li, l)
		}
		r.SimTime(msDur(nowMs() - start))
		if !r.Failed() && s.mined > 0 {
			r.NonTrivial()
		}
	})
}

// SpecC27: built and signed wallet transactions are valid and pay as requested.
func SpecC27() simkit.Spec {
	return simkit.Spec{
		Prop: "C27", Gen: genC27, NewPlan: func() any { return &C27Plan{} }, Exec: execC27,
		Rule: "a wallet node with three accounts (single key, 2-of-3 multisig, single key) mines until epoch rewards mature, splits them into a drawn UTXO set over all its programs, then runs 2-6 drawn action lists: 1-3 spend_account actions over 1-3 accounts (optionally merged as the RPC layer does, optionally one spend_account_unspent_output), a second asset issued through asset.Registry or spent from an earlier list, 1-4 receivers (control_address, control_program, retire) with weighted amounts, spending 10-90% of the usable funds (several inputs and change) or more than the account owns, time ranges, one multisig key withheld, a third of the lists built in two Build calls (the second onto the first as base transaction, signing instructions joined); each list goes through txbuilder.Build, txbuilder.Sign, the FinalizeTx steps, Chain.ValidateTx, the real proposer and a peer node; " +
			"oracle on the transaction re-parsed from its bytes: inputs spend main-chain outputs of exactly the asked accounts (or are the asked issuance), one output per receiver with exactly its asset/program/amount, every other output is change to a program of a spending account and equals inputs minus request per account and asset, fee = BTM in - BTM out in math/big = TxData.Fee() = template fee = what the actions leave; a list asking an account for more than it owns must fail with an insufficient-funds class error, a list within the usable funds must build, pass the mempool, be mined and the block accepted by the peer; non-trivial = at least one list mined; distinct = hash of the trace",
		Components: walletComponents,
		Probes:     []string{"lists.built", "lists.mined", "lists.refused_insufficient", "lists.with_issue", "probe.several_inputs_per_spend"},
		Assumptions: []string{"the fee is what the caller's amounts leave (as with the RPC interface); lists use a fee that exceeds storage plus VM gas of the built transaction, a rejection for gas with a smaller fee would be counted, not reported",
			"reservations of one list have expired before the next list is built (reservation interplay is C26's subject)",
			"the api package (JSON-RPC decoding, build-chain merging of many small outputs) does not build in this tree and is not exercised"},
	}
}
