package nodesim

import (
	"testing"

	"pgregory.net/rapid"

	"verif/sim/simkit"
)

func genProduce(maxValidators, minN, maxN, maxBack, maxTx int) func(rt *rapid.T) any {
	return func(rt *rapid.T) any {
		cfg := GenCfg(rt, maxValidators)
		p := &TreePlan{Cfg: cfg, Warm: WarmupLen(cfg), Steps: GenSteps(rt, minN, maxN, maxBack, maxTx)}
		// full blocks: in a drawn share of the steps the pool holds more than a block takes (the
		// registered C38 build has a block gas limit of a few transactions), with children chained to
		// heavier parents behind them
		for i := range p.Steps {
			if rapid.IntRange(0, 2).Draw(rt, "fullq") != 2 {
				continue
			}
			for k, n := 0, rapid.IntRange(2, 5).Draw(rt, "nfull"); k < n; k++ {
				kind := rapid.SampledFrom([]string{"pay2", "pay", "vote", "issue", "retire"}).Draw(rt, "fullkind")
				p.Steps[i].Txs = append(p.Steps[i].Txs, TxOp{Kind: kind, A: rapid.IntRange(0, 7).Draw(rt, "fa"), B: rapid.IntRange(0, 7).Draw(rt, "fb"), C: rapid.IntRange(0, 5).Draw(rt, "fc")},
					TxOp{Kind: "chain", A: rapid.IntRange(0, 7).Draw(rt, "ca"), B: rapid.IntRange(0, 7).Draw(rt, "cb"), C: rapid.IntRange(0, 5).Draw(rt, "cc")})
			}
		}
		return p
	}
}

var nodeComponents = map[string]string{
	"protocol.Chain + OrphanManage + block processor": "real",
	"protocol/casper.Casper":                          "real",
	"protocol.TxPool":                                 "real",
	"protocol/validation + vm":                        "real",
	"database.Store + caches":                         "real",
	"proposal.NewBlockTemplate":                       "real (driven at slot times by the harness; the blockproposer ticker loop is not run)",
	"account.Manager (coinbase program only)":         "real",
	"event.Dispatcher":                                "real",
	"storage engine":                                  "stub: simdisk (ordered map with atomic durable write boundaries; validated against goleveldb by C20)",
	"network / netsync reactors":                      "stub: harness delivers blocks, transactions and votes directly to Chain entry points",
	"clock":                                           "simulated (testing/synctest bubble)",
}

func execC38(t *testing.T, plan any, r *simkit.Run) {
	p := plan.(*TreePlan)
	Bubble(t, func() {
		w := NewWorld(t, r, p.Cfg)
		start := nowMs()
		prods := w.ProduceTree(p, Oracles{C38: true})
		r.SimTime(msDur(nowMs() - start))
		withTx := 0
		for _, pr := range prods {
			if len(pr.Res.Block.Transactions) > 1 {
				withTx++
			}
		}
		if withTx > 0 {
			r.NonTrivial()
		}
	})
}

// SpecC38: blocks proposed by the node pass the node's own validation.
func SpecC38() simkit.Spec {
	return simkit.Spec{
		Prop:    "C38",
		Gen:     genProduce(3, 4, 16, 4, 5),
		NewPlan: func() any { return &TreePlan{} },
		Exec:    execC38,
		Rule: "a warm-up chain until epoch rewards mature, then 4-16 blocks (25% forks up to 4 blocks back, skipped slots) each built by the real proposer from a mempool filled with drawn pay/vote/veto/retire/issue/chained transactions and fed back to the chain; " +
			"non-trivial = at least one produced block carries pool transactions; distinct = hash of the production trace",
		Components:  nodeComponents,
		Assumptions: []string{"gas-heavy pools approaching the block gas limit are not reached (fees needed exceed the rewards available in short runs)"},
		Probes:      []string{"probe.reward_block", "blocks.fork", "txs.included"},
	}
}
