package nodesim

import (
	"container/heap"
	"fmt"
	"os"
	"sort"
	"testing"
	"testing/synctest"

	"golang.org/x/crypto/sha3"
	"pgregory.net/rapid"

	"github.com/bytom/bytom/crypto/ed25519/chainkd"
	"github.com/bytom/bytom/event"
	"github.com/bytom/bytom/proposal"
	"github.com/bytom/bytom/protocol/bc"
	"github.com/bytom/bytom/protocol/bc/types"
	"github.com/bytom/bytom/protocol/casper"
	"github.com/bytom/bytom/protocol/state"

	"verif/sim/model"
	"verif/sim/simdisk"
	"verif/sim/simkit"
)

// ---------------------------------------------------------------------------
// Multi-node simulation: honest validator nodes on a simulated network with
// drops, duplicates, delays, partitions and restarts, plus one Byzantine
// validator within the fault bound (only when there are four validators).

// NetFault is a scheduled network / process fault.
type NetFault struct {
	Slot int    `json:"slot"`
	Kind string `json:"kind"` // partition | heal | restart
	A    int    `json:"a,omitempty"`
}

// ByzAct is a Byzantine action at a slot.
type ByzAct struct {
	Slot int    `json:"slot"`
	Kind string `json:"kind"` // equivocate-block | double-vote | surround-vote | old-vote | garbage-vote | nonvalidator-vote
	A    int    `json:"a,omitempty"`
	B    int    `json:"b,omitempty"`
}

// NetPlan is one multi-node run.
type NetPlan struct {
	Cfg      WorldCfg   `json:"cfg"`
	Byz      bool       `json:"byz"`   // the last validator is Byzantine (needs 4 validators)
	Slots    int        `json:"slots"` // slots to simulate
	DropPct  int        `json:"drop_pct"`
	DupPct   int        `json:"dup_pct"`
	MaxDelay int        `json:"max_delay_ms"`
	Tape     []int      `json:"tape"` // per-message fate decisions, consumed cyclically
	Faults   []NetFault `json:"faults,omitempty"`
	Acts     []ByzAct   `json:"acts,omitempty"`
	Txs      []TxOp     `json:"txs,omitempty"` // client transactions injected over time
	// GarblePct: percent of block messages whose header sup links are tampered with in flight by a
	// relay (garbage in unused and validator slots; neither the block hash nor the proposer's
	// signature covers the sup links)
	GarblePct int `json:"garble_pct,omitempty"`
	// Isolate: node (Isolate-1) is cut off from slot IsoFrom to IsoTo and keeps proposing on its own branch
	Isolate int `json:"isolate,omitempty"`
	IsoFrom int `json:"iso_from,omitempty"`
	IsoTo   int `json:"iso_to,omitempty"`
	// Blackouts: slot windows [from,to) in which every verification message in flight is lost while
	// blocks still pass (votes travel as separate small messages; a checkpoint then stays unjustified
	// and the next epoch's votes link over it)
	Blackouts [][2]int `json:"vote_blackouts,omitempty"`
	// RestartAfterTamper: percent of tampered block deliveries after which the receiving node is
	// restarted at once (a fault placed where in-flight state exists: what the node holds in memory
	// for that block is then rebuilt from what it wrote)
	RestartAfterTamper int `json:"restart_after_tamper_pct,omitempty"`
}

func genNet(rt *rapid.T) any {
	cfg := WorldCfg{
		E:           rapid.IntRange(3, 5).Draw(rt, "E"),
		Validators:  rapid.IntRange(2, 4).Draw(rt, "validators"),
		ExtraKeys:   1,
		VotePending: rapid.IntRange(2, 4).Draw(rt, "votepending"),
		MinVotes:    100000000,
	}
	p := &NetPlan{Cfg: cfg, Slots: rapid.IntRange(4*cfg.E, 9*cfg.E).Draw(rt, "slots")}
	p.Byz = cfg.Validators == 4 && rapid.IntRange(0, 2).Draw(rt, "byz") > 0
	switch rapid.IntRange(0, 3).Draw(rt, "netq") {
	case 0: // perfect network
	case 1:
		p.MaxDelay = rapid.IntRange(100, 5000).Draw(rt, "delay")
	default:
		p.MaxDelay = rapid.IntRange(100, 15000).Draw(rt, "delay")
		p.DropPct = rapid.IntRange(0, 25).Draw(rt, "drop")
		p.DupPct = rapid.IntRange(0, 20).Draw(rt, "dup")
	}
	if rapid.IntRange(0, 2).Draw(rt, "garbleq") == 2 {
		p.GarblePct = rapid.IntRange(5, 40).Draw(rt, "garble")
		if rapid.Bool().Draw(rt, "restartaftertamperq") {
			p.RestartAfterTamper = rapid.IntRange(10, 60).Draw(rt, "restartaftertamper")
		}
	}
	if rapid.IntRange(0, 3).Draw(rt, "isoq") == 3 {
		p.Isolate = 1 + rapid.IntRange(0, 3).Draw(rt, "iso")
		p.IsoFrom = rapid.IntRange(1, p.Slots/3+1).Draw(rt, "isofrom")
		p.IsoTo = p.IsoFrom + rapid.IntRange(p.Slots/3, p.Slots).Draw(rt, "isolen")
	}
	if rapid.IntRange(0, 3).Draw(rt, "blackoutq") == 3 {
		for i, n := 0, rapid.IntRange(1, 2).Draw(rt, "nblackouts"); i < n; i++ {
			from := rapid.IntRange(1, p.Slots-1).Draw(rt, "bofrom")
			p.Blackouts = append(p.Blackouts, [2]int{from, from + rapid.IntRange(1, 2*cfg.E).Draw(rt, "bolen")})
		}
	}
	nt := rapid.IntRange(8, 48).Draw(rt, "ntape")
	for i := 0; i < nt; i++ {
		p.Tape = append(p.Tape, rapid.IntRange(0, 9999).Draw(rt, "tape"))
	}
	nf := rapid.IntRange(0, 4).Draw(rt, "nfaults")
	for i := 0; i < nf; i++ {
		p.Faults = append(p.Faults, NetFault{Slot: rapid.IntRange(1, p.Slots-1).Draw(rt, "fslot"),
			Kind: rapid.SampledFrom([]string{"partition", "heal", "restart", "partition"}).Draw(rt, "fkind"), A: rapid.IntRange(0, 7).Draw(rt, "fa")})
	}
	if p.Byz {
		na := rapid.IntRange(1, 6).Draw(rt, "nacts")
		for i := 0; i < na; i++ {
			p.Acts = append(p.Acts, ByzAct{Slot: rapid.IntRange(1, p.Slots-1).Draw(rt, "aslot"),
				Kind: rapid.SampledFrom([]string{"equivocate-block", "double-vote", "surround-vote", "old-vote", "garbage-vote", "nonvalidator-vote"}).Draw(rt, "akind"),
				A:    rapid.IntRange(0, 7).Draw(rt, "aa"), B: rapid.IntRange(0, 7).Draw(rt, "ab")})
		}
	} else if rapid.IntRange(0, 2).Draw(rt, "advq") == 0 {
		// adversarial messages from a non-validator / replayed votes even without a Byzantine validator
		na := rapid.IntRange(1, 3).Draw(rt, "nacts")
		for i := 0; i < na; i++ {
			p.Acts = append(p.Acts, ByzAct{Slot: rapid.IntRange(1, p.Slots-1).Draw(rt, "aslot"),
				Kind: rapid.SampledFrom([]string{"old-vote", "garbage-vote", "nonvalidator-vote"}).Draw(rt, "akind"), A: rapid.IntRange(0, 7).Draw(rt, "aa")})
		}
	}
	return p
}

// vote is one (validator, source -> target) link with a verified signature.
type vote struct {
	Pub            string
	Source, Target bc.Hash
}

// netMsg is a message in flight.
type netMsg struct {
	at    uint64
	seq   uint64
	to    int
	from  int // -1 = Byzantine / client
	block *types.Block
	vmsg  *casper.ValidCasperSignMsg
	fetch *bc.Hash // request: "send me this block" (served from the sender's store)
	// tampered: a relay changed the header's sup links in flight
	tampered bool
}

type msgHeap []*netMsg

func (h msgHeap) Len() int            { return len(h) }
func (h msgHeap) Less(i, j int) bool  { return h[i].at < h[j].at || (h[i].at == h[j].at && h[i].seq < h[j].seq) }
func (h msgHeap) Swap(i, j int)       { h[i], h[j] = h[j], h[i] }
func (h *msgHeap) Push(x interface{}) { *h = append(*h, x.(*netMsg)) }
func (h *msgHeap) Pop() interface{} {
	old := *h
	n := len(old)
	x := old[n-1]
	*h = old[:n-1]
	return x
}

// Net is the running multi-node simulation.
type Net struct {
	W     *World
	P     *NetPlan
	Nodes []*Node
	subs  []*event.Subscription
	group []int // partition group per node
	q     msgHeap
	seq   uint64
	tapeI int
	byz   *Key

	// oracle state
	finalizedSeen map[bc.Hash]bool
	lastFin       []bc.Hash
	delivered     []map[vote]bool // votes with valid signatures delivered to node i (messages, block-carried, own)
	allVotes      map[vote]bool   // every validly signed vote that ever existed in the run
	ownVotes      []map[vote]bool // votes node i signed with its own key (survives restarts)
	admitted      []map[vote]bool // votes node i holds in its store (any validator)
	blocksBy      map[bc.Hash]*types.Block
	dirty         map[int]bool // nodes that processed something since their last check
	pendingFetch  map[string]uint64
	slot          int  // current slot (for slot-window faults)
	draining      bool // faults have stopped
}

func (nt *Net) draw(n int) int {
	v := nt.P.Tape[nt.tapeI%len(nt.P.Tape)]
	nt.tapeI++
	if n <= 0 {
		return 0
	}
	return v % n
}

func voteMsgHash(source, target bc.Hash) []byte {
	buf := append(append([]byte{}, source.Bytes()...), target.Bytes()...)
	h := sha3.Sum256(buf)
	return h[:]
}

var sigMemo = map[string]bool{}

func verifyVoteSig(pubHex string, source, target bc.Hash, sig []byte) bool {
	key := pubHex + string(source.Bytes()) + string(target.Bytes()) + string(sig)
	if v, ok := sigMemo[key]; ok {
		return v
	}
	v := verifyVoteSigRaw(pubHex, source, target, sig)
	if len(sigMemo) > 200000 {
		sigMemo = map[string]bool{}
	}
	sigMemo[key] = v
	return v
}

func verifyVoteSigRaw(pubHex string, source, target bc.Hash, sig []byte) bool {
	var xpub chainkd.XPub
	if err := xpub.UnmarshalText([]byte(pubHex)); err != nil {
		return false
	}
	return xpub.Verify(voteMsgHash(source, target), sig)
}

// send schedules delivery of a message subject to the drawn network faults.
func (nt *Net) send(m *netMsg) {
	r := nt.W.R
	if m.from >= 0 && nt.group[m.from] != nt.group[m.to] {
		r.Count("fault.partition_drop", 1)
		return
	}
	if nt.P.DropPct > 0 && nt.draw(100) < nt.P.DropPct {
		r.Count("fault.drop", 1)
		return
	}
	if m.vmsg != nil && !nt.draining {
		for _, b := range nt.P.Blackouts {
			if nt.slot >= b[0] && nt.slot < b[1] {
				r.Count("fault.vote_blackout_drop", 1)
				return
			}
		}
	}
	if m.block != nil && nt.P.GarblePct > 0 && nt.draw(100) < nt.P.GarblePct {
		m = nt.garble(m)
	}
	copies := 1
	if nt.P.DupPct > 0 && nt.draw(100) < nt.P.DupPct {
		copies = 2
		r.Count("fault.duplicate", 1)
	}
	for c := 0; c < copies; c++ {
		d := uint64(20)
		if nt.P.MaxDelay > 0 {
			d += uint64(nt.draw(nt.P.MaxDelay))
			if d > 6000 {
				r.Count("fault.delay_over_a_slot", 1)
			}
		}
		cp := *m
		nt.seq++
		cp.seq = nt.seq
		cp.at = nowMs() + d
		heap.Push(&nt.q, &cp)
	}
}

// garble returns a copy of a block message whose header sup links were tampered with in flight.
func (nt *Net) garble(m *netMsg) *netMsg {
	b := copyBlock(m.block)
	junk := func(n int) []byte {
		out := make([]byte, 64)
		for i := range out {
			out[i] = byte(nt.draw(256))
		}
		return out
	}
	kind := nt.draw(3)
	switch {
	case len(b.SupLinks) > 0 && kind == 0:
		// garbage in the slots no validator owns
		for i := nt.W.Cfg.Validators; i < len(b.SupLinks[0].Signatures); i++ {
			b.SupLinks[0].Signatures[i] = junk(i)
		}
	case len(b.SupLinks) > 0 && kind == 1:
		// garbage in every empty slot, validator slots included
		for i := range b.SupLinks[0].Signatures {
			if len(b.SupLinks[0].Signatures[i]) == 0 {
				b.SupLinks[0].Signatures[i] = junk(i)
			}
		}
	default:
		// an extra link from the block's nearest checkpoint ancestor, all slots garbage
		st := nt.W.Tree.Nodes[b.Hash()]
		if st == nil || st.Parent == nil {
			return m
		}
		src := st.Parent
		for src.Height%nt.W.P.E != 0 {
			src = src.Parent
		}
		sl := &types.SupLink{SourceHeight: src.Height, SourceHash: src.Hash}
		for i := range sl.Signatures {
			sl.Signatures[i] = junk(i)
		}
		b.SupLinks = append(b.SupLinks, sl)
	}
	nt.W.R.Count("fault.header_suplinks_tampered", 1)
	cp := *m
	cp.block = b
	cp.tampered = true
	return &cp
}

func (nt *Net) broadcastBlock(from int, b *types.Block) {
	for i := range nt.Nodes {
		if i != from {
			nt.send(&netMsg{to: i, from: from, block: b})
		}
	}
}

func (nt *Net) broadcastVote(from int, v *casper.ValidCasperSignMsg) {
	for i := range nt.Nodes {
		if i != from {
			nt.send(&netMsg{to: i, from: from, vmsg: v})
		}
	}
}

// noteVote records a validly signed vote as delivered to node i.
func (nt *Net) noteVote(i int, pub string, source, target bc.Hash, sig []byte) {
	if !verifyVoteSig(pub, source, target, sig) {
		return
	}
	v := vote{pub, source, target}
	nt.allVotes[v] = true
	if i >= 0 {
		nt.delivered[i][v] = true
	}
}

// noteBlockVotes records the votes carried by a block header delivered to node i.
func (nt *Net) noteBlockVotes(i int, b *types.Block) {
	w := nt.W
	st := w.Tree.Nodes[b.Hash()]
	if st == nil || st.Parent == nil {
		return
	}
	vs := w.Tree.EffectiveValidators(w.Tree.CheckpointOf(st.Parent).Votes)
	for _, sl := range b.SupLinks {
		for _, v := range vs {
			if v.Order < len(sl.Signatures) && len(sl.Signatures[v.Order]) > 0 {
				nt.noteVote(i, v.PubKey, sl.SourceHash, b.Hash(), sl.Signatures[v.Order])
			}
		}
	}
}

// drainVotes forwards the votes node i posted (own and relayed) to its peers.
// A node posts from two goroutines (block processor and cached-vote loop), so the
// order in the subscription channel is the Go scheduler's: everything posted up to
// quiescence is collected and forwarded in a canonical order.
func (nt *Net) drainVotes(i int) {
	n := nt.Nodes[i]
	var got []casper.ValidCasperSignMsg
	for more := true; more; {
		select {
		case ev := <-nt.subs[i].Chan():
			if ev == nil {
				more = false
				break
			}
			if m, ok := ev.Data.(casper.ValidCasperSignMsg); ok {
				got = append(got, m)
			}
		default:
			more = false
		}
	}
	key := func(m *casper.ValidCasperSignMsg) string {
		return m.PubKey + "|" + m.TargetHash.String() + "|" + m.SourceHash.String() + "|" + string(m.Signature)
	}
	sort.SliceStable(got, func(a, b int) bool { return key(&got[a]) < key(&got[b]) })
	for _, m := range got {
		mm := m
		if m.PubKey == n.Key.PubHex {
			v := vote{m.PubKey, m.SourceHash, m.TargetHash}
			if verifyVoteSig(m.PubKey, m.SourceHash, m.TargetHash, m.Signature) {
				nt.ownVotes[i][v] = true
			}
			nt.W.R.Count("votes.signed_by_honest", 1)
		}
		nt.noteVote(i, m.PubKey, m.SourceHash, m.TargetHash, m.Signature)
		nt.broadcastVote(i, &mm)
	}
}

func (nt *Net) startNode(i int, disk *simdisk.Disk) error {
	w := nt.W
	n, err := w.StartNode(fmt.Sprintf("node%d", i), disk, w.Keys[i])
	if err != nil {
		return err
	}
	sub, err := n.Disp.Subscribe(casper.ValidCasperSignMsg{})
	if err != nil {
		return err
	}
	nt.Nodes[i] = n
	nt.subs[i] = sub
	return nil
}

// deliver executes one message at its destination.
func (nt *Net) deliver(m *netMsg) {
	w, r := nt.W, nt.W.R
	nt.dirty[m.to] = true
	if debugJC {
		kind := "fetch"
		if m.block != nil {
			kind = "block " + w.name(m.block.Hash())
		} else if m.vmsg != nil {
			kind = "vote " + w.name(m.vmsg.SourceHash) + ">" + w.name(m.vmsg.TargetHash) + " by " + m.vmsg.PubKey[:6]
		}
		fmt.Fprintf(os.Stderr, "DLV at=%d seq=%d from=%d to=%d %s\n", m.at, m.seq, m.from, m.to, kind)
	}
	n := nt.Nodes[m.to]
	n.Activate()
	switch {
	case m.fetch != nil:
		// the requester (m.from) asks m.to for a block: serve it from the store
		if b, err := n.Chain.GetBlockByHash(m.fetch); err == nil {
			nt.send(&netMsg{to: m.from, from: m.to, block: b})
			r.Count("net.block_fetch_served", 1)
		}
	case m.block != nil:
		if _, known := w.Blocks[m.block.Hash()]; known {
			nt.noteBlockVotes(m.to, m.block)
		}
		orphan, err := n.Process(m.block)
		r.Count("net.block_delivered", 1)
		if err != nil {
			r.Count("net.block_rejected", 1)
		}
		if m.tampered && !nt.draining && nt.P.RestartAfterTamper > 0 && nt.draw(100) < nt.P.RestartAfterTamper {
			nt.drainVotes(m.to)
			if rerr := nt.startNode(m.to, nt.Nodes[m.to].Disk.Clone()); rerr != nil {
				r.Violate("restart-fails", "after-tampered-block", "node%d does not restart from its durable state after a block with tampered header sup links: %v", m.to, rerr)
				return
			}
			synctest.Wait()
			n = nt.Nodes[m.to]
			r.Count("fault.restart_after_tampered_block", 1)
			r.Tracef("node%d restarted after a tampered block", m.to)
		}
		if orphan && m.from >= 0 {
			// like the sync reactor: ask the sender for the missing parent, once per
			// parent and node until it arrives or two slots have passed (requests can be lost)
			ph := m.block.PreviousBlockHash
			key := fmt.Sprintf("%d/%s", m.to, ph.String())
			if t, ok := nt.pendingFetch[key]; !ok || nowMs()-t > 2*w.P.IntervalMs {
				nt.pendingFetch[key] = nowMs()
				nt.send(&netMsg{to: m.from, from: m.to, fetch: &ph})
				r.Count("net.orphan_parent_requested", 1)
			}
		}
	case m.vmsg != nil:
		v := *m.vmsg
		nt.noteVote(m.to, v.PubKey, v.SourceHash, v.TargetHash, v.Signature)
		err := n.Chain.ProcessBlockVerification(&v)
		synctest.Wait()
		r.Count("net.vote_delivered", 1)
		if err != nil {
			r.Count("net.vote_rejected", 1)
		}
	}
	nt.drainVotes(m.to)
}

// byzParentSnap returns a disk whose best block is h (for the Byzantine builder).
func (nt *Net) remember(n *Node) {
	h := n.Best()
	if nt.W.snaps[h] == nil {
		nt.W.snaps[h] = n.Disk.Clone()
	}
}

// propose lets node i build and broadcast a block at slot time ts if it is scheduled.
func (nt *Net) propose(i int, ts uint64) {
	w, r := nt.W, nt.W.R
	nt.dirty[i] = true
	n := nt.Nodes[i]
	n.Activate()
	best := n.Chain.BestBlockHeader()
	bh := best.Hash()
	if ts < best.Timestamp+w.P.IntervalMs {
		return
	}
	v, err := n.Chain.GetValidator(&bh, ts)
	if err != nil || v == nil || v.PubKey != n.Key.PubHex {
		return
	}
	block, err := proposal.NewBlockTemplate(n.Chain, v, n.Acct, ts, 0, 0)
	if err != nil {
		r.Count("contained.template_error", 1)
		return
	}
	_, perr := n.Chain.ProcessBlock(block)
	synctest.Wait()
	if perr != nil {
		r.Count("contained.own_block_rejected", 1)
		return
	}
	if _, err := w.Tree.Add(block); err != nil {
		// parent unknown to the model: cannot happen (all blocks pass through here)
		harness("model: %v", err)
	}
	hh := block.Hash()
	if _, ok := w.Blocks[hh]; !ok {
		w.Blocks[hh] = block
		w.Order = append(w.Order, hh)
	}
	nt.noteBlockVotes(i, block)
	nt.remember(n)
	r.Tracef("slot t=%d node%d proposes %s h=%d on %s", (ts-w.Genesis.Timestamp)/w.P.IntervalMs, i, w.name(hh), block.Height, w.name(block.PreviousBlockHash))
	r.Count("blocks.produced", 1)
	nt.drainVotes(i)
	nt.broadcastBlock(i, block)
}

// checkSafety evaluates the C16 invariants on all honest nodes.
func (nt *Net) checkSafety(ctx string) {
	w, r := nt.W, nt.W.R
	for i, n := range nt.Nodes {
		_, fin := n.Chain.Casper().LastFinalized()
		fs := w.Tree.Nodes[fin]
		if fs == nil {
			r.Violate("finalized-unknown", "", "%s: node%d reports an unknown block as finalized", ctx, i)
			return
		}
		prev := w.Tree.Nodes[nt.lastFin[i]]
		if !model.IsAncestor(prev, fs) {
			r.Violate("finalized-moved-off-chain", "", "%s: node%d's last finalized checkpoint moved from %s (height %d) to %s (height %d), which is not a descendant",
				ctx, i, w.name(prev.Hash), prev.Height, w.name(fs.Hash), fs.Height)
			return
		}
		nt.lastFin[i] = fin
		best := w.Tree.Nodes[n.Best()]
		if best == nil || !model.IsAncestor(fs, best) {
			r.Violate("finalized-not-on-main-chain", "", "%s: node%d's best block %s does not descend from its finalized checkpoint %s (height %d)",
				ctx, i, w.name(n.Best()), w.name(fin), fs.Height)
			return
		}
		if !n.Chain.InMainChain(fin) {
			r.Violate("finalized-not-on-main-chain", "index", "%s: node%d: InMainChain(finalized %s) is false", ctx, i, w.name(fin))
			return
		}
		if !nt.finalizedSeen[fin] {
			nt.finalizedSeen[fin] = true
			if fs.Height > 0 {
				r.Count("probe.finalized_checkpoints", 1)
			}
		}
	}
	// all checkpoints ever finalized by anyone lie on one chain
	var fins []*model.BlockState
	for h := range nt.finalizedSeen {
		fins = append(fins, w.Tree.Nodes[h])
	}
	sort.Slice(fins, func(a, b int) bool {
		if fins[a].Height != fins[b].Height {
			return fins[a].Height < fins[b].Height
		}
		return hs(fins[a].Hash) < hs(fins[b].Hash)
	})
	for k := 1; k < len(fins); k++ {
		if !model.IsAncestor(fins[k-1], fins[k]) {
			r.Violate("conflicting-finalized", "", "%s: checkpoints %s (height %d) and %s (height %d) were both finalized by honest nodes but are not on one chain",
				ctx, w.name(fins[k-1].Hash), fins[k-1].Height, w.name(fins[k].Hash), fins[k].Height)
			return
		}
	}
}

// justifiedGlobally: t has, among ALL validly signed votes of the run, a source s
// with a supermajority of the parent-epoch validators, and s is genesis or justified the same way.
func (nt *Net) witness(votes map[vote]bool, t *model.BlockState, memo map[bc.Hash]bool, needSourceJustified bool) (bool, *model.BlockState) {
	w := nt.W
	if t.Height == 0 {
		return true, nil
	}
	vs := w.Tree.EffectiveValidators(w.Tree.CheckpointOf(t.Parent).Votes)
	bySource := map[bc.Hash]map[string]bool{}
	for v := range votes {
		if v.Target != t.Hash {
			continue
		}
		for _, val := range vs {
			if val.PubKey == v.Pub {
				if bySource[v.Source] == nil {
					bySource[v.Source] = map[string]bool{}
				}
				bySource[v.Source][v.Pub] = true
			}
		}
	}
	var sources []bc.Hash
	for s := range bySource {
		sources = append(sources, s)
	}
	sort.Slice(sources, func(a, b int) bool { return hs(sources[a]) < hs(sources[b]) })
	for _, s := range sources {
		if 3*len(bySource[s]) <= 2*len(vs) {
			continue
		}
		ss := w.Tree.Nodes[s]
		if ss == nil || !model.IsAncestor(ss, t) || ss.Height >= t.Height || ss.Height%w.P.E != 0 {
			continue
		}
		if !needSourceJustified {
			return true, ss
		}
		if done, ok := memo[s]; ok {
			if done {
				return true, ss
			}
			continue
		}
		memo[s] = false
		ok, _ := nt.witness(nt.allVotes, ss, memo, true)
		memo[s] = ok
		if ok {
			return true, ss
		}
	}
	return false, nil
}

var debugJC = os.Getenv("VERIF_DEBUG_JC") != ""

// checkJustification evaluates the C17 witness oracle on node i.
func (nt *Net) checkJustification(ctx string) {
	w, r := nt.W, nt.W.R
	for i, n := range nt.Nodes {
		if !nt.dirty[i] {
			continue
		}
		for _, h := range w.Order[1:] {
			s := w.Tree.Nodes[h]
			if s.Height%w.P.E != 0 {
				continue
			}
			h := h
			cp, err := n.Store.GetCheckpoint(&h)
			if err != nil || (cp.Status != state.Justified && cp.Status != state.Finalized) {
				continue
			}
			ok, _ := nt.witness(nt.delivered[i], s, map[bc.Hash]bool{}, true)
			if !ok {
				n := len(w.Tree.EffectiveValidators(w.Tree.CheckpointOf(s.Parent).Votes))
				cnt := 0
				for v := range nt.delivered[i] {
					if v.Target == s.Hash {
						cnt++
					}
				}
				// what the node itself holds for this checkpoint (diagnosis only)
				held := ""
				vs := w.Tree.EffectiveValidators(w.Tree.CheckpointOf(s.Parent).Votes)
				for _, sl := range cp.SupLinks {
					held += fmt.Sprintf(" [from %s:", w.name(sl.SourceHash))
					for _, v := range vs {
						if v.Order < len(sl.Signatures) && len(sl.Signatures[v.Order]) > 0 {
							ok := verifyVoteSig(v.PubKey, sl.SourceHash, h, sl.Signatures[v.Order])
							reached := nt.delivered[i][vote{v.PubKey, sl.SourceHash, h}]
							held += fmt.Sprintf(" slot%d(valid=%v,seen-arriving=%v)", v.Order, ok, reached)
						}
					}
					held += "]"
				}
				// Classify. (a) a supermajority link to it did reach the node, but from a source whose own
				// justification the node never saw; (b) no supermajority link to it reached the node, but it is
				// the source of a supermajority link to a descendant that did (the node infers "my source must
				// have been justified elsewhere" and even finalizes it). Both are the same behaviour of
				// addVerificationToCheckpoint, which never looks at the source's status.
				class := ""
				if ok2, _ := nt.witness(nt.delivered[i], s, map[bc.Hash]bool{}, false); ok2 {
					class = "source-justification-not-seen/"
				} else {
					for _, ch := range w.Order[1:] {
						c := w.Tree.Nodes[ch]
						if c.Height%w.P.E != 0 || c.Height <= s.Height || !model.IsAncestor(s, c) {
							continue
						}
						if ok3, src := nt.witness(nt.delivered[i], c, map[bc.Hash]bool{}, false); ok3 && src != nil && src.Hash == s.Hash {
							class = "inferred-from-outgoing-supermajority-link/"
							break
						}
					}
				}
				r.Violate("justified-without-supermajority", class+fmt.Sprintf("n=%d", n), "%s: node%d reports checkpoint %s (height %d) as justified, but the validly signed links to it that reached the node (%d from any validator, %d validators in the parent epoch) contain no supermajority from one justified source; the node's store holds for it:%s",
					ctx, i, w.name(h), s.Height, cnt, n, held)
				return
			}
			r.Count("probe.justified_checked", 1)
			if debugJC {
				fmt.Fprintf(os.Stderr, "JC %s node%d %s status=%d\n", ctx, i, w.name(h), cp.Status)
			}
			if cp.Status == state.Finalized && s.Height > 0 {
				// a direct child checkpoint must be justified from it
				found := false
				for _, ch := range w.Order[1:] {
					c := w.Tree.Nodes[ch]
					if c.Height != s.Height+w.P.E || !model.IsAncestor(s, c) {
						continue
					}
					vs := w.Tree.EffectiveValidators(w.Tree.CheckpointOf(c.Parent).Votes)
					cnt := map[string]bool{}
					for v := range nt.delivered[i] {
						if v.Target == c.Hash && v.Source == s.Hash {
							for _, val := range vs {
								if val.PubKey == v.Pub {
									cnt[v.Pub] = true
								}
							}
						}
					}
					if 3*len(cnt) > 2*len(vs) {
						found = true
					}
				}
				if !found {
					r.Violate("finalized-without-justified-child", "", "%s: node%d reports checkpoint %s (height %d) as finalized, but no direct child checkpoint has a supermajority link from it among the votes that reached the node", ctx, i, w.name(h), s.Height)
					return
				}
			}
		}
	}
}

// slashable reports the first pair of votes by one validator that violates a
// slashing condition.
func (nt *Net) slashable(votes map[vote]bool, onlyPub string) (a, b *vote, kind string) {
	w := nt.W
	byPub := map[string][]vote{}
	for v := range votes {
		if onlyPub != "" && v.Pub != onlyPub {
			continue
		}
		if w.Tree.Nodes[v.Source] == nil || w.Tree.Nodes[v.Target] == nil {
			continue
		}
		byPub[v.Pub] = append(byPub[v.Pub], v)
	}
	var pubs []string
	for p := range byPub {
		pubs = append(pubs, p)
	}
	sort.Strings(pubs)
	for _, p := range pubs {
		vs := byPub[p]
		sort.Slice(vs, func(i, j int) bool {
			if hs(vs[i].Target) != hs(vs[j].Target) {
				return hs(vs[i].Target) < hs(vs[j].Target)
			}
			return hs(vs[i].Source) < hs(vs[j].Source)
		})
		for i := range vs {
			for j := range vs {
				if i >= j {
					continue
				}
				x, y := vs[i], vs[j]
				xs, xt := w.Tree.Nodes[x.Source].Height, w.Tree.Nodes[x.Target].Height
				ys, yt := w.Tree.Nodes[y.Source].Height, w.Tree.Nodes[y.Target].Height
				if xt == yt && x.Target != y.Target {
					return &x, &y, "same-target-height"
				}
				if (xs < ys && yt < xt) || (ys < xs && xt < yt) {
					return &x, &y, "surround"
				}
			}
		}
	}
	return nil, nil, ""
}

// checkSlashing evaluates the C18 monitors.
func (nt *Net) checkSlashing(ctx string) {
	w, r := nt.W, nt.W.R
	for i, n := range nt.Nodes {
		if !nt.dirty[i] {
			continue
		}
		if a, b, kind := nt.slashable(nt.ownVotes[i], n.Key.PubHex); a != nil {
			r.Violate("honest-node-signed-slashable-votes", kind, "%s: node%d signed %s->%s (heights %d->%d) and %s->%s (heights %d->%d) with its own key: %s",
				ctx, i, w.name(a.Source), w.name(a.Target), w.Tree.Nodes[a.Source].Height, w.Tree.Nodes[a.Target].Height,
				w.name(b.Source), w.name(b.Target), w.Tree.Nodes[b.Source].Height, w.Tree.Nodes[b.Target].Height, kind)
			return
		}
		// votes the node admitted: the links its own checkpoint view reports (stored checkpoint + stored header)
		adm := map[vote]bool{}
		for _, h := range w.Order[1:] {
			s := w.Tree.Nodes[h]
			if s.Height%w.P.E != 0 || s.Parent == nil {
				continue
			}
			h := h
			hdr, err := n.Store.GetCheckpoint(&h)
			if err != nil {
				continue
			}
			vs := w.Tree.EffectiveValidators(w.Tree.CheckpointOf(s.Parent).Votes)
			for _, sl := range hdr.SupLinks {
				for _, v := range vs {
					if v.Order < len(sl.Signatures) && len(sl.Signatures[v.Order]) > 0 && verifyVoteSig(v.PubKey, sl.SourceHash, h, sl.Signatures[v.Order]) {
						adm[vote{v.PubKey, sl.SourceHash, h}] = true
					}
				}
			}
		}
		if a, b, kind := nt.slashable(adm, ""); a != nil {
			who := "a validator"
			if k := w.keyByPub[a.Pub]; k != nil {
				who = fmt.Sprintf("validator %d", k.Idx)
			}
			r.Violate("node-admitted-slashable-votes", kind, "%s: node%d holds in its store two votes by %s: %s->%s (heights %d->%d) and %s->%s (heights %d->%d): %s",
				ctx, i, who, w.name(a.Source), w.name(a.Target), w.Tree.Nodes[a.Source].Height, w.Tree.Nodes[a.Target].Height,
				w.name(b.Source), w.name(b.Target), w.Tree.Nodes[b.Source].Height, w.Tree.Nodes[b.Target].Height, kind)
			return
		}
	}
}

// NetOracles selects the armed oracles.
type NetOracles struct{ C16, C17, C18 bool }

func (nt *Net) checkAll(or NetOracles, ctx string) {
	if nt.W.R.Failed() {
		return
	}
	if or.C16 {
		nt.checkSafety(ctx)
	}
	if or.C17 && !nt.W.R.Failed() {
		nt.checkJustification(ctx)
	}
	if or.C18 && !nt.W.R.Failed() {
		nt.checkSlashing(ctx)
	}
	nt.dirty = map[int]bool{}
}

// byzantine performs one Byzantine action.
func (nt *Net) byzantine(a ByzAct, ts uint64) {
	w, r := nt.W, nt.W.R
	// checkpoints known so far, newest first
	var cps []*model.BlockState
	for i := len(w.Order) - 1; i >= 0; i-- {
		s := w.Tree.Nodes[w.Order[i]]
		if s.Height%w.P.E == 0 && s.Height > 0 {
			cps = append(cps, s)
		}
	}
	key := nt.byz
	sendVote := func(k *Key, src, tgt bc.Hash, sig []byte) {
		m := &casper.ValidCasperSignMsg{SourceHash: src, TargetHash: tgt, Signature: sig, PubKey: k.PubHex}
		nt.noteVote(-1, k.PubHex, src, tgt, sig)
		for i := range nt.Nodes {
			nt.send(&netMsg{to: i, from: -1, vmsg: m})
		}
	}
	ancestorCp := func(s *model.BlockState, back int) *model.BlockState {
		x := s.Parent
		for x != nil {
			if x.Height%w.P.E == 0 {
				if back == 0 {
					return x
				}
				back--
			}
			x = x.Parent
		}
		return w.Tree.Genesis
	}
	switch a.Kind {
	case "equivocate-block":
		if key == nil {
			return
		}
		// two different blocks for the Byzantine validator's slot, sent to different halves
		tip := nt.Nodes[a.A%len(nt.Nodes)].Best()
		if w.snaps[tip] == nil {
			return
		}
		pst := w.Tree.Nodes[tip]
		// find a slot of the Byzantine key on this parent near now
		for k := 0; k < 8; k++ {
			tsk := w.SlotTime(w.Blocks[tip], k)
			v, ok := w.Tree.ScheduledValidator(pst, tsk)
			if !ok || v.PubKey != key.PubHex || tsk > nowMs()+w.P.MaxOffsetMs {
				continue
			}
			var made []*types.Block
			for variant := 0; variant < 2; variant++ {
				txs := w.MakeTxs(pst, []TxOp{{Kind: "pay", A: a.B + variant, B: variant}}, 9000+variant)
				res := w.Propose(tip, k, txs, key)
				if res.Err != nil || res.Block == nil || res.FeedErr != nil {
					continue
				}
				w.Admit(res)
				made = append(made, res.Block)
			}
			if len(made) == 2 && made[0].Hash() != made[1].Hash() {
				for i := range nt.Nodes {
					nt.send(&netMsg{to: i, from: -1, block: made[(i+a.B)%2]})
				}
				r.Count("fault.byz_equivocating_block", 1)
				r.Tracef("byz equivocates at height %d on %s", made[0].Height, w.name(tip))
			}
			return
		}
	case "double-vote":
		// the Byzantine validator votes for two different checkpoints of the same height
		if key == nil {
			return
		}
		for i := range cps {
			for j := i + 1; j < len(cps); j++ {
				if cps[i].Height == cps[j].Height && cps[i].Hash != cps[j].Hash {
					for _, t := range []*model.BlockState{cps[i], cps[j]} {
						src := ancestorCp(t, 0)
						sendVote(key, src.Hash, t.Hash, key.Xprv.Sign(voteMsgHash(src.Hash, t.Hash)))
					}
					r.Count("fault.byz_double_vote", 1)
					return
				}
			}
		}
		if len(cps) > 0 { // no competing checkpoint: just vote
			t := cps[a.A%len(cps)]
			src := ancestorCp(t, 0)
			sendVote(key, src.Hash, t.Hash, key.Xprv.Sign(voteMsgHash(src.Hash, t.Hash)))
			r.Count("fault.byz_vote", 1)
		}
	case "surround-vote":
		if key == nil || len(cps) < 2 {
			return
		}
		// inner link first, then a link that strictly surrounds it
		t1 := cps[0]
		inner := cps[(1+a.A)%len(cps)]
		if !model.IsAncestor(inner, t1) || inner.Height >= t1.Height {
			return
		}
		innerSrc := ancestorCp(inner, 0)
		outerSrc := ancestorCp(inner, 1+a.B%2)
		if outerSrc.Height >= innerSrc.Height {
			return
		}
		sendVote(key, innerSrc.Hash, inner.Hash, key.Xprv.Sign(voteMsgHash(innerSrc.Hash, inner.Hash)))
		sendVote(key, outerSrc.Hash, t1.Hash, key.Xprv.Sign(voteMsgHash(outerSrc.Hash, t1.Hash)))
		r.Count("fault.byz_surround_vote", 1)
	case "old-vote":
		// replay of a genuine old vote (any validator) long after the fact
		var vs []vote
		for v := range nt.allVotes {
			vs = append(vs, v)
		}
		if len(vs) == 0 {
			return
		}
		sort.Slice(vs, func(i, j int) bool {
			return hs(vs[i].Target)+vs[i].Pub+hs(vs[i].Source) < hs(vs[j].Target)+vs[j].Pub+hs(vs[j].Source)
		})
		v := vs[a.A%len(vs)]
		if k := w.keyByPub[v.Pub]; k != nil {
			sendVote(k, v.Source, v.Target, k.Xprv.Sign(voteMsgHash(v.Source, v.Target)))
			r.Count("fault.replayed_old_vote", 1)
		}
	case "garbage-vote":
		if len(cps) == 0 {
			return
		}
		t := cps[a.A%len(cps)]
		src := ancestorCp(t, 0)
		k := w.Keys[a.B%w.Cfg.Validators]
		sig := k.Xprv.Sign(voteMsgHash(src.Hash, t.Hash))
		sig[a.B%len(sig)] ^= 0x10
		sendVote(k, src.Hash, t.Hash, sig)
		r.Count("fault.garbage_signature_vote", 1)
	case "nonvalidator-vote":
		if len(cps) == 0 {
			return
		}
		t := cps[a.A%len(cps)]
		src := ancestorCp(t, 0)
		k := newKey(6000 + a.B)
		sendVote(k, src.Hash, t.Hash, k.Xprv.Sign(voteMsgHash(src.Hash, t.Hash)))
		r.Count("fault.nonvalidator_vote", 1)
	}
}

// RunNet executes a NetPlan with the given oracles armed.
func RunNet(t *testing.T, p *NetPlan, r *simkit.Run, or NetOracles) {
	Bubble(t, func() {
		w := NewWorld(t, r, p.Cfg)
		if err := w.InitSnapshots(); err != nil {
			r.Violate("init", "", "%v", err)
			return
		}
		honest := p.Cfg.Validators
		nt := &Net{W: w, P: p, finalizedSeen: map[bc.Hash]bool{}, allVotes: map[vote]bool{}, blocksBy: map[bc.Hash]*types.Block{}, dirty: map[int]bool{}, pendingFetch: map[string]uint64{}}
		if p.Byz {
			honest--
			nt.byz = w.Keys[p.Cfg.Validators-1]
		}
		if len(p.Tape) == 0 {
			p.Tape = []int{0}
		}
		nt.Nodes = make([]*Node, honest)
		nt.subs = make([]*event.Subscription, honest)
		nt.group = make([]int, honest)
		nt.lastFin = make([]bc.Hash, honest)
		for i := 0; i < honest; i++ {
			if err := nt.startNode(i, simdisk.New()); err != nil {
				r.Violate("init", "", "%v", err)
				return
			}
			nt.delivered = append(nt.delivered, map[vote]bool{})
			nt.ownVotes = append(nt.ownVotes, map[vote]bool{})
			nt.lastFin[i] = w.Genesis.Hash()
		}
		start := nowMs()
		base := w.Genesis.Timestamp
		for slot := 1; slot <= p.Slots && !r.Failed(); slot++ {
			nt.slot = slot
			ts := base + uint64(slot)*w.P.IntervalMs
			if getenv("VERIF_DEBUG", "") != "" {
				fmt.Fprintf(os.Stderr, "DEBUG slot %d queue=%d votes=%d blocks=%d\n", slot, nt.q.Len(), len(nt.allVotes), len(w.Order))
			}
			// deliver everything due before this slot
			for cnt := 0; nt.q.Len() > 0 && nt.q[0].at <= ts && !r.Failed(); cnt++ {
				m := heap.Pop(&nt.q).(*netMsg)
				SleepUntilMs(m.at)
				if getenv("VERIF_DEBUG", "") != "" && cnt%200 == 0 && cnt > 0 {
					kind := "vote"
					if m.block != nil {
						kind = fmt.Sprintf("block %s h=%d", w.name(m.block.Hash()), m.block.Height)
					} else if m.fetch != nil {
						kind = "fetch " + w.name(*m.fetch)
					}
					fmt.Fprintf(os.Stderr, "DEBUG slot %d delivery %d queue=%d %s from=%d to=%d t=%d\n", slot, cnt, nt.q.Len(), kind, m.from, m.to, m.at-base)
				}
				nt.deliver(m)
				nt.checkAll(or, fmt.Sprintf("delivery at slot %d", slot))
			}
			SleepUntilMs(ts)
			if p.Isolate > 0 && honest > 1 {
				iso := (p.Isolate - 1) % honest
				if slot == p.IsoFrom {
					for i := range nt.group {
						nt.group[i] = 0
					}
					nt.group[iso] = 1
					r.Count("fault.isolate_node", 1)
					r.Tracef("slot %d: node%d isolated", slot, iso)
				} else if slot == p.IsoTo {
					for i := range nt.group {
						nt.group[i] = 0
					}
					r.Count("fault.heal", 1)
					r.Tracef("slot %d: node%d rejoins", slot, iso)
				}
			}
			for _, f := range p.Faults {
				if f.Slot != slot {
					continue
				}
				switch f.Kind {
				case "partition":
					for i := range nt.group {
						nt.group[i] = (i + f.A) % 2
					}
					r.Count("fault.partition", 1)
					r.Tracef("slot %d: partition %v", slot, nt.group)
				case "heal":
					for i := range nt.group {
						nt.group[i] = 0
					}
					r.Count("fault.heal", 1)
				case "restart":
					i := f.A % honest
					if err := nt.startNode(i, nt.Nodes[i].Disk.Clone()); err != nil {
						r.Count("contained.restart_failed", 1)
						r.Tracef("slot %d: node%d does not restart: %v", slot, i, err)
						return
					}
					synctest.Wait()
					nt.dirty[i] = true
					if getenv("VERIF_DEBUG", "") != "" {
						nn := nt.Nodes[i]
						st := nn.Store.GetStoreStatus()
						fh, fhash := nn.Chain.Casper().LastFinalized()
						fmt.Printf("DEBUG restart node%d: status best=%s finalized=%s(h%d) casperFin=%s(h%d)\n", i, w.name(*st.Hash), w.name(*st.FinalizedHash), st.FinalizedHeight, w.name(fhash), fh)
						for _, h := range w.Order {
							s := w.Tree.Nodes[h]
							if s.Height%w.P.E == 0 {
								h := h
								if cp, err := nn.Store.GetCheckpoint(&h); err == nil {
									fmt.Printf("DEBUG   cp %s h=%d status=%d parent=%s\n", w.name(h), s.Height, cp.Status, w.name(cp.ParentHash))
								}
							}
						}
					}
					r.Count("fault.restart", 1)
					r.Tracef("slot %d: node%d restarted", slot, i)
				}
			}
			for _, a := range p.Acts {
				if a.Slot == slot {
					nt.byzantine(a, ts)
				}
			}
			for i := 0; i < honest; i++ {
				nt.propose(i, ts)
			}
			nt.checkAll(or, fmt.Sprintf("slot %d", slot))
		}
		// faults stop: heal, drain the network loss-free
		nt.draining = true
		for i := range nt.group {
			nt.group[i] = 0
		}
		p2 := *p
		p2.DropPct, p2.DupPct = 0, 0
		nt.P = &p2
		for drained := 0; nt.q.Len() > 0 && !r.Failed(); drained++ {
			m := heap.Pop(&nt.q).(*netMsg)
			SleepUntilMs(m.at)
			nt.deliver(m)
			nt.checkAll(or, "drain")
			if getenv("VERIF_DEBUG", "") != "" && drained%500 == 0 {
				kind := "vote"
				if m.block != nil {
					kind = fmt.Sprintf("block %s h=%d", w.name(m.block.Hash()), m.block.Height)
				} else if m.fetch != nil {
					kind = "fetch " + w.name(*m.fetch)
				}
				fmt.Fprintf(os.Stderr, "DEBUG drain %d queue=%d last=%s from=%d to=%d\n", drained, nt.q.Len(), kind, m.from, m.to)
			}
			if drained > 200000 {
				harness("network does not drain: %d messages still queued after 200000 deliveries", nt.q.Len())
			}
		}
		r.SimTime(msDur(nowMs() - start))
		for _, n := range nt.Nodes {
			if hgt, _ := n.Chain.Casper().LastFinalized(); hgt > 0 {
				r.NonTrivial()
			}
		}
	})
}

func specNet(prop string, or NetOracles, rule string) simkit.Spec {
	return simkit.Spec{
		Prop: prop, Gen: genNet, NewPlan: func() any { return &NetPlan{} },
		Exec: func(t *testing.T, plan any, r *simkit.Run) { RunNet(t, plan.(*NetPlan), r, or) },
		Rule: "2-4 validators, each honest one a real node that proposes in its slots (real proposer) and signs/relays votes (real finality engine); blocks and votes travel over a simulated network with drawn drop/duplicate/delay rates, partitions, heals, long isolation of one node, windows in which all votes in flight are lost, and node restarts (only durable state survives); with four validators one may be Byzantine (equivocating blocks, double and surround votes) and anyone may replay old, garbage-signed or non-validator votes; orphans trigger a parent fetch from the sender; after the last slot faults stop and the network drains loss-free. " + rule +
			" Non-trivial = at least one checkpoint beyond genesis was finalized; distinct = hash of the event trace",
		Components: nodeComponents,
		FaultKinds: []string{"fault.drop", "fault.duplicate", "fault.delay_over_a_slot", "fault.partition", "fault.partition_drop", "fault.heal", "fault.restart",
			"fault.header_suplinks_tampered", "fault.restart_after_tampered_block", "fault.isolate_node", "fault.vote_blackout_drop", "fault.byz_equivocating_block", "fault.byz_double_vote", "fault.byz_surround_vote", "fault.replayed_old_vote", "fault.garbage_signature_vote", "fault.nonvalidator_vote"},
		Probes:      []string{"probe.finalized_checkpoints", "probe.justified_checked", "votes.signed_by_honest", "net.orphan_parent_requested"},
		Assumptions: []string{"fault bound: at most floor((V-1)/3) Byzantine validators, i.e. one of four and none otherwise", "gossip policy is a stub: every message goes to every connected node subject to the drawn faults; TCP/MConnection/peer discovery are not simulated"},
	}
}

// SpecC16, SpecC17, SpecC18.
func SpecC16() simkit.Spec {
	return specNet("C16", NetOracles{C16: true}, "Oracle after every event: per honest node the last finalized checkpoint only moves to descendants, is an ancestor of the best block and on the main-chain index; all checkpoints ever finalized by honest nodes lie on one chain.")
}
func SpecC17() simkit.Spec {
	return specNet("C17", NetOracles{C17: true}, "Oracle after every event: every checkpoint a node persists as justified has, among the validly signed links that reached that node (messages, block headers, own votes), more than two thirds of the parent epoch's effective validators (reference model) on one link from a source that is itself justified; every finalized checkpoint has such a link to a direct child checkpoint.")
}
func SpecC18() simkit.Spec {
	return specNet("C18", NetOracles{C18: true}, "Oracle after every event: the votes an honest node signed with its own key (across restarts) and the votes any node holds in its store contain, per validator, no two links with equal target height and different targets and no link strictly surrounding another.")
}
