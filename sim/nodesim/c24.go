package nodesim

// C24 "wallet UTXOs depend only on the main chain" and C25 "the wallet never
// reports unspendable outputs as mature": one scenario, two oracles.
//
// A wallet node (real chain + real account manager + real wallet with its
// goroutines) proposes blocks itself so that epoch rewards pay its accounts;
// harness-built transactions move wallet-owned coinbase, normal and vote outputs
// (pay, receive, vote, veto, retire, issue, chained); competing branches are built
// on a second node started from a snapshot and delivered to the wallet node, so
// that it detaches and re-attaches blocks holding those transactions; the wallet
// updater is held back at its commit point while the chain moves on, released a
// few commits at a time or completely.  Whenever the wallet is quiescent on the
// chain's best block the oracles compare it with an independent scan of the
// node's main chain from genesis.

import (
	"bytes"
	"encoding/hex"
	"fmt"
	"sort"
	"testing"
	"testing/synctest"
	"time"

	"pgregory.net/rapid"

	"github.com/bytom/bytom/account"
	"github.com/bytom/bytom/consensus"
	"github.com/bytom/bytom/protocol/bc"
	"github.com/bytom/bytom/protocol/bc/types"

	"verif/sim/model"
	"verif/sim/simkit"
)

// WTx is one abstract transaction request of a block step.
type WTx struct {
	Kind string `json:"k"` // pay | pay2 | ext | out | vote | veto | retire | issue | chain
	A    int    `json:"a,omitempty"`
	B    int    `json:"b,omitempty"`
	C    int    `json:"c,omitempty"`
}

// WStep is one step of the wallet scenario.
type WStep struct {
	Kind string `json:"k"` // blk | fork | hold | step | sync | addr | probe | votes | restart | rescan
	A    int    `json:"a,omitempty"`
	B    int    `json:"b,omitempty"`
	C    int    `json:"c,omitempty"`
	Txs  []WTx  `json:"txs,omitempty"`
}

// WalletPlan is the plan of C24 and C25.
type WalletPlan struct {
	Cfg     WorldCfg   `json:"cfg"`
	Salt    int        `json:"salt"`
	TxIndex bool       `json:"tx_index,omitempty"`
	Accts   []AcctSpec `json:"accts"`
	Payee   []int      `json:"payee"` // coinbase payee per epoch (cycled); epoch 0 always pays account 0
	Steps   []WStep    `json:"steps"`
}

func genAccts(rt *rapid.T) []AcctSpec {
	accts := []AcctSpec{{Keys: 1, Quorum: 1, Addrs: rapid.IntRange(1, 2).Draw(rt, "addrs0")}}
	switch rapid.IntRange(0, 3).Draw(rt, "acctmix") {
	case 0:
		accts = append(accts, AcctSpec{Keys: 3, Quorum: 2, Addrs: 1})
	case 1:
		accts = append(accts, AcctSpec{Keys: 1, Quorum: 1, Addrs: 1})
	case 2:
		accts = append(accts, AcctSpec{Keys: 3, Quorum: 2, Addrs: 1}, AcctSpec{Keys: 1, Quorum: 1, Addrs: 2})
	case 3:
		accts = append(accts, AcctSpec{Keys: 3, Quorum: 1, Addrs: 1})
	}
	return accts
}

func genWTxs(rt *rapid.T, max int) []WTx {
	n := rapid.IntRange(0, max).Draw(rt, "ntx")
	var txs []WTx
	for i := 0; i < n; i++ {
		kind := rapid.SampledFrom([]string{"pay", "vote", "veto", "pay", "vote", "veto", "pay2", "ext", "out", "retire", "issue", "chain"}).Draw(rt, "txkind")
		txs = append(txs, WTx{Kind: kind, A: rapid.IntRange(0, 7).Draw(rt, "a"), B: rapid.IntRange(0, 7).Draw(rt, "b"), C: rapid.IntRange(0, 5).Draw(rt, "c")})
	}
	return txs
}

func genWStep(rt *rapid.T) WStep {
	st := WStep{}
	switch rapid.IntRange(0, 14).Draw(rt, "stepkind") {
	case 14:
		st.Kind = "rescan"
	case 12:
		st.Kind = "votes"
		st.A = rapid.IntRange(0, 8).Draw(rt, "target")
		st.C = rapid.IntRange(0, 1).Draw(rt, "keepclosed")
	case 13:
		st.Kind = "restart"
	case 0, 1, 2, 3:
		st.Kind = "blk"
		st.A = rapid.IntRange(0, 2).Draw(rt, "skip")
		st.Txs = genWTxs(rt, 3)
	case 4, 5, 6, 7:
		st.Kind = "fork"
		st.A = rapid.IntRange(0, 6).Draw(rt, "parent")
		st.B = rapid.IntRange(0, 3).Draw(rt, "extra")
		st.C = rapid.IntRange(0, 1).Draw(rt, "keepclosed")
		st.Txs = genWTxs(rt, 4)
	case 8:
		st.Kind = "hold"
	case 9:
		st.Kind = "step"
		st.A = rapid.IntRange(0, 3).Draw(rt, "commits")
	case 10:
		st.Kind = "sync"
	case 11:
		if rapid.Bool().Draw(rt, "addrq") {
			st.Kind = "addr"
			st.A = rapid.IntRange(0, 3).Draw(rt, "acct")
		} else {
			st.Kind = "probe"
			st.A = rapid.IntRange(0, 9).Draw(rt, "pick")
		}
	}
	return st
}

func genWallet(rt *rapid.T) any {
	cfg := GenCfg(rt, 2)
	p := &WalletPlan{Cfg: cfg, Salt: rapid.IntRange(0, 1<<20).Draw(rt, "salt"), TxIndex: rapid.Bool().Draw(rt, "txindex"), Accts: genAccts(rt)}
	for i, n := 0, rapid.IntRange(1, 4).Draw(rt, "npayee"); i < n; i++ {
		p.Payee = append(p.Payee, rapid.IntRange(0, 3).Draw(rt, "payee"))
	}
	n := rapid.IntRange(5, 16).Draw(rt, "nsteps")
	for i := 0; i < n; i++ {
		p.Steps = append(p.Steps, genWStep(rt))
	}
	// a drawn share of the plans contains the pattern that makes the best chain
	// shorter: a competing stub, a few blocks spending what has just become
	// spendable, every validator's vote for the stub's checkpoint, a restart
	if rapid.IntRange(0, 2).Draw(rt, "rollbackq") == 2 {
		// four validators and no elected ones: blocks alone (one proposer vote each) justify nothing, three further votes do
		p.Cfg.Validators, p.Cfg.MinVotes = 4, 1000000000000000
		at := rapid.IntRange(0, len(p.Steps)).Draw(rt, "rollbackat")
		var pat []WStep
		pat = append(pat, WStep{Kind: "blk", Txs: []WTx{{Kind: "vote", A: rapid.IntRange(0, 7).Draw(rt, "a"), B: rapid.IntRange(0, 7).Draw(rt, "b")}}})
		pat = append(pat, WStep{Kind: "fork", B: 3, Txs: genWTxs(rt, 2)})
		m := rapid.IntRange(1, 4).Draw(rt, "rollbackblocks")
		for i := 0; i < m; i++ {
			txs := genWTxs(rt, 2)
			txs = append(txs, WTx{Kind: rapid.SampledFrom([]string{"payfresh", "vetofresh", "vote"}).Draw(rt, "freshkind"), B: rapid.IntRange(0, 7).Draw(rt, "b"), C: rapid.IntRange(0, 5).Draw(rt, "c")})
			pat = append(pat, WStep{Kind: "blk", Txs: txs})
		}
		stub := 1
		if rapid.Bool().Draw(rt, "doublereorg") {
			// two reorganisations in a row: first an empty branch at least as high abandons some of the
			// blocks that have just spent fresh outputs (the wallet puts the spent outputs back), then the
			// votes move the best chain down to the stub
			pat = append(pat, WStep{Kind: "fork", A: rapid.IntRange(2, m+2).Draw(rt, "abandon"), B: rapid.IntRange(0, 1).Draw(rt, "by")})
			stub = 2
		}
		pat = append(pat, WStep{Kind: "votes", A: stub}, WStep{Kind: "restart"})
		p.Steps = append(p.Steps[:at:at], append(pat, p.Steps[at:]...)...)
	}
	// another share contains a reorganisation that happens while a wallet rescan (the rescan-wallet
	// request) has not caught up yet: hold the updater, ask for the rescan, let a few commits through,
	// deliver a competing branch, release
	if rapid.IntRange(0, 3).Draw(rt, "rescanq") == 3 {
		at := rapid.IntRange(0, len(p.Steps)).Draw(rt, "rescanat")
		pat := []WStep{{Kind: "blk", Txs: genWTxs(rt, 3)}, {Kind: "hold"}, {Kind: "rescan"}, {Kind: "step", A: rapid.IntRange(0, 3).Draw(rt, "rescancommits")},
			{Kind: "fork", A: rapid.IntRange(0, 3).Draw(rt, "rescanparent"), B: rapid.IntRange(0, 2).Draw(rt, "rescanextra"), C: 1, Txs: genWTxs(rt, 3)}, {Kind: "sync"}}
		p.Steps = append(p.Steps[:at:at], append(pat, p.Steps[at:]...)...)
	}
	return p
}

// wsim is the state of one wallet scenario run.
type wsim struct {
	t  *testing.T
	r  *simkit.Run
	w  *World
	wn *WalletNode
	p  *WalletPlan
	// armed oracles
	c24, c25 bool
	// issued counts issuance transactions (nonces must differ)
	issued int
	// last block each child slot was used at, per parent (to avoid rebuilding an identical sibling)
	slots map[bc.Hash]int
	// chain events since the wallet was last seen quiescent
	eventsSinceSync int
	judged          int
	sawLocked       bool
	detachedWallet  bool
	// transactions of blocks detached from the wallet node's main chain, oldest first
	pending []*types.Tx
}

// payee returns the coinbase program for a block at height h: one program per
// epoch on every branch, so that a reward coinbase pays exactly one program.
func (s *wsim) payee(h uint64) []byte {
	e := int((h - 1) / s.w.P.E)
	pick := 0
	if e > 0 {
		pick = s.p.Payee[e%len(s.p.Payee)]
	}
	var list [][]byte
	list = append(list, s.wn.Accts[0].Progs[0].CP.ControlProgram)
	list = append(list, s.wn.Accts[1%len(s.wn.Accts)].Progs[0].CP.ControlProgram)
	list = append(list, s.w.Keys[len(s.w.Keys)-1].Program)
	last := s.wn.Accts[len(s.wn.Accts)-1]
	list = append(list, last.Progs[len(last.Progs)-1].CP.ControlProgram) // a change address
	return list[pick%len(list)]
}

// allProgs lists every wallet program in creation order.
func (s *wsim) allProgs() []*WProg {
	var ps []*WProg
	for _, a := range s.wn.Accts {
		ps = append(ps, a.Progs...)
	}
	return ps
}

// makeTxs builds the requested transactions on top of node n's main chain.
func (s *wsim) makeTxs(n *Node, reqs []WTx) []*types.Tx {
	if len(reqs) == 0 {
		return nil
	}
	// what exists on n's chain: the reference ledger replay of its best block (generation only; the oracles scan the chain themselves)
	st := s.w.Tree.Nodes[n.Best()]
	if st == nil || st.Invalid != nil {
		s.r.Count("contained.no_model_state", 1)
		return nil
	}
	h := st.Height + 1
	used := map[bc.Hash]bool{}
	for _, d := range n.Pool.GetTransactions() {
		for _, inp := range d.Tx.Inputs {
			if id, err := inp.SpentOutputID(); err == nil {
				used[id] = true
			}
		}
	}
	var all []*Owned
	for _, o := range st.Utxo {
		p := s.wn.Owner(o.Program)
		k := s.w.keyByProg[hex.EncodeToString(o.Program)]
		if p == nil && k == nil {
			continue
		}
		all = append(all, &Owned{ID: o.ID, Asset: o.Asset, Amount: o.Amount, Program: o.Program, Vote: o.Vote, State: o.State, Kind: o.Kind,
			Height: o.Height, OutPos: o.Pos, SourceID: o.SourceID, SourcePos: o.SourcePos, Prog: p, Ext: k})
	}
	sort.Slice(all, func(i, j int) bool {
		if all[i].Height != all[j].Height {
			return all[i].Height < all[j].Height
		}
		return all[i].ID.String() < all[j].ID.String()
	})
	btm := *consensus.BTMAssetID
	pick := func(idx int, min uint64, wallet bool, kinds ...model.OutKind) *Owned {
		var cands []*Owned
		for _, o := range all {
			if used[o.ID] || o.Asset != btm || o.Amount < min || !s.w.SpendableAt(o, h) || (o.Prog != nil) != wallet {
				continue
			}
			ok := false
			for _, k := range kinds {
				ok = ok || o.Kind == k
			}
			if ok {
				cands = append(cands, o)
			}
		}
		if len(cands) == 0 {
			return nil
		}
		var o *Owned
		if idx < 0 {
			o = cands[len(cands)-1] // the youngest: the one that became spendable last
		} else {
			o = cands[idx%len(cands)]
		}
		used[o.ID] = true
		return o
	}
	progs := s.allProgs()
	dest := func(i int) []byte { return progs[i%len(progs)].CP.ControlProgram }
	changeOf := func(o *Owned) []byte {
		if o.Prog == nil {
			return o.Program
		}
		ps := o.Prog.Acct.Progs
		for _, p := range ps {
			if p.CP.Change {
				return p.CP.ControlProgram
			}
		}
		return o.Program
	}
	var txs []*types.Tx
	var fresh []*Owned
	for i, q := range reqs {
		var tx *types.Tx
		switch q.Kind {
		case "pay", "pay2", "out", "ext", "payfresh":
			if q.Kind == "payfresh" {
				q.A = -1
			}
			wallet := q.Kind != "ext"
			var ins []*Owned
			var total uint64
			nIn := 1
			if q.Kind == "pay2" {
				nIn = 2
			}
			for j := 0; j < nIn; j++ {
				a := q.A
				if a >= 0 {
					a += j
				}
				kinds := []model.OutKind{model.Normal, model.Coinbase}
				if q.Kind == "payfresh" {
					kinds = kinds[1:] // the reward that matured last
				}
				if o := pick(a, 1, wallet, kinds...); o != nil {
					ins = append(ins, o)
					total += o.Amount
				}
			}
			if len(ins) == 0 {
				continue
			}
			fee := OwnedFee(ins, 2)
			if total <= fee+2 {
				continue
			}
			rest := total - fee
			amt := rest / uint64(2+q.C)
			to := dest(q.B)
			if q.Kind == "out" {
				to = s.w.Keys[q.B%len(s.w.Keys)].Program
			}
			outs := []*types.TxOutput{types.NewOriginalTxOutput(btm, amt, to, nil), types.NewOriginalTxOutput(btm, rest-amt, changeOf(ins[0]), nil)}
			tx = s.wn.BuildOwned(ins, outs, 0)
		case "vote":
			o := pick(q.A, model.MinVoteOutput+3000000, true, model.Normal, model.Coinbase)
			if o == nil {
				continue
			}
			fee := OwnedFee([]*Owned{o}, 2)
			rest := o.Amount - fee
			amt := uint64(model.MinVoteOutput) * uint64(1+q.C%3)
			if amt > rest {
				amt = rest
			}
			cand := s.w.Keys[q.B%len(s.w.Keys)]
			outs := []*types.TxOutput{types.NewVoteOutput(btm, amt, dest(q.B+q.C), cand.Xpub[:], nil)}
			if rest > amt {
				outs = append(outs, types.NewOriginalTxOutput(btm, rest-amt, changeOf(o), nil))
			}
			tx = s.wn.BuildOwned([]*Owned{o}, outs, 0)
		case "veto", "vetofresh":
			if q.Kind == "vetofresh" {
				q.A = -1
			}
			o := pick(q.A, 1, true, model.Vote)
			if o == nil {
				continue
			}
			fee := OwnedFee([]*Owned{o}, 1)
			if o.Amount <= fee {
				continue
			}
			tx = s.wn.BuildOwned([]*Owned{o}, []*types.TxOutput{types.NewOriginalTxOutput(btm, o.Amount-fee, dest(q.B), nil)}, 0)
		case "retire":
			o := pick(q.A, 3000000, true, model.Normal, model.Coinbase)
			if o == nil {
				continue
			}
			rest := o.Amount - OwnedFee([]*Owned{o}, 2)
			burn := rest / uint64(2+q.C)
			outs := []*types.TxOutput{types.NewOriginalTxOutput(btm, burn, []byte{0x6a}, nil), types.NewOriginalTxOutput(btm, rest-burn, changeOf(o), nil)}
			tx = s.wn.BuildOwned([]*Owned{o}, outs, 0)
		case "issue":
			o := pick(q.A, 3500000, true, model.Normal, model.Coinbase)
			if o == nil {
				continue
			}
			s.issued++
			nonce := []byte(fmt.Sprintf("wn-%d-%d-%d", h, i, s.issued))
			amount := uint64(1 + q.C*1000)
			issue := types.NewIssuanceInput(nonce, amount, []byte{0x51}, nil, []byte(fmt.Sprintf(`{"n":%d}`, q.B)))
			data := types.TxData{Version: 1, Inputs: []*types.TxInput{InputOf(o), issue}}
			data.Outputs = []*types.TxOutput{
				types.NewOriginalTxOutput(issue.AssetID(), amount, dest(q.B), nil),
				types.NewOriginalTxOutput(btm, o.Amount-OwnedFee([]*Owned{o}, 2)-400000, changeOf(o), nil),
			}
			tx = types.NewTx(data)
			s.wn.SignOwned(tx)
			raw, _ := tx.TxData.MarshalText()
			tx.TxData.SerializedSize = uint64(len(raw) / 2)
			tx = types.NewTx(tx.TxData)
			s.wn.SignOwned(tx)
		case "chain":
			var o *Owned
			for _, f := range fresh {
				if !used[f.ID] && f.Kind == model.Normal && f.Asset == btm && f.Amount > 3500000 {
					o = f
					break
				}
			}
			if o == nil {
				continue
			}
			used[o.ID] = true
			tx = s.wn.BuildOwned([]*Owned{o}, []*types.TxOutput{types.NewOriginalTxOutput(btm, o.Amount-OwnedFee([]*Owned{o}, 1), dest(q.B), nil)}, 0)
		}
		if tx == nil {
			continue
		}
		for j, out := range tx.Outputs {
			p := s.wn.Owner(out.ControlProgram)
			if out.Amount == 0 || p == nil || out.OutputType() != types.OriginalOutputType {
				continue
			}
			f := &Owned{ID: *tx.ResultIds[j], Asset: *out.AssetId, Amount: out.Amount, Program: out.ControlProgram, Kind: model.Normal, Height: h, Prog: p}
			if e, ok := tx.Entries[f.ID].(*bc.OriginalOutput); ok {
				f.SourceID, f.SourcePos = *e.Source.Ref, e.Source.Position
			}
			fresh = append(fresh, f)
		}
		s.r.Count("txs.made."+q.Kind, 1)
		txs = append(txs, tx)
	}
	return txs
}

// blockTouchesWallet classifies what a block holds for the wallet.
func (s *wsim) blockTouches(b *types.Block) (outs, spends, voteOuts, vetoes int) {
	for _, tx := range b.Transactions {
		for _, o := range tx.Outputs {
			if o.Amount > 0 && s.wn.Owner(o.ControlProgram) != nil {
				outs++
				if o.OutputType() == types.VoteOutputType {
					voteOuts++
				}
			}
		}
		for _, inp := range tx.Inputs {
			if inp.InputType() == types.CoinbaseInputType || inp.InputType() == types.IssuanceInputType {
				continue
			}
			if s.wn.Owner(inp.ControlProgram()) != nil {
				spends++
				if inp.InputType() == types.VetoInputType {
					vetoes++
				}
			}
		}
	}
	return
}

// noteChange records what a change of the wallet node's best block detached.
func (s *wsim) noteChange(old, cur bc.Hash) {
	if old == cur {
		return
	}
	s.eventsSinceSync++
	w, r := s.w, s.r
	a, b := w.Tree.Nodes[old], w.Tree.Nodes[cur]
	if a == nil || b == nil || model.IsAncestor(a, b) {
		return
	}
	r.Count("probe.reorg", 1)
	if b.Height < a.Height {
		r.Count("probe.reorg_to_shorter", 1)
	}
	var restored []*types.Tx
	for x := a; x != nil && !model.IsAncestor(x, b); x = x.Parent {
		restored = append(append([]*types.Tx{}, x.Block.Transactions[1:]...), restored...)
		outs, spends, voteOuts, vetoes := s.blockTouches(x.Block)
		r.Count("blocks.detached", 1)
		if outs+spends > 0 {
			s.detachedWallet = true
			r.Count("probe.detach_wallet_block", 1)
		}
		if outs > 1 || (outs == 1 && len(x.Block.Transactions) > 1) {
			r.Count("probe.detach_wallet_output", 1)
		}
		if spends > 0 {
			r.Count("probe.detach_wallet_spend", 1)
		}
		if voteOuts > 0 {
			r.Count("probe.detach_wallet_vote_output", 1)
		}
		if vetoes > 0 {
			r.Count("probe.detach_wallet_veto", 1)
		}
	}
	s.pending = append(s.pending, restored...)
	if len(s.pending) > 8 {
		s.pending = s.pending[len(s.pending)-8:]
	}
}

// admit records a produced block (model tree, names, snapshot).
func (s *wsim) admit(res *ProposeResult) bool {
	if res.Err != nil || res.Block == nil {
		s.r.Count("contained.template_error", 1)
		return false
	}
	if res.FeedErr != nil || res.FeedOrphan {
		s.r.Count("contained.own_block_rejected", 1)
		return false
	}
	if _, dup := s.w.Blocks[res.Block.Hash()]; dup {
		s.r.Count("blocks.identical_reproduced", 1)
		return false
	}
	st := s.w.Admit(res)
	if st.Invalid != nil {
		s.r.Count("contained.model_rejects", 1)
	}
	s.r.Count("blocks.produced", 1)
	s.r.Count("txs.included", len(res.Block.Transactions)-1)
	return true
}

// produceOnWallet lets the wallet node propose its next block itself (used while
// its mempool holds nothing but what the harness offered: the warm-up).
func (s *wsim) produceOnWallet(skip int) {
	wn := s.wn
	old := wn.Best()
	h := s.w.Blocks[old].Height + 1
	res := s.w.ProposeOn(wn.Node, s.payee(h), skip, nil)
	if !s.admit(res) {
		return
	}
	s.slots[old] = skip + 1
	s.r.Tracef("own %s on %s h=%d", s.w.name(res.Block.Hash()), s.w.name(old), h)
	s.noteChange(old, wn.Best())
}

// build produces length blocks on top of parent on a second node started from the
// snapshot of parent. Transactions detached from the wallet node's main chain
// earlier are offered again first (what a node's mempool does after a
// reorganisation, here in a fixed order), then the requested fresh ones.
func (s *wsim) build(tag string, parent bc.Hash, length, skip0 int, reqs []WTx) []bc.Hash {
	w, r := s.w, s.r
	alt, err := w.StartNode(fmt.Sprintf("builder%d", w.nodes), w.snaps[parent].Clone(), w.Keys[0])
	if err != nil || alt.Best() != parent {
		r.Count("contained.builder_start_failed", 1)
		return nil
	}
	var branch []bc.Hash
	for i := 0; i < length; i++ {
		cur := alt.Best()
		var mine []WTx
		for j, q := range reqs {
			if j%length == i {
				mine = append(mine, q)
			}
		}
		for _, tx := range s.pending {
			time.Sleep(time.Millisecond)
			alt.SubmitTx(tx)
		}
		txs := s.makeTxs(alt, mine)
		skip := s.slots[cur]
		if i == 0 && skip0 > skip {
			skip = skip0
		}
		res := w.ProposeOn(alt, s.payee(w.Blocks[cur].Height+1), skip, txs)
		if !s.admit(res) {
			break
		}
		s.slots[cur] = skip + 1
		branch = append(branch, res.Block.Hash())
		r.Tracef("%s %s on %s h=%d slot+%d txs=%d (fresh %d)", tag, w.name(res.Block.Hash()), w.name(cur), res.Block.Height, skip, len(res.Block.Transactions)-1, len(txs))
	}
	return branch
}

// deliver feeds blocks to the wallet node.
func (s *wsim) deliver(branch []bc.Hash) {
	w, r, wn := s.w, s.r, s.wn
	for _, h := range branch {
		old := wn.Best()
		orphan, err := wn.Process(w.Blocks[h])
		cur := wn.Best()
		reorg := cur != old && !model.IsAncestor(w.Tree.Nodes[old], w.Tree.Nodes[cur])
		r.Tracef("deliver %s -> orphan=%v err=%v best=%s reorg=%v", w.name(h), orphan, err != nil, w.name(cur), reorg)
		if err != nil {
			r.Count("contained.block_rejected", 1)
		}
		s.noteChange(old, cur)
	}
}

// block: the next block on the wallet node's best block, built elsewhere and delivered.
func (s *wsim) block(st WStep) {
	branch := s.build("blk", s.wn.Best(), 1, st.A, st.Txs)
	s.deliver(branch)
}

// fork builds a branch on a second node and delivers it to the wallet node.
func (s *wsim) fork(st WStep) {
	w, r, wn := s.w, s.r, s.wn
	// parent: 0 = the wallet node's best block, k = the k-th most recently produced block
	n := len(w.Order)
	parent := wn.Best()
	if st.A > 0 {
		parent = w.Order[n-1-(st.A-1)%n]
	}
	if w.snaps[parent] == nil || w.Tree.Nodes[parent].Invalid != nil {
		parent = wn.Best()
	}
	ph := w.Blocks[parent].Height
	target := w.Blocks[wn.Best()].Height
	if ph > target {
		target = ph
	}
	target += 1 + uint64(st.B)
	length := int(target - ph)
	if length > 9 {
		length = 9
	}
	if st.B == 3 {
		// a competing checkpoint: one block at the highest checkpoint height of the best
		// chain, next to the best chain's own checkpoint block (it does not win by height)
		best := w.Tree.Nodes[wn.Best()]
		c := best.Height - best.Height%w.P.E
		if c == 0 || best.Height == 0 {
			return
		}
		parent, length = model.Ancestor(best, c-1).Hash, 1
		if w.snaps[parent] == nil {
			return
		}
	}
	branch := s.build("alt", parent, length, 0, st.Txs)
	if len(branch) == 0 {
		return
	}
	r.Count("forks.built", 1)
	// deliver with the wallet held at its commit point: it can only observe chain states at which the chain is quiescent
	wasOpen := !wn.Gate.IsClosed()
	wn.Gate.Close()
	s.deliver(branch)
	if wasOpen && st.C == 0 {
		wn.Gate.Open()
	} else {
		r.Count("fault.wallet_held", 1)
	}
}

// votes sends the wallet node every validator's vote for the checkpoint at or below
// a chosen recent block (source: the nearest ancestor checkpoint the node holds as
// justified). With two validators nothing is justified by blocks alone, so this
// can make a shorter branch the best chain.
func (s *wsim) votes(st WStep) {
	w, r, wn := s.w, s.r, s.wn
	// target branch: 0 = the best chain, k = the k-th most recently produced tip of another branch
	x := w.Tree.Nodes[wn.Best()]
	if st.A > 0 {
		hasChild := map[bc.Hash]bool{}
		for _, h := range w.Order[1:] {
			hasChild[w.Blocks[h].PreviousBlockHash] = true
		}
		var tips []*model.BlockState
		for i := len(w.Order) - 1; i > 0; i-- {
			if h := w.Order[i]; !hasChild[h] && h != wn.Best() {
				tips = append(tips, w.Tree.Nodes[h])
			}
		}
		if len(tips) > 0 {
			x = tips[(st.A-1)%len(tips)]
		}
	}
	for x != nil && (x.Height%w.P.E != 0 || x.Height == 0) {
		x = x.Parent
	}
	if x == nil || x.Parent == nil || x.Invalid != nil {
		return
	}
	src := w.JustifiedSource(wn.Node, x)
	if src == nil {
		return
	}
	wasOpen := !wn.Gate.IsClosed()
	wn.Gate.Close()
	for _, v := range w.Tree.EffectiveValidators(w.Tree.CheckpointOf(x.Parent).Votes) {
		k := w.keyByPub[v.PubKey]
		if k == nil {
			continue
		}
		old := wn.Best()
		wn.Activate()
		err := wn.Chain.ProcessBlockVerification(SignVote(k, src.Hash, x.Hash))
		synctest.Wait()
		cur := wn.Best()
		r.Tracef("vote by %d for %s from %s -> err=%v best=%s", k.Idx, w.name(x.Hash), w.name(src.Hash), err != nil, w.name(cur))
		r.Count("votes.sent", 1)
		s.noteChange(old, cur)
	}
	if wasOpen && st.C == 0 {
		wn.Gate.Open()
	}
}

// walletQuiescent reports whether the wallet has caught up with the chain.
func (s *wsim) walletQuiescent() bool {
	synctest.Wait()
	if s.wn.Gate.Parked() {
		return false
	}
	st := s.wn.Wal.GetWalletStatusInfo()
	best := s.wn.Best()
	return st.BestHash == best && st.WorkHash == best
}

func kindName(o *Owned) string { return o.Kind.String() }

// check evaluates the armed oracles if the wallet is quiescent.
func (s *wsim) check(ctx string) {
	r, wn := s.r, s.wn
	if r.Failed() {
		return
	}
	if !s.walletQuiescent() {
		r.Count("checks.skipped_wallet_behind", 1)
		r.Tracef("  after %s: wallet not on the chain's best block (parked=%v)", ctx, wn.Gate.Parked())
		return
	}
	if s.eventsSinceSync > 1 {
		r.Count("probe.lagged_sync", 1)
	}
	s.eventsSinceSync = 0
	scan, best, err := wn.ScanMainChain(wn.Chain, false)
	if err != nil {
		r.Count("contained.scan_error", 1)
		return
	}
	r.Count("checks.evaluated", 1)
	defer func() { r.Tracef("  after %s: judged at height %d, %d outputs on chain", ctx, best, len(scan)) }()
	recs := map[bc.Hash]*account.UTXO{}
	var order []bc.Hash
	for _, contract := range []bool{false, true} {
		for _, u := range wn.Wal.GetAccountUtxos("", "", false, contract, false) {
			if _, dup := recs[u.OutputID]; dup && s.c24 {
				r.Violate("utxo-set", "listed-twice", "after %s: output listed under both key prefixes", ctx)
				return
			}
			recs[u.OutputID] = u
			order = append(order, u.OutputID)
		}
	}
	if s.c24 {
		s.checkC24(ctx, scan, recs, order, best)
	}
	if s.c25 && !r.Failed() {
		s.checkC25(ctx, scan, recs, order, best)
	}
}

func (s *wsim) describe(o *Owned) string {
	return fmt.Sprintf("%s output of %s created at height %d (tx %d, amount %d)", kindName(o), o.OwnerName(), o.Height, o.TxPos, o.Amount)
}

func (s *wsim) checkC24(ctx string, scan map[bc.Hash]*Owned, recs map[bc.Hash]*account.UTXO, order []bc.Hash, best uint64) {
	r, wn := s.r, s.wn
	// every record must be an unspent wallet output of the main chain, with the same content
	for _, id := range order {
		u := recs[id]
		o := scan[id]
		if o == nil {
			kind := "normal"
			if u.Vote != nil {
				kind = "vote"
			}
			a := wn.acctByID[u.AccountID]
			name := "?"
			if a != nil {
				name = a.Name
			}
			origin := s.originOf(id)
			r.Violate("utxo-set", "extra/"+kind+"/"+origin, "after %s (best height %d): the wallet lists a %s output of %s (amount %d, valid height %d) that is not an unspent output of the main chain: %s",
				ctx, best, kind, name, u.Amount, u.ValidHeight, origin)
			return
		}
		field := ""
		switch {
		case u.AssetID != o.Asset:
			field = "asset"
		case u.Amount != o.Amount:
			field = "amount"
		case !bytes.Equal(u.ControlProgram, o.Program):
			field = "program"
		case u.AccountID != o.Prog.Acct.Acc.ID:
			field = "account"
		case !bytes.Equal(u.Vote, o.Vote):
			field = "vote-key"
		case u.SourceID != o.SourceID || u.SourcePos != o.SourcePos:
			field = "source"
		}
		if field != "" {
			r.Violate("utxo-record", field+"/"+kindName(o), "after %s: wallet record of the %s differs from the chain in %s", ctx, s.describe(o), field)
			return
		}
	}
	for _, o := range OwnedList(scan) {
		if recs[o.ID] == nil {
			r.Violate("utxo-set", "missing/"+kindName(o), "after %s (best height %d): the wallet does not list the %s, unspent on the main chain", ctx, best, s.describe(o))
			return
		}
	}
	// the per-account and vote listings are views of the same set
	for _, a := range wn.Accts {
		want := 0
		for _, o := range scan {
			if o.Prog.Acct == a {
				want++
			}
		}
		if got := len(wn.Wal.GetAccountUtxos(a.Acc.ID, "", false, false, false)); got != want {
			r.Violate("utxo-listing", "account", "after %s: listing of %s has %d outputs, main chain has %d", ctx, a.Name, got, want)
			return
		}
	}
	votes := 0
	for _, o := range scan {
		if o.Kind == model.Vote {
			votes++
		}
	}
	if got := len(wn.Wal.GetAccountUtxos("", "", false, false, true)); got != votes {
		r.Violate("utxo-listing", "vote", "after %s: vote listing has %d outputs, main chain has %d", ctx, got, votes)
		return
	}
	if s.detachedWallet {
		r.NonTrivial()
	}
}

// originOf says where an output id that is not on the main chain comes from.
func (s *wsim) originOf(id bc.Hash) string {
	o := s.w.Tree.AllOutputs[id]
	if o == nil {
		return "never-created"
	}
	best := s.w.Tree.Nodes[s.wn.Best()]
	created := false
	for x := best; x != nil; x = x.Parent {
		for _, tx := range x.Block.Transactions {
			for _, rid := range tx.ResultIds {
				if *rid == id {
					created = true
				}
			}
		}
	}
	if created {
		return "spent-on-main-chain"
	}
	return "created-on-abandoned-branch"
}

func (s *wsim) checkC25(ctx string, scan map[bc.Hash]*Owned, recs map[bc.Hash]*account.UTXO, order []bc.Hash, best uint64) {
	r := s.r
	for _, o := range scan {
		if !s.w.SpendableAt(o, best+1) {
			s.sawLocked = true
		}
	}
	for _, id := range order {
		u := recs[id]
		if u.ValidHeight > best {
			continue // the wallet itself reports it as not yet usable
		}
		o := scan[id]
		if o == nil {
			r.Count("contained.record_not_on_chain", 1)
			continue
		}
		s.judged++
		if s.w.SpendableAt(o, best+1) {
			continue
		}
		how := "early"
		if u.ValidHeight == 0 {
			how = "zero"
		}
		// confirm with the node itself before reporting: the spend must not get into the next block
		if s.minedNext([]*Owned{o}) > 0 {
			harness("C25 oracle says the %s cannot be spent at height %d, the node mines the spend", s.describe(o), best+1)
		}
		r.Violate("usable-but-locked", kindName(o)+"/"+how, "after %s: best height %d, the wallet reports the %s as usable (valid height %d) but consensus does not allow spending it at height %d",
			ctx, best, s.describe(o), u.ValidHeight, best+1)
		return
	}
	if s.judged > 0 && s.sawLocked {
		r.NonTrivial()
	}
}

// minedNext builds one self-payment per output on a throw-away copy of the wallet
// node's chain, offers them to its mempool and proposes the next block there; it
// returns how many of them the block contains.
func (s *wsim) minedNext(outs []*Owned) int {
	w, wn := s.w, s.wn
	probe, err := w.StartNode(fmt.Sprintf("probe%d", w.nodes), wn.Disk.Clone(), w.Keys[0])
	if err != nil || probe.Best() != wn.Best() {
		s.r.Count("contained.probe_start_failed", 1)
		return -1
	}
	btm := *consensus.BTMAssetID
	var txs []*types.Tx
	for _, o := range outs {
		fee := OwnedFee([]*Owned{o}, 1)
		var ins []*Owned
		ins = append(ins, o)
		total := uint64(0)
		if o.Asset == btm {
			total = o.Amount
		}
		if total <= fee {
			continue
		}
		txs = append(txs, wn.BuildOwned(ins, []*types.TxOutput{types.NewOriginalTxOutput(btm, total-fee, o.Program, nil)}, 0))
	}
	res := w.ProposeOn(probe, w.Keys[0].Program, 0, txs)
	if res.Err != nil || res.Block == nil {
		s.r.Count("contained.probe_template_error", 1)
		return -1
	}
	in := map[bc.Hash]bool{}
	for _, tx := range res.Block.Transactions {
		in[tx.ID] = true
	}
	n := 0
	for _, tx := range txs {
		if in[tx.ID] {
			n++
		}
	}
	return n
}

// probe spends a sample of the records the wallet reports usable on a copy of the node.
func (s *wsim) probe(st WStep) {
	r, wn := s.r, s.wn
	if !s.c25 || !s.walletQuiescent() {
		return
	}
	scan, best, err := wn.ScanMainChain(wn.Chain, false)
	if err != nil {
		return
	}
	var usable []*Owned
	for _, u := range wn.Wal.GetAccountUtxos("", "", false, false, false) {
		if o := scan[u.OutputID]; o != nil && u.ValidHeight <= best && o.Asset == *consensus.BTMAssetID && o.Amount > 3500000 {
			usable = append(usable, o)
		}
	}
	if len(usable) == 0 {
		return
	}
	SortOwned(usable)
	o := usable[st.A%len(usable)]
	got := s.minedNext([]*Owned{o})
	if got < 0 {
		return
	}
	r.Count("probe.spend_of_usable_record_mined", got)
	r.Tracef("probe spend of %s output h=%d -> mined=%d", kindName(o), o.Height, got)
	if got == 0 {
		r.Violate("usable-not-mined", kindName(o), "best height %d: the wallet reports the %s as usable but the node's proposer does not accept its spend into the next block", best, s.describe(o))
	}
}

func execWallet(c24, c25 bool) func(t *testing.T, plan any, r *simkit.Run) {
	return func(t *testing.T, plan any, r *simkit.Run) {
		p := plan.(*WalletPlan)
		restore := installDetRand(p.Salt)
		defer restore()
		Bubble(t, func() {
			w := NewWorld(t, r, p.Cfg)
			start := nowMs()
			if err := w.InitSnapshots(); err != nil {
				r.Violate("init", "", "node cannot initialise an empty store: %v", err)
				return
			}
			wn, err := w.StartWalletNode("wallet", w.snaps[w.Genesis.Hash()].Clone(), p.Accts, p.TxIndex)
			if err != nil {
				r.Violate("init", "wallet", "wallet node cannot start: %v", err)
				return
			}
			s := &wsim{t: t, r: r, w: w, wn: wn, p: p, c24: c24, c25: c25, slots: map[bc.Hash]int{}}
			for i := 0; i < WarmupLen(p.Cfg) && !r.Failed(); i++ {
				s.produceOnWallet(0)
			}
			// from here on the wallet node only follows the chain: it is not a validator and casts no votes of its own
			wn.setIdentity(observerKey())
			s.check("warm-up")
			for i, st := range p.Steps {
				if r.Failed() {
					break
				}
				switch st.Kind {
				case "blk":
					s.block(st)
				case "fork":
					s.fork(st)
				case "hold":
					wn.Gate.Close()
					r.Tracef("hold")
				case "step":
					n := wn.Gate.Step(1 + st.A)
					r.Tracef("step %d -> %d commits", 1+st.A, n)
					r.Count("fault.wallet_stepped", n)
				case "sync":
					wn.Gate.Open()
					r.Tracef("sync")
				case "addr":
					a := wn.Accts[st.A%len(wn.Accts)]
					if _, err := wn.NewAddress(a, false); err != nil {
						harness("new address: %v", err)
					}
					r.Tracef("addr %s", a.Name)
				case "probe":
					s.probe(st)
				case "votes":
					s.votes(st)
				case "rescan":
					wn.Wal.RescanBlocks()
					synctest.Wait()
					r.Count("fault.wallet_rescan", 1)
					r.Tracef("rescan requested")
				case "restart":
					nw, err := s.wn.Restart(p.TxIndex)
					if err != nil {
						r.Violate("restart", "", "wallet node cannot restart from its disks: %v", err)
						break
					}
					s.wn, wn = nw, nw
					r.Count("fault.wallet_restart", 1)
					r.Tracef("restart")
				}
				s.check(fmt.Sprintf("step %d (%s)", i, st.Kind))
			}
			if !r.Failed() {
				wn.Gate.Open()
				s.check("final sync")
			}
			r.SimTime(msDur(nowMs() - start))
		})
	}
}

var walletComponents = map[string]string{
	"wallet.Wallet (walletUpdater, delUnconfirmedTx, memPoolTxQueryLoop goroutines)": "real",
	"account.Manager + utxoKeeper":                      "real",
	"asset.Registry":                                    "real",
	"contract.Registry":                                 "real (constructed, not exercised)",
	"blockchain/txbuilder, blockchain/signers":          "real",
	"protocol.Chain + OrphanManage + block processor":   "real",
	"protocol/casper.Casper":                            "real",
	"protocol.TxPool":                                   "real",
	"protocol/validation + vm":                          "real",
	"database.Store + caches":                           "real",
	"proposal.NewBlockTemplate":                         "real (driven at slot times by the harness on the wallet node itself and on a second node for competing branches)",
	"event.Dispatcher":                                  "real",
	"blockchain/pseudohsm (keystore files, passwords)":  "stub: not used; keys are harness-held chainkd root keys, signing derives the child key by path and signs (what HSM.XSign does after loading the key)",
	"api / RPC layer":                                   "stub: harness calls the wallet, account manager and txbuilder functions the RPC handlers call",
	"storage engine":                                    "stub: simdisk (ordered map with atomic write batches; validated against goleveldb by C20); the wallet's handle can hold back the batch that commits an attach/detach",
	"network / netsync reactors":                        "stub: harness delivers blocks and transactions directly to Chain entry points",
	"clock":                                             "simulated (testing/synctest bubble)",
	"random source (uuid account ids, issuance nonces)": "stub: plan-seeded deterministic stream",
}

const walletRule = "a wallet node (1-3 accounts: single-key and 2-of-3 / 1-of-3 multisig, several addresses) proposes a warm-up chain whose epoch rewards pay its accounts, then 5-16 drawn steps: own blocks and competing branches (forked up to 6 produced blocks back, built on a second node, long enough to win) carrying harness-built pay / receive / pay-out / vote / veto / retire / issue / chained transactions over wallet-owned coinbase, normal and vote outputs; the wallet updater is held at its commit point during deliveries and released completely, a few commits at a time, or late; new addresses appear mid-run; a rescan of the wallet is requested at drawn points, also while the updater is held and a competing branch arrives before the rescan has caught up; "

// SpecC24: wallet UTXOs depend only on the main chain.
func SpecC24() simkit.Spec {
	return simkit.Spec{
		Prop: "C24", Gen: genWallet, NewPlan: func() any { return &WalletPlan{} }, Exec: execWallet(true, false),
		Rule:       walletRule + "oracle whenever the wallet's status equals the chain's best block: the wallet's UTXO records under both key prefixes = unspent outputs paying harness-recorded wallet programs found by scanning the node's main chain from genesis (id, asset, amount, program, account, vote key, source); the per-account and vote listings agree; non-trivial = a reorganisation detached at least one block creating or spending a wallet output before an evaluation; distinct = hash of the trace",
		Components: walletComponents, FaultKinds: []string{"fault.wallet_held", "fault.wallet_stepped", "fault.wallet_rescan", "fault.wallet_restart"},
		Probes:      []string{"probe.reorg", "probe.reorg_to_shorter", "probe.detach_wallet_block", "probe.detach_wallet_output", "probe.detach_wallet_spend", "probe.detach_wallet_vote_output", "probe.detach_wallet_veto", "probe.lagged_sync"},
		Assumptions: []string{"outputs paid to an address before the address existed are out of scope (addresses are created before anything pays them)", "the wallet observes the chain only at instants where the chain is quiescent (deliveries happen while the wallet is held at its commit point)"},
	}
}

// SpecC25: the wallet never reports unspendable outputs as mature.
func SpecC25() simkit.Spec {
	return simkit.Spec{
		Prop: "C25", Gen: genWallet, NewPlan: func() any { return &WalletPlan{} }, Exec: execWallet(false, true),
		Rule:       walletRule + "oracle whenever the wallet's status equals the chain's best block at height H: every record with ValidHeight <= H (what the reservation code treats as usable) found on the main chain must be spendable at H+1 by the stated rules (coinbase: created + 10 <= H+1; vote: created + vote lock <= H+1), each violation is first confirmed by offering the spend to a copy of the node and proposing a block; drawn probe steps spend a usable record on a copy of the node and require the proposer to mine it; non-trivial = at least one usable record judged while an immature or locked wallet output existed; distinct = hash of the trace",
		Components: walletComponents, FaultKinds: []string{"fault.wallet_held", "fault.wallet_stepped"},
		Probes:      []string{"probe.reorg", "probe.reorg_to_shorter", "probe.detach_wallet_spend", "probe.detach_wallet_veto", "probe.spend_of_usable_record_mined", "probe.lagged_sync"},
		Assumptions: []string{"records the wallet lists that are not on the main chain at all are C24's subject and only counted here"},
	}
}

var _ = sort.Ints
