package nodesim

import (
	"fmt"
	"sync"
	"testing"
	"testing/synctest"

	"pgregory.net/rapid"

	"verif/sim/simdisk"
	"verif/sim/simkit"
)

// C23 concurrent mode: a submitter task offers the very transactions the blocks
// being connected contain, at the same time as the block feeder delivers those
// blocks, with the slow-disk fault widening the window inside the node's
// connect/reorganise path. Oracle at quiescence: no pooled transaction is
// confirmed on the main chain.

// C23Plan = tree plan + mode.
type C23Plan struct {
	TreePlan
	Concurrent bool `json:"concurrent"`
	Yields     int  `json:"yields"`
	Rounds     int  `json:"rounds"`
	// Sched: the concurrent run is executed under the cooperative scheduler (instrumented build);
	// the plan's tape decides every interleaving, so the run replays exactly.
	Sched *C37dPlan `json:"sched,omitempty"`
}

func genC23(rt *rapid.T) any {
	base := genTree(2, 6, 18, 5, 5, 6, true)(rt).(*TreePlan)
	p := &C23Plan{TreePlan: *base}
	p.Concurrent = rapid.IntRange(0, 2).Draw(rt, "conc") == 2
	switch getenv("VERIF_C23_MODE", "") { // development knob: force one mode
	case "seq":
		p.Concurrent = false
	case "conc":
		p.Concurrent = true
	}
	p.Yields = rapid.SampledFrom([]int{0, 1, 3, 8}).Draw(rt, "yields")
	p.Rounds = rapid.IntRange(1, 3).Draw(rt, "rounds")
	if p.Concurrent {
		sp := genC37d(rt).(*C37dPlan)
		sp.Txs = true
		sp.Readers = 0
		sp.TxRounds = rapid.IntRange(0, 2).Draw(rt, "txrounds")
		// chained transactions (a child spending its parent's output in the same block) are what
		// the pool's bookkeeping has to get right while a block connects
		for i := range sp.Tree.Steps {
			if rapid.Bool().Draw(rt, "chainq") {
				sp.Tree.Steps[i].Txs = append(sp.Tree.Steps[i].Txs, TxOp{Kind: "chain", A: rapid.IntRange(0, 7).Draw(rt, "ca"), B: rapid.IntRange(0, 7).Draw(rt, "cb"), C: rapid.IntRange(0, 5).Draw(rt, "cc")})
			}
		}
		p.Sched = sp
		p.TreePlan = TreePlan{Cfg: sp.Tree.Cfg} // the scheduled plan carries its own tree
	}
	return p
}

func execC23(t *testing.T, plan any, r *simkit.Run) {
	p := plan.(*C23Plan)
	if !p.Concurrent {
		execTree(Oracles{}, ObsOracles{C23: true}, func(w *World, o *Observer, r *simkit.Run) bool { return true })(t, &p.TreePlan, r)
		return
	}
	if p.Sched != nil {
		r.Count("mode.scheduled", 1)
		runSched(t, p.Sched, r, true)
		return
	}
	attempts := 1
	if getenv("VERIF_MODE", "") == "replay" {
		attempts = 40 // the Go scheduler picks the interleaving: repeat the same concurrent workload, varying the slow-disk fault
	}
	for a := 0; a < attempts && !r.Failed(); a++ {
		Bubble(t, func() {
			w := NewWorld(t, r, p.Cfg)
			prods := w.ProduceTree(&p.TreePlan, Oracles{})
			if r.Failed() || len(prods) == 0 {
				return
			}
			disk := simdisk.New()
			n, err := w.StartNode("victim", disk, observerKey())
			if err != nil {
				r.Violate("init", "", "%v", err)
				return
			}
			o := &Observer{W: w, N: n, Or: ObsOracles{C23: true}}
			for _, pr := range prods[:p.Warm] {
				n.Process(w.Blocks[pr.Hash])
			}
			rest := prods[p.Warm:]
			disk.YieldBeforeWrite = []int{p.Yields, 1, 3, 8}[a%4]
			if a == 0 {
				disk.YieldBeforeWrite = p.Yields
			}
			if p.Yields > 0 {
				r.Count("fault.slow_disk", 1)
			}
			n.Activate()
			var wg sync.WaitGroup
			var logMu sync.Mutex
			var evlog []string
			dbg := getenv("VERIF_DEBUG", "") != ""
			note := func(f string, a ...any) {
				if dbg {
					logMu.Lock()
					evlog = append(evlog, fmt.Sprintf(f, a...))
					logMu.Unlock()
				}
			}
			start := make(chan struct{})
			wg.Add(2)
			go func() { // block feeder
				defer wg.Done()
				<-start
				for _, pr := range rest {
					note("B begin %s", w.name(pr.Hash))
					_, err := n.Chain.ProcessBlock(copyBlock(w.Blocks[pr.Hash]))
					note("B end %s err=%v best=%s", w.name(pr.Hash), err, w.name(n.Best()))
				}
			}()
			go func() { // submitter: the transactions of exactly those blocks, again and again
				defer wg.Done()
				<-start
				for round := 0; round < p.Rounds; round++ {
					for _, pr := range rest {
						for i, tx := range w.Blocks[pr.Hash].Transactions[1:] {
							orphan, err := n.Chain.ValidateTx(tx)
							ins := ""
							if dbg {
								for _, sp := range tx.SpentOutputIDs {
									sp := sp
									e, gerr := n.Store.GetUtxo(&sp)
									if gerr != nil {
										ins += " " + sp.String()[:6] + ":absent"
									} else {
										ins += fmt.Sprintf(" %s:spent=%v,type=%d,h=%d", sp.String()[:6], e.Spent, e.Type, e.BlockHeight)
									}
								}
								for _, rid := range tx.ResultIds {
									ins += " out=" + rid.String()[:6]
								}
							}
							note("T %s/tx%d %s orphan=%v err=%v pooled=%v best=%s ins:%s", w.name(pr.Hash), i+1, tx.ID.String()[:8], orphan, err, n.Pool.IsTransactionInPool(&tx.ID), w.name(n.Best()), ins)
						}
					}
				}
			}()
			synctest.Wait()
			close(start)
			wg.Wait()
			synctest.Wait()
			r.Count("concurrent.runs", 1)
			best := w.Tree.Nodes[n.Best()]
			if best == nil {
				return
			}
			o.checkPool("concurrent delivery and submission", best)
			if dbg && r.Failed() {
				for _, l := range evlog {
					fmt.Println("DEBUG", l)
				}
				for _, d := range n.Pool.GetTransactions() {
					fmt.Println("DEBUG pooled", d.Tx.ID.String()[:8])
				}
			}
			r.Tracef("concurrent: blocks=%d yields=%d rounds=%d", len(rest), p.Yields, p.Rounds)
			r.NonTrivial()
		})
	}
}

// SpecC23 replaces the sequential-only spec.
func SpecC23c() simkit.Spec {
	s := SpecC23()
	s.Gen = genC23
	s.NewPlan = func() any { return &C23Plan{} }
	s.Exec = execC23
	s.Rule += "; one third of the runs instead run under the cooperative scheduler (instrumented build: locks, task starts and channel operations of protocol, casper, event are yield points): block feeders, a vote feeder and a submitter that offers the very transactions the blocks being connected contain are tasks, the plan's tape picks the next task at every yield, and the invariant is judged at quiescence"
	s.Probes = append(s.Probes, "mode.scheduled", "simrt.steps", "simrt.calls")
	s.ReplayAttempts = 8
	s.Assumptions = append(s.Assumptions, "code under test that selects among several ready channels still draws from the Go runtime: concurrent replays are attempted up to 8 times")
	return s
}
