package nodesim

import (
	"crypto/sha256"
	"fmt"
	"os"
	"sort"
	"strings"
	"testing"
	"testing/synctest"

	"pgregory.net/rapid"

	"github.com/bytom/bytom/protocol/bc"
	"github.com/bytom/bytom/protocol/bc/types"
	"github.com/bytom/bytom/protocol/casper"

	"verif/sim/model"
	"verif/sim/simdisk"
	"verif/sim/simkit"
)

// C19 — crash at every storage-write boundary of a bounded history.

// C19Plan: production plan + history on the crashing node.
type C19Plan struct {
	Tree   TreePlan `json:"tree"`
	Events []CEvent `json:"events"`
	// Stride: check every Stride-th boundary (1 = every boundary). Offset shifts the lattice.
	Stride int `json:"stride"`
	Offset int `json:"offset"`
}

// CEvent is one history event: deliver a block or a validator's vote.
type CEvent struct {
	Kind string `json:"k"` // blk | vote | tamper (a relay adds a sup link naming an unknown source to the next block's header, the honest copy follows)
	Pick int    `json:"p,omitempty"`
	Who  int    `json:"who,omitempty"`
}

func genC19(rt *rapid.T) any {
	cfg := GenCfg(rt, 3)
	p := &C19Plan{Tree: TreePlan{Cfg: cfg, Warm: WarmupLen(cfg), Steps: GenSteps(rt, 3, 12, 4, 3)}}
	n := len(p.Tree.Steps)
	ne := n + rapid.IntRange(0, n).Draw(rt, "extra")
	for i := 0; i < ne; i++ {
		if rapid.IntRange(0, 11).Draw(rt, "tamperq") == 11 {
			p.Events = append(p.Events, CEvent{Kind: "tamper", Who: rapid.IntRange(0, 3).Draw(rt, "tkind")})
		}
		if rapid.IntRange(0, 3).Draw(rt, "evkind") == 3 {
			p.Events = append(p.Events, CEvent{Kind: "vote", Pick: rapid.IntRange(0, 5).Draw(rt, "target"), Who: rapid.IntRange(0, 3).Draw(rt, "who")})
		} else {
			pick := 0
			if rapid.IntRange(0, 3).Draw(rt, "reorderq") == 3 {
				pick = rapid.IntRange(0, 4).Draw(rt, "pick")
			}
			p.Events = append(p.Events, CEvent{Kind: "blk", Pick: pick})
		}
	}
	p.Stride = 1
	if tier() != "thorough" {
		p.Stride = rapid.IntRange(1, 3).Draw(rt, "stride")
		p.Offset = rapid.IntRange(0, 2).Draw(rt, "offset")
	}
	return p
}

// concrete event as executed in pass 1 (re-delivered verbatim in pass 2)
type concrete struct {
	desc  string
	raw   *types.Block // a tampered copy (delivered as is)
	block *bc.Hash
	vote  *casper.ValidCasperSignMsg
	b0    int // boundaries before
	b1    int // boundaries after
}

// Obs is the observable state of a node.
type Obs struct {
	Best   string
	Index  string // main-chain hashes by height
	Utxo   string // fingerprint of (unspent?, type, constraint height) over all known outputs
	Fin    string
	Just   string
	Status map[string]int // checkpoint block name -> persisted status
}

func (o *Obs) chain() string { return o.Best + "|" + o.Index + "|" + o.Utxo }

func (w *World) observe(n *Node) *Obs {
	o := &Obs{Status: map[string]int{}}
	best := n.Best()
	o.Best = w.name(best)
	hdr := n.Chain.BestBlockHeader()
	var idx []string
	for h := uint64(0); h <= hdr.Height; h++ {
		x, err := n.Chain.GetHeaderByHeight(h)
		if err != nil {
			idx = append(idx, "?")
		} else {
			idx = append(idx, w.name(x.Hash()))
		}
	}
	o.Index = strings.Join(idx, ",")
	hsh := sha256.New()
	for _, id := range w.Tree.SortedOutputIDs() {
		id := id
		e, err := n.Store.GetUtxo(&id)
		if err != nil || e.Spent {
			continue
		}
		ch := uint64(0)
		if e.Type != 0 {
			ch = e.BlockHeight
		}
		fmt.Fprintf(hsh, "%s:%d:%d;", id.String(), e.Type, ch)
	}
	o.Utxo = fmt.Sprintf("%x", hsh.Sum(nil)[:8])
	if fh, err := n.Chain.LastFinalizedHeader(); err == nil {
		o.Fin = w.name(fh.Hash())
	} else {
		o.Fin = "err"
	}
	if jh, err := n.Chain.LastJustifiedHeader(); err == nil {
		o.Just = w.name(jh.Hash())
	} else {
		o.Just = "err"
	}
	for _, h := range w.Order {
		s := w.Tree.Nodes[h]
		if s.Height%w.P.E != 0 {
			continue
		}
		h := h
		if cp, err := n.Store.GetCheckpoint(&h); err == nil {
			o.Status[w.name(h)] = int(cp.Status)
		}
	}
	return o
}

func statusStr(m map[string]int) string {
	var ks []string
	for k := range m {
		ks = append(ks, k)
	}
	sort.Strings(ks)
	var sb strings.Builder
	for _, k := range ks {
		fmt.Fprintf(&sb, "%s=%d ", k, m[k])
	}
	return sb.String()
}

func (w *World) applyConcrete(n *Node, c *concrete) error {
	n.Activate()
	var err error
	if c.raw != nil {
		_, err = n.Process(c.raw)
	} else if c.block != nil {
		_, err = n.Process(w.Blocks[*c.block])
	} else {
		v := *c.vote
		err = n.Chain.ProcessBlockVerification(&v)
		synctest.Wait()
	}
	return err
}

func tier() string {
	return getenv("VERIF_TIER", "quick")
}

func execC19(t *testing.T, plan any, r *simkit.Run) {
	p := plan.(*C19Plan)
	Bubble(t, func() {
		w := NewWorld(t, r, p.Tree.Cfg)
		prods := w.ProduceTree(&p.Tree, Oracles{})
		if r.Failed() || len(prods) == 0 {
			return
		}
		// ---- pass 1: crash-free run. The warm-up prefix is delivered before logging starts.
		disk := simdisk.New()
		n, err := w.StartNode("crashfree", disk, observerKey())
		if err != nil {
			r.Violate("init", "", "%v", err)
			return
		}
		var remaining []bc.Hash
		for i, pr := range prods {
			if i < p.Tree.Warm {
				if _, err := n.Process(w.Blocks[pr.Hash]); err != nil {
					r.Count("contained.block_rejected", 1)
				}
				continue
			}
			remaining = append(remaining, pr.Hash)
		}
		disk.StartLog()
		obs := []*Obs{w.observe(n)} // obs[i] = state after event i (obs[0] = before any)
		var evs []*concrete
		delivered := map[bc.Hash]bool{}
		for _, ev := range p.Events {
			c := &concrete{b0: disk.Boundaries()}
			switch ev.Kind {
			case "blk":
				if len(remaining) == 0 {
					continue
				}
				i := ev.Pick % len(remaining)
				h := remaining[i]
				remaining = append(remaining[:i:i], remaining[i+1:]...)
				c.block, c.desc = &h, "deliver "+w.name(h)
				delivered[h] = true
			case "tamper":
				if len(remaining) == 0 {
					continue
				}
				// the block that would be delivered next, with a tampered header (the hash and the
				// proposer's signature do not cover the sup links); the honest copy stays in the queue
				tb := copyBlock(w.Blocks[remaining[0]])
				sl := &types.SupLink{SourceHeight: tb.Height - tb.Height%w.P.E, SourceHash: bc.NewHash([32]byte{0xee, byte(ev.Who)})}
				if ev.Who%2 == 1 && tb.Height >= w.P.E {
					// a known source but garbage signatures in every slot
					src := w.Tree.Nodes[tb.PreviousBlockHash]
					for src != nil && src.Height%w.P.E != 0 {
						src = src.Parent
					}
					if src != nil {
						sl.SourceHeight, sl.SourceHash = src.Height, src.Hash
					}
				}
				for i := range sl.Signatures {
					sl.Signatures[i] = []byte{byte(i), 0xaa, 0x55, byte(ev.Who)}
				}
				tb.SupLinks = append(tb.SupLinks, sl)
				c.raw, c.desc = tb, "deliver tampered "+w.name(remaining[0])
				r.Count("fault.tampered_header", 1)
			case "vote":
				// an honest validator votes for a checkpoint the node has stored
				var targets []*model.BlockState
				for _, h := range w.Order[1:] {
					s := w.Tree.Nodes[h]
					h := h
					if s.Height%w.P.E == 0 {
						if _, err := n.Store.GetBlockHeader(&h); err == nil {
							targets = append(targets, s)
						}
					}
				}
				if len(targets) == 0 {
					continue
				}
				tg := targets[len(targets)-1-ev.Pick%len(targets)]
				src := w.JustifiedSource(n, tg)
				if src == nil {
					continue
				}
				vs := w.Tree.EffectiveValidators(w.Tree.CheckpointOf(tg.Parent).Votes)
				val := vs[ev.Who%len(vs)]
				k := w.keyByPub[val.PubKey]
				if k == nil {
					continue
				}
				c.vote = SignVote(k, src.Hash, tg.Hash)
				c.desc = fmt.Sprintf("vote by=%d %s->%s", k.Idx, w.name(src.Hash), w.name(tg.Hash))
				r.Count("events.vote", 1)
			}
			if err := w.applyConcrete(n, c); err != nil {
				r.Count("events.rejected", 1)
			}
			c.b1 = disk.Boundaries()
			evs = append(evs, c)
			o := w.observe(n)
			obs = append(obs, o)
			r.Tracef("%s: writes %d..%d best=%s fin=%s just=%s", c.desc, c.b0, c.b1, o.Best, o.Fin, o.Just)
		}
		for _, h := range remaining {
			h := h
			c := &concrete{b0: disk.Boundaries(), block: &h, desc: "deliver " + w.name(h)}
			w.applyConcrete(n, c)
			c.b1 = disk.Boundaries()
			evs = append(evs, c)
			o := w.observe(n)
			obs = append(obs, o)
			r.Tracef("%s: writes %d..%d best=%s fin=%s just=%s", c.desc, c.b0, c.b1, o.Best, o.Fin, o.Just)
		}
		final := obs[len(obs)-1]
		total := disk.Boundaries()
		r.Count("boundaries.total", total)
		reorgInside := false
		// ---- pass 2: crash at boundary k, restart, compare, re-deliver everything
		stride := p.Stride
		if stride < 1 {
			stride = 1
		}
		for k := p.Offset % stride; k <= total; k += stride {
			if r.Failed() {
				return
			}
			// event j (1-based) performed write k: b0 < k <= b1; k == 0 -> before everything
			j := 0
			for i, c := range evs {
				if k > c.b0 && k <= c.b1 {
					j = i + 1
					break
				}
			}
			if j == 0 && k > 0 {
				// k falls after the last event's writes (cannot happen) or between events with no writes
				for i, c := range evs {
					if c.b1 >= k {
						j = i + 1
						break
					}
				}
			}
			pre, post := obs[0], obs[0]
			what := "before the first event"
			if j > 0 {
				pre, post = obs[j-1], obs[j]
				what = fmt.Sprintf("write %d of %d during %q", k-evs[j-1].b0, evs[j-1].b1-evs[j-1].b0, evs[j-1].desc)
				if k == evs[j-1].b1 {
					pre = post // all writes of the event are durable: a clean stop after it
					what = fmt.Sprintf("after the last write of %q", evs[j-1].desc)
				}
				if pre.Best != post.Best && !strings.HasPrefix(post.Index, pre.Index) {
					reorgInside = true
				}
			}
			if j > 0 {
				// describe the writes of the interrupted event by the record kinds they touch
				var ws []string
				for b := evs[j-1].b0; b < evs[j-1].b1; b++ {
					kinds := map[string]int{}
					for _, op := range disk.BoundaryOps(b) {
						p := op.Key
						if i := strings.IndexAny(p, ":"); i > 0 && i < 6 {
							p = p[:i]
						} else if len(p) > 10 {
							p = p[:10]
						}
						if op.Del {
							p = "-" + p
						}
						kinds[p]++
					}
					var ks []string
					for kk := range kinds {
						ks = append(ks, fmt.Sprintf("%s×%d", kk, kinds[kk]))
					}
					sort.Strings(ks)
					ws = append(ws, "{"+strings.Join(ks, " ")+"}")
				}
				what += " [writes of the event: " + strings.Join(ws, " ") + "]"
			}
			evKind := "start"
			if j > 0 {
				evKind = strings.Fields(evs[j-1].desc)[0]
			}
			r.Count("fault.crash_restart", 1)
			snap := disk.SnapshotAt(k)
			var rn *Node
			var rerr error
			func() {
				defer func() {
					if pn := recover(); pn != nil {
						rerr = fmt.Errorf("panic: %v", pn)
					}
				}()
				rn, rerr = w.StartNode(fmt.Sprintf("restart@%d", k), snap, observerKey())
			}()
			if rerr != nil {
				r.Violate("restart-fails", evKind, "crash %s (boundary %d): the node does not restart from the stored state: %v", what, k, rerr)
				return
			}
			synctest.Wait()
			got := w.observe(rn)
			if os.Getenv("VERIF_DEBUG") != "" {
				st := rn.Store.GetStoreStatus()
				fmt.Fprintf(os.Stderr, "DEBUG k=%d restart: statusBest=%s casperBest=%s got.Best=%s pre=%s post=%s\n", k, w.name(*st.Hash), w.name(rn.Chain.Casper().BestChain()), got.Best, pre.Best, post.Best)
			}
			intermediate := false
			if got.chain() != pre.chain() && got.chain() != post.chain() && j > 0 {
				// One event may connect several blocks (a parent releasing waiting orphans). A stop in the
				// middle leaves a subset of them durably stored: the state of a crash-free node that has
				// received exactly those blocks so far. Accept it iff the restarted best block is what the
				// fork-choice rule selects over the stored blocks and the ledger/index are exactly that chain's.
				var gb *model.BlockState
				for _, h := range w.Order {
					if w.name(h) == got.Best {
						gb = w.Tree.Nodes[h]
					}
				}
				var pb, qb *model.BlockState
				for _, h := range w.Order {
					if w.name(h) == pre.Best {
						pb = w.Tree.Nodes[h]
					}
					if w.name(h) == post.Best {
						qb = w.Tree.Nodes[h]
					}
				}
				if gb != nil && pb != nil && qb != nil {
					// the restarted best block lies on the chain the event ends on: accept iff it is exactly what
					// the fork-choice rule selects over the blocks that are durably stored, with that chain's ledger and index
					ctx2 := fmt.Sprintf("restart after crash %s at intermediate block %s", what, got.Best)
					// fork choice on a scratch recorder: a mismatch here is the known class "a block that is
					// stored but was never handed to the finality engine is not reconsidered after restart"
					scratch := simkit.NewScratchRun(r.Prop)
					w.R = scratch
					oo := &Observer{W: w, N: rn, Or: ObsOracles{C10: true, C11: true}, lastBest: gb.Hash}
					oo.checkForkChoice(ctx2, gb)
					w.R = r
					if _, det := scratch.Violation(); det != "" {
						r.Violate("restart-state", "stored-block-not-reconsidered", "%s", det)
						return
					}
					oo.W = w
					oo.checkLedger(ctx2, gb)
					if r.Failed() {
						return
					}
					var idx []string
					for _, st := range model.MainChain(gb) {
						idx = append(idx, w.name(st.Hash))
					}
					if strings.Join(idx, ",") == got.Index {
						intermediate = true
						r.Count("probe.restart_at_intermediate_block", 1)
					}
				}
			}
			if got.chain() != pre.chain() && got.chain() != post.chain() && !intermediate {
				r.Violate("restart-state", "chain/"+evKind, "crash %s (boundary %d): restarted node has best=%s index=[%s] utxo=%s; crash-free node had before the event best=%s index=[%s] utxo=%s and after it best=%s index=[%s] utxo=%s",
					what, k, got.Best, got.Index, got.Utxo, pre.Best, pre.Index, pre.Utxo, post.Best, post.Index, post.Utxo)
				return
			}
			// An accepted intermediate state (a prefix of the blocks one event connects) has the finality of that
			// prefix: the finalized checkpoint lies between the old and the new one on one chain (finality only
			// moves to descendants), the justified one is on the restarted best chain and not older than before.
			byName := func(name string) *model.BlockState {
				for i, h := range w.Order {
					if fmt.Sprintf("B%d", i) == name {
						return w.Tree.Nodes[h]
					}
				}
				return nil
			}
			finOK, justOK := false, false
			{
				// (also when the chain itself is still the old one: the finality records of the first of
				// several connected blocks are written before that block)
				gf, pf, qf := byName(got.Fin), byName(pre.Fin), byName(post.Fin)
				finOK = gf != nil && pf != nil && qf != nil && model.IsAncestor(pf, gf) && model.IsAncestor(gf, qf)
				gj, pj, gbst := byName(got.Just), byName(pre.Just), byName(got.Best)
				justOK = gj != nil && pj != nil && gbst != nil && model.IsAncestor(gj, gbst) && gj.Height >= pj.Height && gf != nil && gj.Height >= gf.Height
				if finOK && justOK && (got.Fin != pre.Fin && got.Fin != post.Fin || got.Just != pre.Just && got.Just != post.Just) {
					r.Count("probe.restart_at_intermediate_finality", 1)
				}
			}
			if got.Fin != pre.Fin && got.Fin != post.Fin && !finOK {
				r.Violate("restart-state", "finalized/"+evKind, "crash %s (boundary %d): restarted node reports last finalized %s; crash-free node reported %s before and %s after the event",
					what, k, got.Fin, pre.Fin, post.Fin)
				return
			}
			// A finalized checkpoint is justified by definition: when the justified child recorded by the
			// interrupted event is not yet on disk as a block, "last justified = last finalized" is the
			// consistent reading of what is durable, not a state of its own.
			if got.Just != pre.Just && got.Just != post.Just && got.Just != got.Fin && !justOK {
				r.Violate("restart-state", "justified/"+evKind, "crash %s (boundary %d): restarted node reports last justified %s; crash-free node reported %s before and %s after the event",
					what, k, got.Just, pre.Just, post.Just)
				return
			}
			// Was the block of the interrupted event already on disk (but not yet connected) at the crash point?
			storedNotConnected := false
			if j > 0 && evs[j-1].block != nil {
				bh := *evs[j-1].block
				if _, err := rn.Store.GetBlockHeader(&bh); err == nil && got.chain() == pre.chain() && pre.chain() != post.chain() &&
					w.Blocks[bh].Height <= rn.Chain.BestBlockHeight() {
					storedNotConnected = true
				}
			}
			// re-deliver every block and vote (orphans and cached votes are volatile, so the whole history is offered again)
			var redErrs []string
			for _, c := range evs {
				if err := w.applyConcrete(rn, c); err != nil {
					redErrs = append(redErrs, c.desc+": "+err.Error())
				}
				if os.Getenv("VERIF_DEBUG") != "" {
					oo := w.observe(rn)
					fmt.Fprintf(os.Stderr, "  k=%d redeliver %s -> best=%s fin=%s just=%s casperBest=%s orphans=%d\n", k, c.desc, oo.Best, oo.Fin, oo.Just, w.name(rn.Chain.Casper().BestChain()), rn.Chain.OrphanCount())
				}
			}
			end := w.observe(rn)
			if end.chain() != final.chain() || end.Fin != final.Fin || end.Just != final.Just || statusStr(end.Status) != statusStr(final.Status) {
				attr := evKind
				if storedNotConnected && end.Fin == final.Fin && end.Just == final.Just {
					attr = "stored-block-not-reconsidered"
				}
				if attr == evKind && end.Fin == final.Fin && end.Just == final.Just {
					// same known class, seen from the other side: the restarted node's best block is not what the
					// fork-choice rule selects over the blocks it has stored, because a block that was already on
					// disk at the crash point was skipped as "already processed" when it was delivered again
					if eb := w.Tree.Nodes[rn.Best()]; eb != nil {
						scratch := simkit.NewScratchRun(r.Prop)
						w.R = scratch
						oo := &Observer{W: w, N: rn, Or: ObsOracles{C11: true}, lastBest: eb.Hash}
						oo.checkForkChoice("re-delivery", eb)
						w.R = r
						if sig, _ := scratch.Violation(); strings.HasSuffix(sig, "/fork-choice") {
							attr = "stored-block-not-reconsidered"
						}
					}
				}
				r.Violate("redelivery-diverges", attr, "crash %s (boundary %d), restart, re-delivery of the history: best=%s fin=%s just=%s utxo=%s statuses[%s]; crash-free run ends with best=%s fin=%s just=%s utxo=%s statuses[%s]; errors during re-delivery: %v",
					what, k, end.Best, end.Fin, end.Just, end.Utxo, statusStr(end.Status), final.Best, final.Fin, final.Just, final.Utxo, statusStr(final.Status), redErrs)
				return
			}
			r.Count("boundaries.checked", 1)
		}
		if reorgInside {
			r.Count("probe.crash_inside_reorg", 1)
		}
		if final.Fin != "B0" {
			r.Count("probe.finality_reached", 1)
		}
		r.NonTrivial()
	})
}

// SpecC19 is the crash-enumeration check.
func SpecC19() simkit.Spec {
	return simkit.Spec{
		Prop: "C19", Gen: genC19, NewPlan: func() any { return &C19Plan{} }, Exec: execC19,
		Rule: "bounded single-node histories (block deliveries incl. forks and reordering, honest validator votes that justify/finalize) run crash-free on the simulated disk with every write boundary logged; then for every boundary k (quick tier: every Stride-th, Stride 1-3 drawn; thorough: every one) the node is restarted from exactly the first k durable writes: it must start, its (best, height index, utxo set, finalized, justified) must be a state the crash-free run had immediately before or after the interrupted event, and re-delivering the history must reach the crash-free final state; " +
			"distinct = hash of the crash-free trace; every run is non-trivial (>= 1 boundary checked)",
		Components:  nodeComponents,
		FaultKinds:  []string{"fault.crash_restart", "fault.tampered_header"},
		Probes:      []string{"probe.crash_inside_reorg", "probe.finality_reached", "events.vote", "probe.restart_at_intermediate_block"},
		Assumptions: []string{"durability model as the property states: each Set/Delete/batch commit is atomic and durable, nothing later survives", "simdisk is a stub of the storage engine (its equivalence with goleveldb is C20's subject)"},
	}
}
