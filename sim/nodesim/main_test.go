package nodesim

import (
	"testing"

	"verif/sim/simkit"
)

func TestC38(t *testing.T) { simkit.Main(t, SpecC38()) }
