package nodesim

import (
	"testing"

	"verif/sim/simkit"
)

func TestC38(t *testing.T) { simkit.Main(t, SpecC38()) }
func TestC10(t *testing.T) { simkit.Main(t, SpecC10()) }
func TestC11(t *testing.T) { simkit.Main(t, SpecC11()) }
func TestC12(t *testing.T) { simkit.Main(t, SpecC12()) }
func TestC23(t *testing.T) { simkit.Main(t, SpecC23c()) }
func TestC14(t *testing.T) { simkit.Main(t, SpecC14()) }
func TestC15(t *testing.T) { simkit.Main(t, SpecC15()) }
func TestC19(t *testing.T) { simkit.Main(t, SpecC19()) }
func TestC13(t *testing.T) { simkit.Main(t, SpecC13()) }
func TestC16(t *testing.T) { simkit.Main(t, SpecC16()) }
func TestC17(t *testing.T) { simkit.Main(t, SpecC17()) }
func TestC18(t *testing.T) { simkit.Main(t, SpecC18Both()) }
func TestC37(t *testing.T) { simkit.Main(t, SpecC37Both()) }
func TestC33(t *testing.T) { simkit.Main(t, SpecC33()) }
func TestC01(t *testing.T) { simkit.Main(t, SpecC01()) }
func TestC24(t *testing.T) { simkit.Main(t, SpecC24()) }
func TestC25(t *testing.T) { simkit.Main(t, SpecC25()) }
func TestC02(t *testing.T) { simkit.Main(t, SpecC02()) }
func TestC27(t *testing.T) { simkit.Main(t, SpecC27()) }
func TestC37d(t *testing.T) { simkit.Main(t, SpecC37d()) }
func TestC03(t *testing.T) { simkit.Main(t, SpecC03()) }
func TestC04(t *testing.T) { simkit.Main(t, SpecC04()) }

func TestC18Solo(t *testing.T) { simkit.Main(t, SpecC18Solo()) }
