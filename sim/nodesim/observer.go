package nodesim

import (
	"fmt"
	"sort"
	"testing/synctest"

	"pgregory.net/rapid"

	"github.com/bytom/bytom/database/storage"
	"github.com/bytom/bytom/event"
	"github.com/bytom/bytom/protocol"
	"github.com/bytom/bytom/protocol/bc"
	"github.com/bytom/bytom/protocol/bc/types"
	"github.com/bytom/bytom/protocol/state"

	"verif/sim/model"
	"verif/sim/simdisk"
)

// Act is one delivery-phase action on the observed node.
type Act struct {
	Kind string `json:"k"` // blk | tx | dup | vote | quorum
	Pick int    `json:"p,omitempty"`
	Who  int    `json:"w,omitempty"`
}

// GenActs draws n delivery-phase actions. reorder: how far from in-order a block
// pick may be (0 = in order).
func GenActs(rt *rapid.T, n, reorder int, withTx bool) []Act {
	var acts []Act
	for i := 0; i < n; i++ {
		kind := "blk"
		switch rapid.IntRange(0, 9).Draw(rt, "actkind") {
		case 7:
			kind = "dup"
		case 8, 9:
			if withTx {
				kind = "tx"
			}
		}
		if rapid.IntRange(0, 11).Draw(rt, "voteq") == 11 {
			// validators' verification messages reach the node: a single vote, or every validator's
			// (which can justify a checkpoint of a shorter branch and move the best chain down)
			k := "quorum"
			if rapid.Bool().Draw(rt, "single") {
				k = "vote"
			}
			acts = append(acts, Act{Kind: k, Pick: rapid.IntRange(0, 5).Draw(rt, "votetarget"), Who: rapid.IntRange(0, 3).Draw(rt, "voter")})
			continue
		}
		pick := 0
		if reorder > 0 && rapid.IntRange(0, 2).Draw(rt, "reorderq") > 0 {
			pick = rapid.IntRange(0, reorder).Draw(rt, "pick")
		}
		if kind == "tx" {
			pick = rapid.IntRange(0, 40).Draw(rt, "txpick")
		}
		acts = append(acts, Act{Kind: kind, Pick: pick})
	}
	return acts
}

// ObsOracles selects the oracles armed on the observed node.
type ObsOracles struct {
	C10, C11, C12, C23, C14, C15 bool
}

// Observer is a node that receives the produced tree in a drawn order.
type Observer struct {
	W         *World
	N         *Node
	Or        ObsOracles
	Delivered map[bc.Hash]bool
	remaining []bc.Hash
	allTxs    []*types.Tx
	txEvents  *protocol_events
	reorgs    int
	lastBest  bc.Hash
}

type protocol_events struct {
	sub  *event.Subscription
	open map[bc.Hash]int // tx id -> number of additions not yet paired with a removal
	seen int
}

// observerKey is an identity outside the validator/candidate set: the observed
// node never signs blocks or votes, so its behaviour depends only on what it receives.
func observerKey() *Key { return newKey(9000) }

// NewObserver starts a fresh node.
func (w *World) NewObserver(or ObsOracles, prods []*Produced) *Observer {
	n, err := w.StartNode("observer", simdisk.New(), observerKey())
	if err != nil {
		w.R.Violate("init", "", "observer cannot initialise: %v", err)
		return nil
	}
	o := &Observer{W: w, N: n, Or: or, Delivered: map[bc.Hash]bool{w.Genesis.Hash(): true}}
	for _, p := range prods {
		o.remaining = append(o.remaining, p.Hash)
		o.allTxs = append(o.allTxs, p.Txs...)
	}
	o.lastBest = w.Genesis.Hash()
	if or.C23 {
		sub, err := n.Disp.Subscribe(protocol.TxMsgEvent{})
		if err != nil {
			harness("subscribe: %v", err)
		}
		o.txEvents = &protocol_events{sub: sub, open: map[bc.Hash]int{}}
	}
	return o
}

// checkPoolEvents drains the node's pool notifications: every removal must pair with an
// earlier addition of the same transaction that no other removal has been paired with.
func (o *Observer) checkPoolEvents(ctx string) {
	if o.txEvents == nil || o.W.R.Failed() {
		return
	}
	for {
		select {
		case ev := <-o.txEvents.sub.Chan():
			if ev == nil {
				return
			}
			m, ok := ev.Data.(protocol.TxMsgEvent)
			if !ok || m.TxMsg == nil || m.TxMsg.TxDesc == nil || m.TxMsg.Tx == nil {
				continue
			}
			id := m.TxMsg.Tx.ID
			o.txEvents.seen++
			o.W.R.Count("probe.pool_notifications", 1)
			switch m.TxMsg.MsgType {
			case protocol.MsgNewTx:
				o.txEvents.open[id]++
			case protocol.MsgRemoveTx:
				if o.txEvents.open[id] == 0 {
					o.W.R.Violate("pool-removal-notified-without-addition", "", "after %s: notification %d says transaction %s left the pool, but no earlier unpaired addition of it was notified",
						ctx, o.txEvents.seen, id.String()[:12])
					return
				}
				o.txEvents.open[id]--
			}
		default:
			return
		}
	}
}

// Run executes the acts, then delivers whatever is left in production order.
func (o *Observer) Run(acts []Act) {
	r := o.W.R
	for _, a := range acts {
		if r.Failed() {
			return
		}
		switch a.Kind {
		case "blk":
			if len(o.remaining) == 0 {
				continue
			}
			i := a.Pick % len(o.remaining)
			h := o.remaining[i]
			o.remaining = append(o.remaining[:i:i], o.remaining[i+1:]...)
			if i > 0 {
				r.Count("fault.reorder", 1)
			}
			o.Deliver(h, false)
		case "dup":
			// re-deliver an already delivered block (duplicate message)
			var done []bc.Hash
			for _, h := range o.W.Order[1:] {
				if o.Delivered[h] {
					done = append(done, h)
				}
			}
			if len(done) == 0 {
				continue
			}
			r.Count("fault.duplicate", 1)
			o.Deliver(done[a.Pick%len(done)], true)
		case "vote", "quorum":
			o.votes(a)
		case "tx":
			if len(o.allTxs) == 0 {
				continue
			}
			tx := o.allTxs[a.Pick%len(o.allTxs)]
			_, err := o.N.SubmitTx(tx)
			r.Tracef("submit tx%d err=%v", a.Pick%len(o.allTxs), err != nil)
			r.Count("txs.submitted_to_observer", 1)
			o.CheckAll("submit")
		}
	}
	for len(o.remaining) > 0 && !r.Failed() {
		h := o.remaining[0]
		o.remaining = o.remaining[1:]
		o.Deliver(h, false)
	}
}

// votes delivers validators' verification messages for a checkpoint the node has stored, from the
// source an honest validator following this node would use.
func (o *Observer) votes(a Act) {
	w, r, n := o.W, o.W.R, o.N
	var targets []*model.BlockState
	for _, h := range w.Order[1:] {
		s := w.Tree.Nodes[h]
		h := h
		if s.Height%w.P.E == 0 && s.Invalid == nil {
			if _, err := n.Store.GetBlockHeader(&h); err == nil {
				targets = append(targets, s)
			}
		}
	}
	if len(targets) == 0 {
		return
	}
	tg := targets[len(targets)-1-a.Pick%len(targets)]
	src := w.JustifiedSource(n, tg)
	if src == nil {
		return
	}
	vs := w.Tree.EffectiveValidators(w.Tree.CheckpointOf(tg.Parent).Votes)
	for i, val := range vs {
		if a.Kind == "vote" && i != a.Who%len(vs) {
			continue
		}
		k := w.keyByPub[val.PubKey]
		if k == nil {
			continue
		}
		n.Activate()
		err := n.Chain.ProcessBlockVerification(SignVote(k, src.Hash, tg.Hash))
		synctest.Wait()
		r.Count("events.vote", 1)
		r.Tracef("vote by=%d %s->%s err=%v best=%s", k.Idx, w.name(src.Hash), w.name(tg.Hash), err != nil, w.name(n.Best()))
	}
	o.CheckAll(fmt.Sprintf("%s for %s", a.Kind, w.name(tg.Hash)))
}

// Deliver feeds one block and evaluates the armed oracles.
func (o *Observer) Deliver(h bc.Hash, dup bool) {
	w, r := o.W, o.W.R
	orphan, err := o.N.Process(w.Blocks[h])
	o.Delivered[h] = true
	r.Tracef("deliver %s dup=%v -> orphan=%v err=%v", w.name(h), dup, orphan, err != nil)
	if err != nil && !o.belowFinalized(h) {
		r.Count("probe.rejected_below_finalized", 0)
	}
	if err != nil && o.belowFinalized(h) {
		// A block that does not descend from the node's finalized checkpoint can
		// never be connected: rejecting it is what finality demands.
		r.Count("probe.rejected_below_finalized", 1)
	} else if err != nil && o.Or.C12 {
		r.Violate("valid-block-rejected", "", "valid block %s (height %d) rejected by the observed node: %v", w.name(h), w.Blocks[h].Height, err)
		return
	} else if err != nil && o.Or.C14 && w.Blocks[h].Height%w.P.E == 1 && w.Blocks[h].Height > 1 {
		// the first block of an epoch pays the previous epoch's rewards: the reference ledger accepted
		// exactly these outputs (the block is in the tree), the node refuses them
		r.Violate("reward-block-rejected", "", "block %s (height %d, first of its epoch, pays %d reward outputs the reference ledger accepts) rejected by the observed node: %v",
			w.name(h), w.Blocks[h].Height, len(w.Blocks[h].Transactions[0].Outputs), err)
		return
	} else if err != nil {
		r.Count("contained.block_rejected", 1)
	}
	if orphan {
		r.Count("probe.orphan", 1)
	}
	o.CheckAll("deliver " + w.name(h))
}

// checkSchedule queries the node's proposer schedule for children of the best block and of the last
// epoch-end blocks it has stored (on any branch) over one rotation round, and compares with the model.
func (o *Observer) checkSchedule(ctx string, bst *model.BlockState) {
	w, r, n := o.W, o.W.R, o.N
	targets := []*model.BlockState{bst}
	cnt := 0
	for i := len(w.Order) - 1; i > 0 && cnt < 3; i-- {
		h := w.Order[i]
		s := w.Tree.Nodes[h]
		if s.Height%w.P.E != 0 || !o.Delivered[h] || s.Invalid != nil {
			continue
		}
		if _, err := n.Store.GetBlockHeader(&h); err != nil {
			continue
		}
		targets = append(targets, s)
		cnt++
	}
	for _, s := range targets {
		nv := len(w.Tree.EffectiveValidators(w.Tree.CheckpointOf(s).Votes))
		h := s.Hash
		for k := 0; k < nv+1; k++ {
			qt := w.Blocks[h].Timestamp + w.P.IntervalMs*uint64(1+k)
			want, ok := w.Tree.ScheduledValidator(s, qt)
			got, err := n.Chain.GetValidator(&h, qt)
			r.Count("probe.schedule_queries_observer", 1)
			if err != nil || got == nil || !ok || got.PubKey != want.PubKey {
				gp := "none"
				if got != nil {
					gp = got.PubKey[:16]
				}
				r.Violate("schedule", "observer", "after %s: for a child of %s (height %d) at t=parent+%dms the observed node schedules %s…, the reference schedule says %.16s… (validators in the epoch: %d, err=%v)",
					ctx, w.name(h), s.Height, qt-w.Blocks[h].Timestamp, gp, want.PubKey, nv, err)
				return
			}
		}
	}
}

// belowFinalized reports whether block h does not descend from the node's
// current last finalized checkpoint.
func (o *Observer) belowFinalized(h bc.Hash) bool {
	_, finHash := o.N.Chain.Casper().LastFinalized()
	fin := o.W.Tree.Nodes[finHash]
	s := o.W.Tree.Nodes[h]
	if fin == nil || s == nil {
		return false
	}
	return !model.IsAncestor(fin, s)
}

// connected reports whether every ancestor of h (and h) has been delivered.
func (o *Observer) connected(h bc.Hash) bool {
	for s := o.W.Tree.Nodes[h]; s != nil; s = s.Parent {
		if !o.Delivered[s.Hash] {
			return false
		}
	}
	return true
}

// CheckAll evaluates the armed oracles after an event.
func (o *Observer) CheckAll(ctx string) {
	w, r := o.W, o.W.R
	n := o.N
	if r.Failed() {
		return
	}
	best := n.Best()
	bst := w.Tree.Nodes[best]
	if bst == nil {
		r.Violate("unknown-best", "", "after %s the node's best block %s was never produced", ctx, hs(best))
		return
	}
	if best != o.lastBest {
		if !model.IsAncestor(w.Tree.Nodes[o.lastBest], bst) {
			o.reorgs++
			r.Count("probe.reorg", 1)
			if bst.Height < w.Tree.Nodes[o.lastBest].Height {
				r.Count("probe.reorg_to_shorter", 1)
			}
		}
		o.lastBest = best
	}
	// ---- C15: the long-lived node's schedule (its in-memory caches have seen every branch) equals
	// the reference schedule for children of its best block and of the recent epoch-end blocks
	if o.Or.C15 {
		o.checkSchedule(ctx, bst)
		if r.Failed() {
			return
		}
	}
	// ---- C12: everything whose ancestors arrived is stored, nothing else is
	if o.Or.C12 {
		orphans := map[bc.Hash]int{}
		for _, h := range w.Order[1:] {
			if !o.Delivered[h] {
				continue
			}
			h := h
			_, errStored := n.Store.GetBlockHeader(&h)
			stored := errStored == nil
			if o.connected(h) && !stored && o.belowFinalized(h) {
				continue
			}
			if o.connected(h) && !stored {
				kind := "lost"
				if n.Chain.BlockExist(&h) {
					kind = "left-in-orphan-pool"
				}
				sibs := 0
				for _, x := range w.Order[1:] {
					if w.Blocks[x].PreviousBlockHash == w.Blocks[h].PreviousBlockHash {
						sibs++
					}
				}
				r.Violate("not-connected", kind, "after %s: block %s (height %d, one of %d siblings) has all its ancestors delivered but is not stored (%s)",
					ctx, w.name(h), w.Blocks[h].Height, sibs, kind)
				return
			}
			if !o.connected(h) {
				if stored {
					r.Violate("stored-without-parent", "", "after %s: block %s is stored although an ancestor never arrived", ctx, w.name(h))
					return
				}
				orphans[w.Blocks[h].PreviousBlockHash]++
			}
		}
		for _, c := range orphans {
			if c >= 3 {
				r.Count("probe.three_orphans_one_parent", 1)
			}
			if c >= 2 {
				r.Count("probe.sibling_orphans", 1)
			}
		}
	}
	// ---- C11 (and C12's "connected as if in order": the best chain must follow from the set of connected blocks alone)
	if o.Or.C11 || o.Or.C12 {
		o.checkForkChoice(ctx, bst)
		if r.Failed() {
			return
		}
	}
	// ---- C10: ledger state equals replay of the main chain
	if o.Or.C10 {
		o.checkLedger(ctx, bst)
		if r.Failed() {
			return
		}
	}
	if o.Or.C14 {
		w.CheckSupply(n, bst)
	}
	if o.Or.C23 {
		o.checkPool(ctx, bst)
		o.checkPoolEvents(ctx)
	}
}

// checkpointStatus reads the persisted status of the checkpoint at block s
// (a block at an epoch boundary). ok=false when the node has none.
func (o *Observer) checkpointStatus(s *model.BlockState) (state.CheckpointStatus, bool) {
	h := s.Hash
	cp, err := o.N.Store.GetCheckpoint(&h)
	if err != nil {
		return 0, false
	}
	return cp.Status, true
}

// checkForkChoice: best = argmax over stored descendants of the last finalized
// checkpoint of (highest justified checkpoint on the path, height, hash).
func (o *Observer) checkForkChoice(ctx string, bst *model.BlockState) {
	w, r, n := o.W, o.W.R, o.N
	_, finHash := n.Chain.Casper().LastFinalized()
	fin := w.Tree.Nodes[finHash]
	if fin == nil {
		r.Violate("unknown-finalized", "", "after %s: last finalized %s unknown", ctx, hs(finHash))
		return
	}
	type cand struct {
		s *model.BlockState
		j uint64
	}
	var bestC *cand
	just := map[bc.Hash]uint64{} // memo: highest justified height on path to block
	var jOf func(s *model.BlockState) uint64
	jOf = func(s *model.BlockState) uint64 {
		if s == nil {
			return 0 // not a descendant of the finalized checkpoint
		}
		if s.Hash == fin.Hash {
			return fin.Height
		}
		if v, ok := just[s.Hash]; ok {
			return v
		}
		j := jOf(s.Parent)
		if s.Height%w.P.E == 0 {
			if st, ok := o.checkpointStatus(s); ok && (st == state.Justified || st == state.Finalized) && s.Height > j {
				j = s.Height
			}
		}
		just[s.Hash] = j
		return j
	}
	for _, h := range w.Order {
		s := w.Tree.Nodes[h]
		if s.Invalid != nil || !model.IsAncestor(fin, s) {
			continue
		}
		h := h
		if _, err := n.Store.GetBlockHeader(&h); err != nil {
			continue
		}
		c := &cand{s: s, j: jOf(s)}
		if bestC == nil || c.j > bestC.j || (c.j == bestC.j && c.s.Height > bestC.s.Height) ||
			(c.j == bestC.j && c.s.Height == bestC.s.Height && hs(c.s.Hash) > hs(bestC.s.Hash)) {
			bestC = c
		}
	}
	if bestC == nil {
		r.Violate("no-candidate", "", "after %s: no stored block descends from the finalized checkpoint", ctx)
		return
	}
	if bestC.s.Hash != bst.Hash {
		r.Violate("fork-choice", "", "after %s: node's best is %s (height %d, justified %d) but the fork-choice rule selects %s (height %d, justified %d)",
			ctx, w.name(bst.Hash), bst.Height, jOf(bst), w.name(bestC.s.Hash), bestC.s.Height, bestC.j)
		return
	}
	// (b) every height maps to the ancestor of best
	for _, s := range model.MainChain(bst) {
		hdr, err := n.Chain.GetHeaderByHeight(s.Height)
		if err != nil {
			r.Violate("height-index", "missing", "after %s: no main-chain header at height %d (best height %d)", ctx, s.Height, bst.Height)
			return
		}
		if hdr.Hash() != s.Hash {
			r.Violate("height-index", "wrong", "after %s: height %d maps to %s, the ancestor of best there is %s", ctx, s.Height, w.name(hdr.Hash()), w.name(s.Hash))
			return
		}
	}
	// (c) InMainChain(hash) <=> ancestor of best, for every known block
	for _, h := range w.Order {
		s := w.Tree.Nodes[h]
		want := model.IsAncestor(s, bst)
		if got := n.Chain.InMainChain(h); got != want {
			rel := "side-branch"
			if s.Height > bst.Height {
				rel = "above-best"
			}
			r.Violate("in-main-chain", rel, "after %s: InMainChain(%s at height %d) = %v, but it %s an ancestor of best %s (height %d); reorgs so far %d",
				ctx, w.name(h), s.Height, got, map[bool]string{true: "is", false: "is not"}[want], w.name(bst.Hash), bst.Height, o.reorgs)
			return
		}
	}
}

// checkLedger compares the node's UTXO set, spending constraints and contract
// table with the reference replay of its main chain.
func (o *Observer) checkLedger(ctx string, bst *model.BlockState) {
	w, r, n := o.W, o.W.R, o.N
	for _, id := range w.Tree.SortedOutputIDs() {
		id := id
		mo := w.Tree.AllOutputs[id]
		e, err := n.Store.GetUtxo(&id)
		nodeUnspent := err == nil && !e.Spent
		bo, modelUnspent := bst.Utxo[id]
		if nodeUnspent != modelUnspent {
			r.Violate("utxo-set", fmt.Sprintf("%s/node=%v", mo.Kind, nodeUnspent),
				"after %s (reorgs %d): %s output created at height %d: node says unspent=%v, replay of the main chain (tip %s) says %v",
				ctx, o.reorgs, mo.Kind, mo.Height, nodeUnspent, w.name(bst.Hash), modelUnspent)
			return
		}
		if !nodeUnspent {
			continue
		}
		mo = bo // the same output id may exist on several branches at different heights: judge by the main chain's
		wantType := map[model.OutKind]uint32{model.Normal: storage.NormalUTXOType, model.Coinbase: storage.CoinbaseUTXOType, model.Vote: storage.VoteUTXOType}[mo.Kind]
		if e.Type != wantType {
			r.Violate("utxo-constraint", "type/"+mo.Kind.String(), "after %s: %s output has stored type %d, want %d", ctx, mo.Kind, e.Type, wantType)
			return
		}
		if mo.Kind != model.Normal && e.BlockHeight != mo.Height {
			r.Violate("utxo-constraint", "height/"+mo.Kind.String(),
				"after %s (reorgs %d): unspent %s output was created at height %d but the node records height %d (maturity / vote lock is counted from it)",
				ctx, o.reorgs, mo.Kind, mo.Height, e.BlockHeight)
			return
		}
	}
	// contracts
	var hashes [][32]byte
	seen := map[[32]byte]bool{}
	for _, h := range w.Order {
		for ch := range w.Tree.Nodes[h].Contracts {
			if !seen[ch] {
				seen[ch] = true
				hashes = append(hashes, ch)
			}
		}
	}
	sort.Slice(hashes, func(i, j int) bool { return string(hashes[i][:]) < string(hashes[j][:]) })
	for _, ch := range hashes {
		got, err := n.Store.GetContract(ch)
		want, ok := bst.Contracts[ch]
		if ok != (err == nil) {
			r.Violate("contract-table", "presence", "after %s: contract %x registered per main-chain replay=%v, node has it=%v", ctx, ch[:4], ok, err == nil)
			return
		}
		if ok && string(got) != string(want[32:]) {
			r.Violate("contract-table", "content", "after %s: contract %x differs", ctx, ch[:4])
			return
		}
	}
}

// checkPool: no pooled transaction is on the main chain.
func (o *Observer) checkPool(ctx string, bst *model.BlockState) {
	w, r, n := o.W, o.W.R, o.N
	descs := n.Pool.GetTransactions()
	ids := make([]string, 0, len(descs))
	byID := map[string]*protocol.TxDesc{}
	for _, d := range descs {
		ids = append(ids, d.Tx.ID.String())
		byID[d.Tx.ID.String()] = d
	}
	sort.Strings(ids)
	for _, id := range ids {
		d := byID[id]
		if h, ok := bst.Txs[d.Tx.ID]; ok {
			// where it is confirmed, and whether it spends an output created in the same block
			where, chained := "", false
			for s := bst; s != nil; s = s.Parent {
				if s.Height != h || s.Block == nil {
					continue
				}
				made := map[bc.Hash]bool{}
				for i, tx := range s.Block.Transactions {
					if tx.ID == d.Tx.ID {
						where = fmt.Sprintf("%s tx %d of %d", w.name(s.Hash), i, len(s.Block.Transactions)-1)
						for _, sp := range tx.SpentOutputIDs {
							if made[sp] {
								chained = true
							}
						}
					}
					for _, rid := range tx.ResultIds {
						made[*rid] = true
					}
				}
			}
			// How could it be admitted? An input that the chain state does not offer must have been supplied
			// by a pooled transaction. If that supplier is itself not on the main chain (a stale transaction
			// that conflicts with a confirmed one and happens to create an output with the same id - the id
			// of an output does not depend on the other outputs of its transaction), the confirmed transaction
			// was (re)submitted after its confirmation and accepted as the child of the stale one.
			class := ""
			for _, sp := range d.Tx.SpentOutputIDs {
				sp := sp
				if e, err := n.Store.GetUtxo(&sp); err == nil && !e.Spent {
					continue
				}
				for _, oid := range ids {
					od := byID[oid]
					if od.Tx.ID == d.Tx.ID {
						continue
					}
					for _, rid := range od.Tx.ResultIds {
						if *rid == sp {
							if _, conf := bst.Txs[od.Tx.ID]; !conf {
								class = "resubmitted-as-child-of-stale-conflicting-pool-tx"
							}
						}
					}
				}
			}
			r.Violate("confirmed-tx-in-pool", class, "after %s (reorgs %d): pooled transaction is confirmed at height %d of the main chain (tip %s; %s; spends an output created in the same block: %v; pool size %d) %s",
				ctx, o.reorgs, h, w.name(bst.Hash), where, chained, len(ids), class)
			return
		}
	}
	if len(ids) > 0 {
		r.Count("probe.pool_nonempty_checks", 1)
	}
}
