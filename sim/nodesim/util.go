package nodesim

import (
	"os"
	"time"

	"github.com/bytom/bytom/protocol/bc"
)

func msDur(ms uint64) time.Duration { return time.Duration(ms) * time.Millisecond }

func hs(h bc.Hash) string { return h.String() }

func getenv(k, def string) string {
	if v := os.Getenv(k); v != "" {
		return v
	}
	return def
}
