package nodesim

import (
	"encoding/hex"
	"sort"

	"github.com/bytom/bytom/protocol/bc"
	"github.com/bytom/bytom/protocol/bc/types"

	"verif/sim/model"
)

// The harness-side "client": builds and signs transactions over model-known
// outputs with a small independent builder (not the wallet's txbuilder).

// InputFor builds the unsigned input spending o (spend or veto by kind).
func InputFor(o *model.Out) *types.TxInput {
	if o.Kind == model.Vote {
		return types.NewVetoInput(nil, o.SourceID, o.Asset, o.Amount, o.SourcePos, o.Program, o.Vote, o.State)
	}
	return types.NewSpendInput(nil, o.SourceID, o.Asset, o.Amount, o.SourcePos, o.Program, o.State)
}

// SignTx signs every input whose program pays a simulated key (P2WPKH witness:
// signature over the input's sighash, then the public key).
func (w *World) SignTx(tx *types.Tx) {
	for i, inp := range tx.Inputs {
		k := w.keyByProg[hex.EncodeToString(inp.ControlProgram())]
		if k == nil {
			continue
		}
		h := tx.SigHash(uint32(i))
		sig := k.Xprv.Sign(h.Bytes())
		tx.SetInputArguments(uint32(i), [][]byte{sig, k.PubKey})
	}
}

// BuildTx assembles, sizes and signs a transaction.
func (w *World) BuildTx(ins []*model.Out, outs []*types.TxOutput, timeRange uint64) *types.Tx {
	data := types.TxData{Version: 1, TimeRange: timeRange}
	for _, o := range ins {
		data.Inputs = append(data.Inputs, InputFor(o))
	}
	data.Outputs = outs
	tx := types.NewTx(data)
	w.SignTx(tx)
	// SerializedSize is part of the tx header (hence of the id): compute it on the
	// signed form the way the wallet does, then re-map and re-sign.
	raw, err := tx.TxData.MarshalText()
	if err != nil {
		harness("marshal tx: %v", err)
	}
	tx.TxData.SerializedSize = uint64(len(raw) / 2)
	tx = types.NewTx(tx.TxData)
	w.SignTx(tx)
	return tx
}

// Spendable lists the outputs of state s owned by simulated keys that consensus
// allows to be spent at height h, in a deterministic order.
func (w *World) Spendable(s *model.BlockState, h uint64, kinds ...model.OutKind) []*model.Out {
	want := map[model.OutKind]bool{}
	for _, k := range kinds {
		want[k] = true
	}
	var outs []*model.Out
	for _, o := range s.Utxo {
		if len(want) > 0 && !want[o.Kind] {
			continue
		}
		if w.keyByProg[hex.EncodeToString(o.Program)] == nil {
			continue
		}
		switch o.Kind {
		case model.Coinbase:
			if o.Height+model.CoinbaseMaturity > h {
				continue
			}
		case model.Vote:
			if o.Height+w.P.VotePending > h {
				continue
			}
		}
		outs = append(outs, o)
	}
	sort.Slice(outs, func(i, j int) bool { return outs[i].ID.String() < outs[j].ID.String() })
	return outs
}

// OwnedAll lists every output of s owned by simulated keys (spendable or not).
func (w *World) OwnedAll(s *model.BlockState) []*model.Out {
	var outs []*model.Out
	for _, o := range s.Utxo {
		if w.keyByProg[hex.EncodeToString(o.Program)] != nil {
			outs = append(outs, o)
		}
	}
	sort.Slice(outs, func(i, j int) bool { return outs[i].ID.String() < outs[j].ID.String() })
	return outs
}

// FeeFor is a fee that comfortably covers storage and VM gas for n P2WPKH inputs.
func FeeFor(nIn, nOut int) uint64 { return uint64(400000*nIn + 150000*nOut + 200000) }

var _ = bc.Hash{}
