package nodesim

// C04 — encoding round-trips every well-formed ledger value.
//
// Seam monitors over a rich simulated run: every block, header and transaction
// the run's nodes build, store or relay is taken across (i) the wire seam, (ii) the
// disk seam and (iii) the JSON seam with the node's own encoders and decoders, and
// the value that arrives is compared with the value that left.
//
// Equality convention (the only relaxations, all forced by the format): the binary
// format writes a byte string as length+bytes and a list as count+items, so a nil
// and an empty byte string, and a nil and an empty list (arguments, state data,
// inputs, outputs, transactions, verification links), are the same value; the
// ten signature slots of a verification link are compared slot by slot. An issuance
// input's cached asset id is compared through AssetID(). Everything else is
// compared field by field; ids, recorded sizes and re-encoded bytes must be equal.
// In JSON maps nil and empty are different values and are compared as such.

import (
	"bytes"
	"encoding/json"
	"fmt"
	"reflect"
	"strings"
	"testing"
	"testing/synctest"

	wire "github.com/tendermint/go-wire"
	"pgregory.net/rapid"

	"github.com/bytom/bytom/consensus"
	"github.com/bytom/bytom/database"
	"github.com/bytom/bytom/netsync/chainmgr"
	"github.com/bytom/bytom/netsync/consensusmgr"
	msgs "github.com/bytom/bytom/netsync/messages"
	"github.com/bytom/bytom/protocol/bc"
	"github.com/bytom/bytom/protocol/bc/types"
	"github.com/bytom/bytom/protocol/state"

	"verif/sim/model"
	"verif/sim/simdisk"
	"verif/sim/simkit"
)

// C04Vote: the validators in Mask (bit i = validator i) sign the link to
// checkpoint At (indices modulo the live state).
type C04Vote struct {
	At   int `json:"at"`
	Mask int `json:"mask"`
}

// C04Foreign: a transaction as a node holds it after decoding a peer's bytes that
// carry a non-empty extension suffix in one of the extensible strings.
type C04Foreign struct {
	Tx    int `json:"tx"`
	Where int `json:"where"` // which extensible string
	Len   int `json:"len"`
}

// C04State: an extra transaction whose outputs carry state data.
type C04State struct {
	Step  int `json:"step"`
	Pick  int `json:"pick"`
	Shape int `json:"shape"`
}

// C04Plan is one run.
type C04Plan struct {
	Tree    TreePlan     `json:"tree"`
	Votes   []C04Vote    `json:"votes,omitempty"`
	Foreign []C04Foreign `json:"foreign,omitempty"`
	States  []C04State   `json:"states,omitempty"`
	// Genesis arms the size comparison for the genesis transactions as built in memory (a known
	// finding that would otherwise end every run at its first crossing); drawn for one run in eight.
	Genesis bool `json:"genesis,omitempty"`
}

func genC04(rt *rapid.T) any {
	cfg := GenCfg(rt, 4)
	p := &C04Plan{Tree: TreePlan{Cfg: cfg, Warm: WarmupLen(cfg), Steps: GenSteps(rt, 4, 10, 2, 5)}}
	// make sure votes are cast early and vetoed once their lock has expired
	for i := range p.Tree.Steps {
		switch {
		case i < 2:
			p.Tree.Steps[i].Txs = append(p.Tree.Steps[i].Txs, TxOp{Kind: "vote", A: i, B: i + 1, C: i})
		case i >= 2+cfg.VotePending/2 && rapid.IntRange(0, 2).Draw(rt, "vetoq") > 0:
			p.Tree.Steps[i].Txs = append(p.Tree.Steps[i].Txs, TxOp{Kind: "veto", A: i, B: i})
		}
	}
	nv := rapid.IntRange(0, 8).Draw(rt, "nvotes")
	for i := 0; i < nv; i++ {
		p.Votes = append(p.Votes, C04Vote{At: rapid.IntRange(0, 9).Draw(rt, "vat"), Mask: rapid.IntRange(1, 15).Draw(rt, "vmask")})
	}
	nf := rapid.IntRange(0, 4).Draw(rt, "nforeign")
	for i := 0; i < nf; i++ {
		p.Foreign = append(p.Foreign, C04Foreign{Tx: rapid.IntRange(0, 30).Draw(rt, "ftx"), Where: rapid.IntRange(0, 4).Draw(rt, "fwhere"), Len: rapid.IntRange(1, 5).Draw(rt, "flen")})
	}
	p.Genesis = rapid.IntRange(0, 7).Draw(rt, "genesisq") == 7
	ns := rapid.IntRange(0, 3).Draw(rt, "nstate")
	for i := 0; i < ns; i++ {
		p.States = append(p.States, C04State{Step: rapid.IntRange(0, 9).Draw(rt, "sstep"), Pick: rapid.IntRange(0, 7).Draw(rt, "spick"), Shape: rapid.IntRange(0, 5).Draw(rt, "sshape")})
	}
	return p
}

// ---------------------------------------------------------------------------
// Field-by-field comparison (normalised as described at the top).

func c04TxFields(tx *types.Tx) []c03Dig {
	cons, wit := c03DigestTx(&tx.TxData)
	out := append(append([]c03Dig{}, cons...), wit...)
	for i, in := range tx.Inputs {
		if ii, ok := in.TypedInput.(*types.IssuanceInput); ok {
			a := ii.AssetID()
			out = append(out, c03Dig{"iss.asset-id", fmt.Sprintf("#%d:%s", i, a.String())})
		}
	}
	return out
}

// c04DiffTx returns "" when a and b are the same transaction value.
func c04DiffTx(a, b *types.Tx) (label, detail string) {
	if l, va, vb := c03Diff(c04TxFields(a), c04TxFields(b)); l != "" {
		return l, va + " vs " + vb
	}
	return "", ""
}

func c04HeaderFields(h *types.BlockHeader) []c03Dig {
	out := []c03Dig{
		{"hdr.version", fmt.Sprint(h.Version)},
		{"hdr.height", fmt.Sprint(h.Height)},
		{"hdr.previous", h.PreviousBlockHash.String()},
		{"hdr.timestamp", fmt.Sprint(h.Timestamp)},
		{"hdr.merkle-root", h.TransactionsMerkleRoot.String()},
		{"hdr.signature", fmt.Sprintf("%x", []byte(h.BlockWitness))},
		{"hdr.links", fmt.Sprint(len(h.SupLinks))},
	}
	for i, sl := range h.SupLinks {
		if sl == nil {
			out = append(out, c03Dig{"hdr.link", fmt.Sprintf("#%d:nil", i)})
			continue
		}
		out = append(out, c03Dig{"hdr.link.source-height", fmt.Sprintf("#%d:%d", i, sl.SourceHeight)})
		out = append(out, c03Dig{"hdr.link.source-hash", fmt.Sprintf("#%d:%s", i, sl.SourceHash.String())})
		for j, s := range sl.Signatures {
			out = append(out, c03Dig{"hdr.link.signature-slot", fmt.Sprintf("#%d.%d:%x", i, j, s)})
		}
	}
	return out
}

func c04DiffHeader(a, b *types.BlockHeader) (string, string) {
	if l, va, vb := c03Diff(c04HeaderFields(a), c04HeaderFields(b)); l != "" {
		return l, va + " vs " + vb
	}
	return "", ""
}

// ---------------------------------------------------------------------------

type c04Run struct {
	w       *World
	r       *simkit.Run
	n       *Node
	genesis bool // judge the recorded size of the in-memory genesis transactions
}

func (x *c04Run) fail(oracle, seam, label, format string, args ...any) {
	attr := seam
	if label != "" {
		attr += "/" + label
	}
	x.r.Violate(oracle, attr, format, args...)
}

// checkTx compares a transaction that crossed a seam with the one that left.
// rawLen > 0: the length in bytes of its binary encoding inside the crossing.
func (x *c04Run) checkTx(seam, what string, orig, got *types.Tx) bool {
	if l, d := c04DiffTx(orig, got); l != "" {
		x.fail("not-equal", seam, l, "%s: after crossing %s the transaction differs in %s: %s", what, seam, l, d)
		return false
	}
	if orig.Tx == nil || got.Tx == nil {
		harness("transaction without mapped entries at %s", seam)
	}
	if orig.ID != got.ID {
		x.fail("id-changed", seam, "tx", "%s: after crossing %s the transaction has another id", what, seam)
		return false
	}
	if orig.TxData.SerializedSize != got.TxData.SerializedSize || orig.Tx.SerializedSize != got.Tx.SerializedSize {
		kind := "tx"
		if len(orig.Inputs) == 1 {
			if _, ok := orig.Inputs[0].TypedInput.(*types.CoinbaseInput); ok {
				kind = "coinbase"
			}
		}
		for _, gtx := range x.w.Genesis.Transactions {
			if gtx.ID == orig.ID && orig.TxData.SerializedSize == 0 {
				// built in memory by config.GenesisTxs, which never records a size
				kind = "genesis-built-in-memory"
			}
		}
		if kind == "genesis-built-in-memory" && !x.genesis {
			x.r.Count("contained.genesis_size_not_judged", 1)
		} else {
			x.fail("size-changed", seam, kind, "%s: the transaction records serialized size %d (header entry %d); after crossing %s it records %d (header entry %d)",
				what, orig.TxData.SerializedSize, orig.Tx.SerializedSize, seam, got.TxData.SerializedSize, got.Tx.SerializedSize)
			return false
		}
	}
	if len(orig.ResultIds) != len(got.ResultIds) || len(orig.InputIDs) != len(got.InputIDs) {
		x.fail("id-changed", seam, "entries", "%s: after crossing %s the transaction maps to other entries", what, seam)
		return false
	}
	for i := range orig.ResultIds {
		if *orig.ResultIds[i] != *got.ResultIds[i] {
			x.fail("id-changed", seam, "output-id", "%s: after crossing %s output %d has another id", what, seam, i)
			return false
		}
	}
	return true
}

func (x *c04Run) checkHeader(seam, what string, orig, got *types.BlockHeader) bool {
	if l, d := c04DiffHeader(orig, got); l != "" {
		x.fail("not-equal", seam, l, "%s: after crossing %s the header differs in %s: %s", what, seam, l, d)
		return false
	}
	if orig.Hash() != got.Hash() {
		x.fail("id-changed", seam, "header", "%s: after crossing %s the header has another hash", what, seam)
		return false
	}
	return true
}

func (x *c04Run) checkBlock(seam, what string, orig, got *types.Block) bool {
	if !x.checkHeader(seam, what, &orig.BlockHeader, &got.BlockHeader) {
		return false
	}
	if len(orig.Transactions) != len(got.Transactions) {
		x.fail("not-equal", seam, "blk.transactions", "%s: %d transactions before, %d after crossing %s", what, len(orig.Transactions), len(got.Transactions), seam)
		return false
	}
	for i := range orig.Transactions {
		if !x.checkTx(seam, fmt.Sprintf("%s, transaction %d", what, i), orig.Transactions[i], got.Transactions[i]) {
			return false
		}
	}
	return true
}

// cross takes one value across one encoder/decoder pair and applies the oracle.
func c04Cross[T any](x *c04Run, seam, kind, what string, orig T, enc func(T) ([]byte, error), dec func([]byte) (T, error), check func(seam, what string, a, b T) bool) {
	r := x.r
	if r.Failed() {
		return
	}
	full := seam + "." + kind
	b1, err := enc(orig)
	if err != nil {
		x.fail("encode-failed", full, "", "%s: cannot be encoded for %s: %v", what, full, err)
		return
	}
	got, err := dec(b1)
	if err != nil {
		x.fail("decode-failed", full, "", "%s: the bytes the node wrote for %s cannot be decoded: %v", what, full, err)
		return
	}
	if !check(full, what, orig, got) {
		return
	}
	b2, err := enc(got)
	if err != nil {
		x.fail("encode-failed", full, "second", "%s: the decoded value cannot be encoded again for %s: %v", what, full, err)
		return
	}
	if !bytes.Equal(b1, b2) {
		x.fail("reencode-differs", full, "", "%s: encoding the decoded value for %s yields other bytes (%d vs %d bytes)", what, full, len(b1), len(b2))
		return
	}
	r.Count("cross."+full, 1)
	r.Count("probe.crossings", 1)
}

func c04WireChain(m msgs.BlockchainMessage) []byte {
	return wire.BinaryBytes(struct{ msgs.BlockchainMessage }{m})
}

func c04UnwireChain(bz []byte) (msgs.BlockchainMessage, error) {
	_, m, err := chainmgr.VerifDecodeMessage(bz)
	return m, err
}

// txSeams: every encoder/decoder pair a transaction travels through.
func (x *c04Run) crossTx(what string, tx *types.Tx) {
	chk := x.checkTx
	c04Cross(x, "wire", "tx-text", what, tx,
		func(t *types.Tx) ([]byte, error) { return t.MarshalText() },
		func(b []byte) (*types.Tx, error) { t := &types.Tx{}; return t, t.UnmarshalText(b) }, chk)
	c04Cross(x, "wire", "tx-message", what, tx,
		func(t *types.Tx) ([]byte, error) {
			m, err := msgs.NewTransactionMessage(t)
			if err != nil {
				return nil, err
			}
			return c04WireChain(m), nil
		},
		func(b []byte) (*types.Tx, error) {
			m, err := c04UnwireChain(b)
			if err != nil {
				return nil, err
			}
			return m.(*msgs.TransactionMessage).GetTransaction()
		}, chk)
	c04Cross(x, "json", "tx", what, tx,
		func(t *types.Tx) ([]byte, error) { return json.Marshal(t) },
		func(b []byte) (*types.Tx, error) { t := &types.Tx{}; return t, json.Unmarshal(b, t) }, chk)
}

func (x *c04Run) crossTxBatch(what string, txs []*types.Tx) {
	if len(txs) == 0 {
		return
	}
	c04Cross(x, "wire", "txs-message", what, txs,
		func(t []*types.Tx) ([]byte, error) {
			m, err := msgs.NewTransactionsMessage(t)
			if err != nil {
				return nil, err
			}
			return c04WireChain(m), nil
		},
		func(b []byte) ([]*types.Tx, error) {
			m, err := c04UnwireChain(b)
			if err != nil {
				return nil, err
			}
			return m.(*msgs.TransactionsMessage).GetTransactions()
		},
		func(seam, what string, a, b []*types.Tx) bool {
			if len(a) != len(b) {
				x.fail("not-equal", seam, "count", "%s: %d transactions sent, %d received", what, len(a), len(b))
				return false
			}
			for i := range a {
				if !x.checkTx(seam, fmt.Sprintf("%s #%d", what, i), a[i], b[i]) {
					return false
				}
			}
			return true
		})
}

func (x *c04Run) crossHeader(what string, h *types.BlockHeader) {
	chk := x.checkHeader
	c04Cross(x, "wire", "header-text", what, h,
		func(t *types.BlockHeader) ([]byte, error) { return t.MarshalText() },
		func(b []byte) (*types.BlockHeader, error) { t := &types.BlockHeader{}; return t, t.UnmarshalText(b) }, chk)
	c04Cross(x, "json", "header", what, h,
		func(t *types.BlockHeader) ([]byte, error) { return json.Marshal(t) },
		func(b []byte) (*types.BlockHeader, error) { t := &types.BlockHeader{}; return t, json.Unmarshal(b, t) }, chk)
	c04Cross(x, "disk", "header", what, h,
		func(t *types.BlockHeader) ([]byte, error) {
			d := simdisk.New()
			if err := database.NewStore(d).SaveBlockHeader(t); err != nil {
				return nil, err
			}
			return c04DumpDisk(d), nil
		},
		func(b []byte) (*types.BlockHeader, error) {
			hh := h.Hash()
			// a fresh store over the same disk content = what a restarted node reads
			return database.NewStore(c04LoadDisk(b)).GetBlockHeader(&hh)
		}, chk)
}

func (x *c04Run) crossHeaders(what string, hs []*types.BlockHeader) {
	if len(hs) == 0 {
		return
	}
	c04Cross(x, "wire", "headers-message", what, hs,
		func(t []*types.BlockHeader) ([]byte, error) {
			m, err := msgs.NewHeadersMessage(t)
			if err != nil {
				return nil, err
			}
			return c04WireChain(m), nil
		},
		func(b []byte) ([]*types.BlockHeader, error) {
			m, err := c04UnwireChain(b)
			if err != nil {
				return nil, err
			}
			return m.(*msgs.HeadersMessage).GetHeaders()
		},
		func(seam, what string, a, b []*types.BlockHeader) bool {
			if len(a) != len(b) {
				x.fail("not-equal", seam, "count", "%s: %d headers sent, %d received", what, len(a), len(b))
				return false
			}
			for i := range a {
				if !x.checkHeader(seam, fmt.Sprintf("%s #%d", what, i), a[i], b[i]) {
					return false
				}
			}
			return true
		})
}

// c04DumpDisk serialises a simulated disk (sorted keys) so that two disks can be compared bytewise.
func c04DumpDisk(d *simdisk.Disk) []byte {
	var buf bytes.Buffer
	for _, k := range d.Keys() {
		v, _ := d.Raw(k)
		fmt.Fprintf(&buf, "%d:%s=%d:", len(k), k, len(v))
		buf.Write(v)
		buf.WriteByte('\n')
	}
	return buf.Bytes()
}

func c04LoadDisk(b []byte) *simdisk.Disk {
	d := simdisk.New()
	for len(b) > 0 {
		var kl, vl int
		i := bytes.IndexByte(b, ':')
		fmt.Sscanf(string(b[:i]), "%d", &kl)
		k := string(b[i+1 : i+1+kl])
		b = b[i+1+kl+1:]
		i = bytes.IndexByte(b, ':')
		fmt.Sscanf(string(b[:i]), "%d", &vl)
		v := b[i+1 : i+1+vl]
		d.SetRaw(k, append([]byte{}, v...))
		b = b[i+1+vl+1:]
	}
	return d
}

func (x *c04Run) crossBlock(what string, blk *types.Block) {
	chk := x.checkBlock
	c04Cross(x, "wire", "block-text", what, blk,
		func(t *types.Block) ([]byte, error) { return t.MarshalText() },
		func(b []byte) (*types.Block, error) { t := &types.Block{}; return t, t.UnmarshalText(b) }, chk)
	c04Cross(x, "wire", "block-message", what, blk,
		func(t *types.Block) ([]byte, error) {
			m, err := msgs.NewBlockMessage(t)
			if err != nil {
				return nil, err
			}
			return c04WireChain(m), nil
		},
		func(b []byte) (*types.Block, error) {
			m, err := c04UnwireChain(b)
			if err != nil {
				return nil, err
			}
			return m.(*msgs.BlockMessage).GetBlock()
		}, chk)
	c04Cross(x, "wire", "mined-block-message", what, blk,
		func(t *types.Block) ([]byte, error) {
			m, err := msgs.NewMinedBlockMessage(t)
			if err != nil {
				return nil, err
			}
			return c04WireChain(m), nil
		},
		func(b []byte) (*types.Block, error) {
			m, err := c04UnwireChain(b)
			if err != nil {
				return nil, err
			}
			return m.(*msgs.MineBlockMessage).GetMineBlock()
		}, chk)
	c04Cross(x, "wire", "propose-message", what, blk,
		func(t *types.Block) ([]byte, error) {
			m, err := consensusmgr.NewBlockProposeMsg(t)
			if err != nil {
				return nil, err
			}
			return wire.BinaryBytes(struct{ consensusmgr.ConsensusMessage }{m}), nil
		},
		func(b []byte) (*types.Block, error) {
			_, m, err := consensusmgr.VerifDecodeMessage(b)
			if err != nil {
				return nil, err
			}
			return m.(*consensusmgr.BlockProposeMsg).GetProposeBlock()
		}, chk)
	c04Cross(x, "json", "block", what, blk,
		func(t *types.Block) ([]byte, error) { return json.Marshal(t) },
		func(b []byte) (*types.Block, error) { t := &types.Block{}; return t, json.Unmarshal(b, t) }, chk)
	// disk: SaveBlock, then a fresh store over the same disk (a restart)
	h := blk.Hash()
	c04Cross(x, "disk", "block", what, blk,
		func(t *types.Block) ([]byte, error) {
			d := simdisk.New()
			if err := database.NewStore(d).SaveBlock(t); err != nil {
				return nil, err
			}
			return c04DumpDisk(d), nil
		},
		func(b []byte) (*types.Block, error) {
			fresh := database.NewStore(c04LoadDisk(b))
			got, err := fresh.GetBlock(&h)
			if err != nil {
				return nil, err
			}
			// the two partial readers must agree with the whole-block reader
			hdr, err := fresh.GetBlockHeader(&h)
			if err != nil {
				return nil, err
			}
			txs, err := fresh.GetBlockTransactions(&h)
			if err != nil {
				return nil, err
			}
			if !x.checkBlock("disk.block-parts", what, got, &types.Block{BlockHeader: *hdr, Transactions: txs}) {
				return nil, fmt.Errorf("GetBlock and GetBlockHeader+GetBlockTransactions disagree")
			}
			return got, nil
		}, chk)
}

func (x *c04Run) crossBlocks(what string, blks []*types.Block) {
	if len(blks) == 0 {
		return
	}
	c04Cross(x, "wire", "blocks-message", what, blks,
		func(t []*types.Block) ([]byte, error) {
			m, err := msgs.NewBlocksMessage(t)
			if err != nil {
				return nil, err
			}
			return c04WireChain(m), nil
		},
		func(b []byte) ([]*types.Block, error) {
			m, err := c04UnwireChain(b)
			if err != nil {
				return nil, err
			}
			return m.(*msgs.BlocksMessage).GetBlocks()
		},
		func(seam, what string, a, b []*types.Block) bool {
			if len(a) != len(b) {
				x.fail("not-equal", seam, "count", "%s: %d blocks sent, %d received", what, len(a), len(b))
				return false
			}
			for i := range a {
				if !x.checkBlock(seam, fmt.Sprintf("%s #%d", what, i), a[i], b[i]) {
					return false
				}
			}
			return true
		})
}

func (x *c04Run) crossCheckpoint(what string, cp *state.Checkpoint) {
	c04Cross(x, "json", "checkpoint", what, cp,
		func(c *state.Checkpoint) ([]byte, error) { return json.Marshal(c) },
		func(b []byte) (*state.Checkpoint, error) { c := &state.Checkpoint{}; return c, json.Unmarshal(b, c) },
		func(seam, what string, a, b *state.Checkpoint) bool {
			// Parent and SupLinks are documented as memory-only (not persisted)
			pa := state.Checkpoint{Height: a.Height, Hash: a.Hash, ParentHash: a.ParentHash, Timestamp: a.Timestamp, Status: a.Status, Rewards: a.Rewards, Votes: a.Votes}
			pb := state.Checkpoint{Height: b.Height, Hash: b.Hash, ParentHash: b.ParentHash, Timestamp: b.Timestamp, Status: b.Status, Rewards: b.Rewards, Votes: b.Votes}
			if !reflect.DeepEqual(pa, pb) {
				label := "fields"
				switch {
				case !reflect.DeepEqual(pa.Votes, pb.Votes):
					label = "votes"
				case !reflect.DeepEqual(pa.Rewards, pb.Rewards):
					label = "rewards"
				case pa.Status != pb.Status:
					label = "status"
				}
				x.fail("not-equal", seam, label, "%s: after crossing %s the checkpoint differs (%s): %+v vs %+v", what, seam, label, pa, pb)
				return false
			}
			return true
		})
}

// foreign returns tx as a node holds it after decoding bytes whose extensible
// string number `where` carries n extra bytes (nil when tx has no such string).
func c04Foreign(tx *types.Tx, where, n int) *types.Tx {
	raw, err := tx.MarshalText()
	if err != nil {
		harness("%v", err)
	}
	base := &types.Tx{}
	if err := base.UnmarshalText(raw); err != nil {
		harness("%v", err)
	}
	d := base.TxData
	suffix := bytes.Repeat([]byte{0xe5}, n)
	ok := false
	switch where % 5 {
	case 0:
		if len(d.Inputs) > 0 {
			d.Inputs[0].CommitmentSuffix, ok = suffix, true
		}
	case 1:
		if len(d.Inputs) > 0 {
			d.Inputs[0].WitnessSuffix, ok = suffix, true
		}
	case 2:
		for _, in := range d.Inputs {
			switch t := in.TypedInput.(type) {
			case *types.SpendInput:
				t.SpendCommitmentSuffix, ok = suffix, true
			case *types.VetoInput:
				t.VetoCommitmentSuffix, ok = suffix, true
			}
			if ok {
				break
			}
		}
	case 3:
		if len(d.Outputs) > 0 {
			d.Outputs[len(d.Outputs)-1].CommitmentSuffix, ok = suffix, true
		}
	case 4:
		if len(d.Outputs) > 0 && len(d.Inputs) > 0 {
			d.Outputs[0].CommitmentSuffix, d.Inputs[len(d.Inputs)-1].WitnessSuffix, ok = suffix, suffix[:1], true
		}
	}
	if !ok {
		return nil
	}
	// the peer's bytes, and the node's decode of them: this decoded value is what the node holds
	peer := &types.Tx{TxData: d}
	pb, err := peer.TxData.MarshalText()
	if err != nil {
		harness("%v", err)
	}
	held := &types.Tx{}
	if err := held.UnmarshalText(pb); err != nil {
		return nil
	}
	return held
}

func execC04(t *testing.T, plan any, r *simkit.Run) {
	p := plan.(*C04Plan)
	Bubble(t, func() {
		w := NewWorld(t, r, p.Tree.Cfg)
		start := nowMs()
		btm := *consensus.BTMAssetID
		x := &c04Run{w: w, r: r, genesis: p.Genesis}
		offered := 0
		stateTx := func(pst *model.BlockState, step int, txs []*types.Tx) []*types.Tx {
			defer func() {
				// every transaction crosses the seams before any node sees it
				for _, tx := range txs {
					offered++
					x.crossTx(fmt.Sprintf("offered transaction %d", offered), tx)
				}
			}()
			for _, s := range p.States {
				if len(p.Tree.Steps) == 0 || s.Step%len(p.Tree.Steps) != step {
					continue
				}
				used := map[bc.Hash]bool{}
				for _, tx := range txs {
					for _, id := range tx.SpentOutputIDs {
						used[id] = true
					}
				}
				var cands []*model.Out
				for _, o := range w.Spendable(pst, pst.Height+1, model.Normal, model.Coinbase) {
					if !used[o.ID] && o.Asset == btm && o.Amount > FeeFor(1, 2)+10 {
						cands = append(cands, o)
					}
				}
				if len(cands) == 0 {
					continue
				}
				o := cands[s.Pick%len(cands)]
				rest := o.Amount - FeeFor(1, 2)
				shapes := [][][]byte{
					{{0x01}},
					{{0x01, 0x02, 0x03}, {}},
					{{}, {0xff}},
					{bytes.Repeat([]byte{0xab}, 40), {0x00}, {0x7f}},
					{{}},
					{},
				}
				st := shapes[s.Shape%len(shapes)]
				outs := []*types.TxOutput{types.NewOriginalTxOutput(btm, rest/2, w.Keys[s.Pick%len(w.Keys)].Program, st)}
				if rest-rest/2 > 0 {
					outs = append(outs, types.NewOriginalTxOutput(btm, rest-rest/2, w.Keys[(s.Pick+1)%len(w.Keys)].Program, nil))
				}
				txs = append(txs, w.BuildTx([]*model.Out{o}, outs, 0))
				r.Count("txs.state_data_offered", 1)
			}
			return txs
		}
		_ = stateTx
		prods := w.idProduceTree(&p.Tree, stateTx)
		if r.Failed() || len(prods) == 0 {
			return
		}
		n, err := w.StartNode("N", simdisk.New(), observerKey())
		if err != nil {
			r.Violate("init", "", "%v", err)
			return
		}
		x.n = n
		for _, pr := range prods {
			// the block as its proposer built it crosses the seams before it is delivered
			x.crossBlock("block "+w.name(pr.Hash)+" as built", w.Blocks[pr.Hash])
			if r.Failed() {
				return
			}
			if _, err := n.Process(w.Blocks[pr.Hash]); err != nil {
				r.Count("contained.block_rejected", 1)
			}
		}
		// votes of further validators: stored headers gain signatures in further slots
		var cps []*model.BlockState
		for _, h := range w.Order[1:] {
			s := w.Tree.Nodes[h]
			h := h
			if s.Height%w.P.E == 0 && s.Invalid == nil {
				if _, err := n.Store.GetBlockHeader(&h); err == nil {
					cps = append(cps, s)
				}
			}
		}
		for _, v := range p.Votes {
			if len(cps) == 0 {
				break
			}
			tgt := cps[v.At%len(cps)]
			src := w.JustifiedSource(n, tgt)
			if src == nil {
				r.Count("votes.no_justified_source", 1)
				continue
			}
			for vi := 0; vi < w.Cfg.Validators; vi++ {
				if v.Mask&(1<<uint(vi)) == 0 {
					continue
				}
				n.Activate()
				err := n.Chain.ProcessBlockVerification(SignVote(w.Keys[vi], src.Hash, tgt.Hash))
				synctest.Wait()
				if err != nil {
					r.Count("votes.rejected", 1)
				} else {
					r.Count("votes.delivered", 1)
				}
			}
		}

		// ---- the values: every block as built and as stored, every header, every transaction
		type named struct {
			what string
			blk  *types.Block
		}
		var blocks []named
		for _, h := range w.Order {
			h := h
			built := w.Blocks[h]
			blocks = append(blocks, named{"block " + w.name(h) + " as built", built})
			if stored, err := n.Chain.GetBlockByHash(&h); err == nil {
				if l, _ := c04DiffHeader(&built.BlockHeader, &stored.BlockHeader); l != "" {
					blocks = append(blocks, named{"block " + w.name(h) + " as stored", stored})
				}
			}
		}
		maxSigs := 0
		for _, nb := range blocks {
			for _, sl := range nb.blk.SupLinks {
				c := 0
				for _, s := range sl.Signatures {
					if len(s) > 0 {
						c++
					}
				}
				if c > 0 {
					r.Count(fmt.Sprintf("probe.link_with_%d_signatures", c), 1)
				}
				if c > maxSigs {
					maxSigs = c
				}
			}
			if len(nb.blk.SupLinks) > 1 {
				r.Count("probe.header_with_several_links", 1)
			}
			switch nt := len(nb.blk.Transactions); {
			case nt <= 1:
				r.Count("probe.block_without_transactions", 1)
			case nt >= 4:
				r.Count("probe.block_with_3plus_transactions", 1)
			}
		}
		var batchB []*types.Block
		var batchH []*types.BlockHeader
		for _, nb := range blocks {
			if r.Failed() {
				return
			}
			if !strings.HasSuffix(nb.what, "as built") || nb.blk.Height == 0 {
				x.crossBlock(nb.what, nb.blk)
			}
			hdr := nb.blk.BlockHeader
			x.crossHeader("header of "+nb.what, &hdr)
			x.crossTxBatch("transactions of "+nb.what, nb.blk.Transactions)
			batchB = append(batchB, nb.blk)
			batchH = append(batchH, &hdr)
			if len(batchB) == 5 {
				x.crossBlocks("blocks up to "+nb.what, batchB)
				x.crossHeaders("headers up to "+nb.what, batchH)
				batchB, batchH = nil, nil
			}
		}
		x.crossBlocks("last blocks", batchB)
		x.crossHeaders("last headers", batchH)
		// transactions: offered (included or not) and included
		var alltx []*types.Tx
		seen := map[bc.Hash]bool{}
		for _, pr := range prods {
			for _, tx := range append(append([]*types.Tx{}, pr.Txs...), w.Blocks[pr.Hash].Transactions...) {
				if !seen[tx.ID] {
					seen[tx.ID] = true
					alltx = append(alltx, tx)
				}
			}
		}
		alltx = append(alltx, w.Genesis.Transactions...)
		kinds := map[string]bool{}
		for i, tx := range alltx {
			if r.Failed() {
				return
			}
			x.crossTx(fmt.Sprintf("transaction %d", i), tx)
			for _, in := range tx.Inputs {
				switch in.TypedInput.(type) {
				case *types.SpendInput:
					kinds["spend"] = true
					if len(in.TypedInput.(*types.SpendInput).StateData) > 0 {
						kinds["spend-with-state"] = true
					}
				case *types.VetoInput:
					kinds["veto"] = true
				case *types.IssuanceInput:
					kinds["issuance"] = true
				case *types.CoinbaseInput:
					kinds["coinbase"] = true
				}
			}
			for _, o := range tx.Outputs {
				kinds["out-"+c03OutKind(o)] = true
				if len(o.StateData) > 0 {
					kinds["out-with-state"] = true
				}
			}
		}
		for k := range kinds {
			r.Count("probe.kind."+k, 1)
		}
		// foreign values: what a node holds after decoding a peer's bytes with extension suffixes
		for _, f := range p.Foreign {
			if r.Failed() || len(alltx) == 0 {
				break
			}
			tx := alltx[f.Tx%len(alltx)]
			held := c04Foreign(tx, f.Where, f.Len)
			if held == nil {
				r.Count("foreign.not_applicable", 1)
				continue
			}
			r.Count("fault.foreign_suffix", 1)
			x.crossTx(fmt.Sprintf("transaction with an extension suffix (kind %d)", f.Where%5), held)
			// and inside a block body
			if len(w.Order) > 1 {
				host := copyBlock(w.Blocks[w.Order[1+f.Tx%(len(w.Order)-1)]])
				host.Transactions = append(host.Transactions, held)
				x.crossBlock(fmt.Sprintf("block carrying a transaction with an extension suffix (kind %d)", f.Where%5), host)
			}
		}
		// checkpoints as the node persists them (JSON)
		for _, s := range cps {
			if r.Failed() {
				return
			}
			h := s.Hash
			if cp, err := n.Store.GetCheckpoint(&h); err == nil {
				x.crossCheckpoint("checkpoint at "+w.name(h), cp)
			}
		}
		if r.Failed() {
			return
		}
		// ---- the node's own disk: restart and read everything back
		live := map[bc.Hash]*types.Block{}
		for _, h := range w.Order {
			h := h
			if b, err := n.Chain.GetBlockByHash(&h); err == nil {
				live[h] = b
			}
		}
		n2, err := w.StartNode("N-restarted", n.Disk.Clone(), observerKey())
		if err != nil {
			r.Count("contained.restart_failed", 1)
		} else {
			synctest.Wait()
			for _, h := range w.Order {
				h := h
				lb := live[h]
				if lb == nil {
					continue
				}
				got, err := n2.Chain.GetBlockByHash(&h)
				if err != nil {
					x.fail("decode-failed", "disk.node-restart", "", "block %s: stored by the node, cannot be read after a restart: %v", w.name(h), err)
					return
				}
				if !x.checkBlock("disk.node-restart", "block "+w.name(h), lb, got) {
					return
				}
				// the body the node was given is the body it stores
				given := &types.Block{BlockHeader: got.BlockHeader, Transactions: w.Blocks[h].Transactions}
				if !x.checkBlock("disk.node-restart-body", "block "+w.name(h), given, got) {
					return
				}
				r.Count("cross.disk.node-restart", 1)
				r.Count("probe.crossings", 1)
			}
		}
		r.SimTime(msDur(nowMs() - start))
		if !r.Failed() {
			r.NonTrivial()
		}
		_ = maxSigs
	})
}

// SpecC04: encoding round-trips.
func SpecC04() simkit.Spec {
	comps := map[string]string{}
	for k, v := range nodeComponents {
		comps[k] = v
	}
	comps["network / netsync reactors"] = "wire seam real (types MarshalText/UnmarshalText; messages.NewBlockMessage, NewMinedBlockMessage, NewBlocksMessage, NewHeadersMessage, NewTransactionMessage, NewTransactionsMessage, consensusmgr.NewBlockProposeMsg; go-wire framing; the reactors' decodeMessage through the verif hook; Get*()); transport and peers not run"
	comps["disk"] = "database.Store real on the simulated disk; reload = a fresh Store (and a restarted node) over the same content"
	probes := []string{"probe.crossings", "probe.link_with_1_signatures", "probe.link_with_2_signatures", "probe.link_with_3_signatures", "probe.link_with_4_signatures",
		"probe.header_with_several_links", "probe.block_without_transactions", "probe.block_with_3plus_transactions",
		"probe.kind.spend", "probe.kind.veto", "probe.kind.issuance", "probe.kind.coinbase", "probe.kind.out-normal", "probe.kind.out-vote", "probe.kind.out-retire", "probe.kind.out-with-state", "probe.kind.spend-with-state", "votes.delivered"}
	for _, s := range []string{"wire.tx-text", "wire.tx-message", "wire.txs-message", "wire.block-text", "wire.block-message", "wire.mined-block-message", "wire.propose-message", "wire.blocks-message",
		"wire.header-text", "wire.headers-message", "disk.block", "disk.header", "disk.node-restart", "json.tx", "json.header", "json.block", "json.checkpoint"} {
		probes = append(probes, "cross."+s)
	}
	return simkit.Spec{
		Prop: "C04", Gen: genC04, NewPlan: func() any { return &C04Plan{} }, Exec: execC04,
		Rule: "a block tree with pay/vote/veto/retire/issue (asset definitions)/chained/expiring transactions and extra transactions whose outputs carry state data is built by the real proposers of 1-4 validators; a node receives it, then drawn validators' votes are delivered so that stored headers carry links with up to four signatures in different slots. Every block (as built by its proposer and as stored by the node), header and transaction (offered or included, plus the genesis ones), batches of them, and the node's checkpoints cross every encoder/decoder pair of the wire seam (text forms and the seven netsync / consensus messages through go-wire and the reactors' decoder), the disk seam (SaveBlock / SaveBlockHeader, then a fresh Store over the same disk; and the node's own disk after a restart) and the JSON seam; drawn transactions additionally cross as a node holds them after decoding a peer's bytes with non-empty extension suffixes. Oracle per crossing: no encode/decode error; the decoded value equals the original field by field (nil = empty only for byte strings and lists, which the format cannot tell apart); same id / hash and output ids; same recorded serialized size; re-encoding the decoded value yields identical bytes. Non-trivial = the run completed all its crossings; distinct = hash of the trace",
		Components:  comps,
		FaultKinds:  []string{"fault.foreign_suffix"},
		Probes:      probes,
		Assumptions: []string{"only values the workload constructs: asset version 1, VM version 1, no non-empty output witness (the decoder drops it by design)", "header extension suffixes are dropped by the decoder by design and are not generated", "a checkpoint's Parent and SupLinks are memory-only by declaration and are not compared at the JSON seam"},
	}
}

var _ = strings.TrimSpace
