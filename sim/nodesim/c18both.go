package nodesim

import (
	"testing"

	"pgregory.net/rapid"

	"verif/sim/simkit"
)

// C18 is decided in two modes, drawn per run:
//   - "net":  2-4 honest validator nodes and at most one Byzantine validator on the simulated network (net.go);
//   - "solo": one validator node fed a forking block tree and adversarial verification messages (c18solo.go),
//     the property's own quantifier.
type C18Both struct {
	Net  *NetPlan  `json:"net,omitempty"`
	Solo *SoloPlan `json:"solo,omitempty"`
}

func genC18Both(rt *rapid.T) any {
	if rapid.IntRange(0, 2).Draw(rt, "mode") == 0 {
		return &C18Both{Net: genNet(rt).(*NetPlan)}
	}
	return &C18Both{Solo: genSolo(rt).(*SoloPlan)}
}

func execC18Both(t *testing.T, plan any, r *simkit.Run) {
	p := plan.(*C18Both)
	switch {
	case p.Solo != nil:
		r.Count("mode.solo", 1)
		execSolo(t, p.Solo, r)
	case p.Net != nil:
		r.Count("mode.net", 1)
		RunNet(t, p.Net, r, NetOracles{C18: true})
	}
}

// SpecC18Both is the registered C18 check.
func SpecC18Both() simkit.Spec {
	a, b := SpecC18(), SpecC18Solo()
	return simkit.Spec{
		Prop: "C18", Gen: genC18Both, NewPlan: func() any { return &C18Both{} }, Exec: execC18Both,
		Rule:        "one third of the runs (net mode): " + a.Rule + " — two thirds (solo mode): " + b.Rule,
		Components:  nodeComponents,
		FaultKinds:  append(append([]string{}, a.FaultKinds...), "fault.reorder", "fault.adversarial_source_vote", "fault.vote_before_target"),
		Probes:      append(append([]string{"mode.net", "mode.solo"}, a.Probes...), b.Probes...),
		Assumptions: append(append([]string{}, a.Assumptions...), b.Assumptions...),
	}
}
