// Package eventsim decides C39 (event subscribers see posted events in order,
// once each) on the real event.Dispatcher under a simulated clock: sequential
// histories against a reference bus, and concurrent subscriber / poster /
// unsubscriber / stopper goroutines under the race detector with a history check.
package eventsim

import (
	"fmt"
	"strings"
	"testing"
	"testing/synctest"
	"time"

	"pgregory.net/rapid"

	"github.com/bytom/bytom/event"

	"verif/sim/simkit"
	"verif/sim/simrt"
)

// three event types
type evA struct{ N int }
type evB struct{ N int }
type evC struct{ N int }

func mk(t, n int) interface{} {
	switch t % 3 {
	case 0:
		return evA{n}
	case 1:
		return evB{n}
	}
	return evC{n}
}

func proto(t int) interface{} { return mk(t, 0) }

func describe(v interface{}) string {
	switch e := v.(type) {
	case evA:
		return fmt.Sprintf("A%d", e.N)
	case evB:
		return fmt.Sprintf("B%d", e.N)
	case evC:
		return fmt.Sprintf("C%d", e.N)
	}
	return "?"
}

// Op is one bus operation.
type Op struct {
	Kind  string `json:"k"` // sub | post | unsub | stop | sleep
	Sub   int    `json:"s,omitempty"`
	Types []int  `json:"t,omitempty"`
	Type  int    `json:"ty,omitempty"`
	Ms    int    `json:"ms,omitempty"`
	Who   int    `json:"w,omitempty"` // concurrent mode: which task issues the op
}

// Plan is one history.
type Plan struct {
	Concurrent bool  `json:"concurrent"`
	Tasks      int   `json:"tasks"`
	Ops        []Op  `json:"ops"`
	Tape       []int `json:"tape,omitempty"` // scheduler picks (concurrent mode)
}

func gen(rt *rapid.T) any {
	p := &Plan{Concurrent: rapid.IntRange(0, 2).Draw(rt, "mode") == 2}
	p.Tasks = 1
	if p.Concurrent {
		p.Tasks = rapid.IntRange(2, 4).Draw(rt, "tasks")
	}
	n := rapid.IntRange(1, 40).Draw(rt, "nops")
	for i := 0; i < n; i++ {
		var op Op
		switch rapid.IntRange(0, 11).Draw(rt, "kind") {
		case 0, 1:
			op = Op{Kind: "sub", Sub: rapid.IntRange(0, 3).Draw(rt, "sub")}
			nt := rapid.IntRange(1, 3).Draw(rt, "ntypes")
			seen := map[int]bool{}
			for j := 0; j < nt; j++ {
				t := rapid.IntRange(0, 2).Draw(rt, "type")
				if !seen[t] {
					seen[t] = true
					op.Types = append(op.Types, t)
				}
			}
		case 2:
			op = Op{Kind: "unsub", Sub: rapid.IntRange(0, 3).Draw(rt, "sub")}
		case 3:
			if rapid.IntRange(0, 3).Draw(rt, "stopq") == 0 {
				op = Op{Kind: "stop"}
			} else {
				op = Op{Kind: "sleep", Ms: rapid.SampledFrom([]int{0, 1, 1000, 3600000}).Draw(rt, "ms")}
			}
		default:
			op = Op{Kind: "post", Type: rapid.IntRange(0, 2).Draw(rt, "ptype")}
		}
		op.Who = rapid.IntRange(0, 3).Draw(rt, "who")
		p.Ops = append(p.Ops, op)
	}
	if p.Concurrent {
		for i, m := 0, rapid.IntRange(8, 64).Draw(rt, "ntape"); i < m; i++ {
			p.Tape = append(p.Tape, rapid.IntRange(0, 5).Draw(rt, "pick"))
		}
	}
	return p
}

func bubble(t *testing.T, f func()) {
	var inner any
	func() {
		defer func() {
			if p := recover(); p != nil {
				if strings.Contains(fmt.Sprint(p), "deadlock: main bubble goroutine has exited") {
					return
				}
				panic(p)
			}
		}()
		synctest.Test(t, func(t *testing.T) {
			defer func() {
				if p := recover(); p != nil {
					inner = simkit.Capture(p)
				}
			}()
			f()
		})
	}()
	if inner != nil {
		panic(inner)
	}
}

// drain reads everything currently buffered on a subscription.
func drain(s *event.Subscription) (got []string, closed bool) {
	for {
		select {
		case ev, ok := <-s.Chan():
			if !ok {
				return got, true
			}
			got = append(got, describe(ev.Data))
		default:
			return got, false
		}
	}
}

func execSequential(p *Plan, r *simkit.Run) {
	d := event.NewDispatcher()
	type msub struct {
		s     *event.Subscription
		types map[int]bool
		want  []string
		live  bool
	}
	subs := map[int]*msub{}
	stopped := false
	n := 0
	for i, op := range p.Ops {
		r.FP(op.Kind)
		switch op.Kind {
		case "sleep":
			time.Sleep(time.Duration(op.Ms) * time.Millisecond)
			r.SimTime(time.Duration(op.Ms) * time.Millisecond)
		case "sub":
			if m := subs[op.Sub]; m != nil && m.live {
				continue
			}
			var protos []interface{}
			tm := map[int]bool{}
			for _, t := range op.Types {
				protos = append(protos, proto(t))
				tm[t] = true
			}
			s, err := d.Subscribe(protos...)
			if err != nil {
				r.Violate("subscribe-error", "", "op %d: Subscribe%v failed: %v", i, op.Types, err)
				return
			}
			subs[op.Sub] = &msub{s: s, types: tm, live: !stopped}
			r.Tracef("%d sub s%d types=%v", i, op.Sub, op.Types)
		case "post":
			n++
			v := mk(op.Type, n)
			err := d.Post(v)
			r.Tracef("%d post %s err=%v", i, describe(v), err != nil)
			if stopped {
				if err == nil {
					r.Violate("post-after-stop-succeeds", "", "op %d: Post(%s) after Stop returned no error", i, describe(v))
					return
				}
				continue
			}
			if err != nil {
				r.Violate("post-error", "", "op %d: Post(%s) on a running dispatcher failed: %v", i, describe(v), err)
				return
			}
			for _, m := range subs {
				if m.live && m.types[op.Type%3] {
					m.want = append(m.want, describe(v))
				}
			}
		case "unsub":
			m := subs[op.Sub]
			if m == nil {
				continue
			}
			got, _ := drain(m.s)
			if strings.Join(got, ",") != strings.Join(m.want, ",") {
				r.Violate("delivery-mismatch", "before-unsubscribe", "op %d: subscriber s%d received [%s], posted for it after subscribe: [%s]", i, op.Sub, strings.Join(got, ","), strings.Join(m.want, ","))
				return
			}
			m.want = nil
			m.s.Unsubscribe() // must not block: everything runs on this goroutine
			m.live = false
			r.Tracef("%d unsub s%d", i, op.Sub)
			r.Count("probe.unsubscribe", 1)
		case "stop":
			for id, m := range subs {
				got, _ := drain(m.s)
				if m.live && strings.Join(got, ",") != strings.Join(m.want, ",") {
					r.Violate("delivery-mismatch", "before-stop", "op %d: subscriber s%d received [%s], expected [%s]", i, id, strings.Join(got, ","), strings.Join(m.want, ","))
					return
				}
				m.want = nil
			}
			d.Stop()
			stopped = true
			for _, m := range subs {
				m.live = false
			}
			r.Tracef("%d stop", i)
			r.Count("probe.stop", 1)
		}
	}
	for id, m := range subs {
		got, _ := drain(m.s)
		if m.live && strings.Join(got, ",") != strings.Join(m.want, ",") {
			r.Violate("delivery-mismatch", "final", "subscriber s%d received [%s], expected [%s]", id, strings.Join(got, ","), strings.Join(m.want, ","))
			return
		}
		if !m.live && len(got) > 0 && len(m.want) == 0 {
			// events delivered after unsubscribe / stop
			r.Violate("delivery-after-unsubscribe", "", "subscriber s%d received [%s] after it was unsubscribed or the dispatcher stopped", id, strings.Join(got, ","))
			return
		}
	}
	if n > 0 && len(subs) > 0 {
		r.NonTrivial()
	}
}

// concurrent mode: tasks issue their ops at the same time. Subscriptions are
// created before the tasks start and unsubscribed by tasks; the oracle is the
// per-(poster, subscriber) order and exactly-once rule on the recorded history.
func execConcurrent(p *Plan, r *simkit.Run) {
	d := event.NewDispatcher()
	const nsubs = 3
	subs := make([]*event.Subscription, nsubs)
	types := make([]map[int]bool, nsubs)
	for i := 0; i < nsubs; i++ {
		tm := map[int]bool{i % 3: true, (i + 1) % 3: true}
		var protos []interface{}
		for t := range tm {
			protos = append(protos, proto(t))
		}
		s, err := d.Subscribe(protos...)
		if err != nil {
			r.Violate("subscribe-error", "", "%v", err)
			return
		}
		subs[i], types[i] = s, tm
	}
	type posted struct {
		who, typ, n int
		ok          bool
	}
	perTask := make([][]posted, p.Tasks)
	unsubBy := make([]int, nsubs) // which task unsubscribed it (-1 none)
	for i := range unsubBy {
		unsubBy[i] = -1
	}
	stopBy := -1
	if len(p.Tape) == 0 {
		p.Tape = []int{0}
	}
	ti := 0
	sched := simrt.New(func(n int) int { v := p.Tape[ti%len(p.Tape)]; ti++; return v % n })
	defer sched.Stop()
	sched.Progress = func() { r.Count("simrt.loop", 1) }
	for w := 0; w < p.Tasks; w++ {
		w := w
		sched.Client(fmt.Sprintf("task%d", w), func() {
			n := 0
			for _, op := range p.Ops {
				if op.Who%p.Tasks != w {
					continue
				}
				switch op.Kind {
				case "post":
					n++
					err := d.Post(mk(op.Type, w*1000+n))
					perTask[w] = append(perTask[w], posted{w, op.Type % 3, w*1000 + n, err == nil})
				case "unsub":
					if w == 0 { // one owner per decision keeps the oracle simple
						subs[op.Sub%nsubs].Unsubscribe()
					}
				case "stop":
					if w == 1 {
						d.Stop()
					}
				}
			}
		})
	}
	for _, op := range p.Ops {
		if op.Kind == "unsub" && op.Who%p.Tasks == 0 {
			unsubBy[op.Sub%nsubs] = 0
		}
		if op.Kind == "stop" && op.Who%p.Tasks == 1 {
			stopBy = 1
		}
	}
	sched.Run(time.Hour, 2000000) // every interleaving decision comes from the tape
	r.Count("simrt.steps", sched.Steps)
	if sched.Deadlock != "" {
		r.Violate("call-never-returns", strings.Join(sched.LockSites(), "|"), "Post / Unsubscribe / Stop did not all return: %s", sched.Deadlock)
		return
	}
	sched.Stop()
	synctest.Wait()
	total := 0
	for i, s := range subs {
		got, _ := drain(s)
		seen := map[string]bool{}
		last := map[int]int{} // per poster: last sequence number seen
		for _, g := range got {
			if seen[g] {
				r.Violate("duplicate-delivery", "", "subscriber s%d received %s twice", i, g)
				return
			}
			seen[g] = true
			var typ byte
			var n int
			fmt.Sscanf(g, "%c%d", &typ, &n)
			if !types[i][int(typ-'A')] {
				r.Violate("wrong-type-delivered", "", "subscriber s%d received %s, a type it did not subscribe", i, g)
				return
			}
			who := n / 1000
			if n <= last[who] {
				r.Violate("out-of-order", "", "subscriber s%d received %s after event %d of the same poster", i, g, last[who])
				return
			}
			last[who] = n
		}
		// completeness: with no unsubscribe of this subscriber and no stop, every successful post of its types arrives
		if unsubBy[i] < 0 && stopBy < 0 {
			for _, ps := range perTask {
				for _, pe := range ps {
					if pe.ok && types[i][pe.typ] && !seen[describe(mk(pe.typ, pe.n))] {
						r.Violate("event-lost", "", "subscriber s%d never received %s although it stayed subscribed and the dispatcher was not stopped", i, describe(mk(pe.typ, pe.n)))
						return
					}
				}
			}
		}
		total += len(got)
	}
	// posts after Stop returned fail: only checkable for the stopping task's own later posts
	r.Count("concurrent.delivered", total)
	r.Count("concurrent.runs", 1)
	if p.Tasks >= 2 && total > 0 {
		r.NonTrivial()
	}
}

func exec(t *testing.T, plan any, r *simkit.Run) {
	p := plan.(*Plan)
	bubble(t, func() {
		if p.Concurrent {
			execConcurrent(p, r)
		} else {
			execSequential(p, r)
		}
	})
}

// SpecC39 is the C39 check.
func SpecC39() simkit.Spec {
	return simkit.Spec{
		ReplayAttempts: 8, Prop: "C39", Gen: gen, NewPlan: func() any { return &Plan{} }, Exec: exec,
		Rule: "histories of up to 40 subscribe (1-3 of three event types) / post / unsubscribe / stop / clock-advance operations on the real dispatcher under a simulated clock; two thirds run sequentially against a reference bus (per subscriber: exactly the posts of its types issued after Subscribe and before Unsubscribe/Stop, in order, once; Post after Stop fails; nothing arrives after Unsubscribe), one third run as 2-4 tasks under the cooperative scheduler (the event package is instrumented: every lock operation is a yield point, the plan's tape picks the next task; a lock cycle is reported with its wait-for description) with a history check (no duplicate, per-poster order, subscribed types only, nothing lost while subscribed and running; every call returns); buffers are never filled; non-trivial = at least one post reached a subscriber; distinct = hash of the op trace",
		Components: map[string]string{"event.Dispatcher / Subscription": "real", "clock": "simulated (testing/synctest)", "subscribers, posters": "harness tasks"},
		Assumptions: []string{"in concurrent mode only order-independent facts are checked (the real-time order of posts by different tasks is not compared)", "the buffer-full exception of the property is never exercised (65536 slots)"},
		Probes:      []string{"probe.unsubscribe", "probe.stop", "concurrent.runs"},
	}
}
