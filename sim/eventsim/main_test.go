package eventsim

import (
	"testing"

	"verif/sim/simkit"
)

func TestC39(t *testing.T) { simkit.Main(t, SpecC39()) }
