// Package simrt is the cooperative task scheduler of the simulator: when it is
// active, every goroutine of the instrumented Bytom packages is a task, exactly
// one task runs at a time, and the choice of who runs next at every yield point
// (lock operations, task start, channel operations) is drawn from the run's
// plan. Blocking on locks is expressed as "park until the scheduler grants", so
// the wait-for graph is explicit and a lock cycle is reported as a deadlock with
// the tasks and sites involved. When no scheduler is active the same entry
// points fall back to the plain runtime behaviour, so instrumented packages
// behave exactly as before in every other engine.
//
// The scheduler relies on testing/synctest for quiescence: after granting a task
// it calls synctest.Wait(), which returns when every goroutine of the bubble is
// durably blocked (parked on its grant channel, on a channel of the code under
// test, on a timer) or finished.
package simrt

import (
	"fmt"
	"runtime"
	"sort"
	"strconv"
	"strings"
	"sync"
	"testing/synctest"
	"time"
)

// waitKind says what a parked task waits for.
type waitKind int

const (
	waitRun waitKind = iota // just wants to continue
	waitLock
	waitRLock
	waitCond
)

// Task is one scheduled goroutine.
type Task struct {
	ID     int
	Name   string
	Client bool // the run ends when all client tasks are done
	grant  chan struct{}
	parked bool
	done   bool
	kind   waitKind
	obj    any    // *simsync.Mutex / RWMutex state key / cond
	site   string // where it parked
	held   map[any]int
	steps  int
}

// lockState is the scheduler's view of one mutex.
type lockState struct {
	writer  *Task
	readers map[*Task]int
}

// Sched is one scheduler instance (one per run).
type Sched struct {
	mu      sync.Mutex // protects everything below; never contended (one runner at a time)
	tasks   []*Task
	byGID   map[uint64]*Task
	locks   map[any]*lockState
	conds   map[any][]*Task // waiters per cond, in arrival order
	Choose  func(n int) int // n >= 1: index of the eligible task to run
	Steps   int
	Trace   func(format string, args ...any)
	// Progress, if set, is called now and then from Run (liveness signal for a watchdog).
	Progress func()
	started bool
	// Deadlock is filled when Run ends because no task can make progress.
	Deadlock string
}

var (
	activeMu sync.Mutex
	active   *Sched
)

// Active returns the running scheduler or nil.
func Active() *Sched {
	activeMu.Lock()
	defer activeMu.Unlock()
	return active
}

// New creates a scheduler and makes it the active one.
func New(choose func(n int) int) *Sched {
	s := &Sched{byGID: map[uint64]*Task{}, locks: map[any]*lockState{}, conds: map[any][]*Task{}, Choose: choose}
	activeMu.Lock()
	active = s
	activeMu.Unlock()
	return s
}

// Stop deactivates the scheduler. Tasks still parked stay parked for ever.
func (s *Sched) Stop() {
	activeMu.Lock()
	if active == s {
		active = nil
	}
	activeMu.Unlock()
}

func gid() uint64 {
	var buf [64]byte
	n := runtime.Stack(buf[:], false)
	// "goroutine 123 [running]:"
	f := strings.Fields(string(buf[:n]))
	if len(f) < 2 {
		return 0
	}
	id, _ := strconv.ParseUint(f[1], 10, 64)
	return id
}

func site(skip int) string {
	_, file, line, ok := runtime.Caller(skip)
	if !ok {
		return "?"
	}
	for _, root := range []string{"/protocol/", "/event/", "/account/", "/wallet/", "/database/", "/netsync/", "/p2p/", "/proposal/"} {
		if i := strings.Index(file, root); i >= 0 {
			file = file[i+1:]
			break
		}
	}
	return fmt.Sprintf("%s:%d", file, line)
}

// current returns the calling goroutine's task, or nil if it is not a task.
func (s *Sched) current() *Task {
	g := gid()
	s.mu.Lock()
	t := s.byGID[g]
	s.mu.Unlock()
	return t
}

// spawn starts f as a task. It parks immediately (task start is a yield point).
func (s *Sched) spawn(name string, client bool, f func()) *Task {
	s.mu.Lock()
	t := &Task{ID: len(s.tasks), Name: name, Client: client, grant: make(chan struct{}), held: map[any]int{}}
	s.tasks = append(s.tasks, t)
	s.mu.Unlock()
	ready := make(chan struct{})
	go func() {
		g := gid()
		s.mu.Lock()
		s.byGID[g] = t
		t.parked, t.kind, t.site = true, waitRun, "start"
		s.mu.Unlock()
		close(ready)
		<-t.grant
		defer func() {
			s.mu.Lock()
			t.done = true
			delete(s.byGID, g)
			s.mu.Unlock()
		}()
		f()
	}()
	<-ready
	return t
}

// Client starts a harness client task (the run ends when all clients are done).
func (s *Sched) Client(name string, f func()) *Task { return s.spawn(name, true, f) }

// Go is what `go f()` becomes in instrumented code.
func Go(f func()) {
	s := Active()
	if s == nil {
		go f()
		return
	}
	s.spawn("go@"+site(2), false, f)
}

// park blocks the calling task until the scheduler grants it.
func (s *Sched) park(t *Task, kind waitKind, obj any, where string) {
	s.mu.Lock()
	t.parked, t.kind, t.obj, t.site = true, kind, obj, where
	s.mu.Unlock()
	<-t.grant
}

// Yield is a scheduling point with no condition.
func Yield() {
	s := Active()
	if s == nil {
		return
	}
	if t := s.current(); t != nil {
		s.park(t, waitRun, nil, site(2))
	}
}

// ---- lock protocol used by simsync ----------------------------------------

// Acquire parks until the lock identified by key can be taken (write or read).
// It returns false when the caller is not a task (the caller then uses the real lock only).
func (s *Sched) Acquire(key any, read bool, where string) bool {
	t := s.current()
	if t == nil {
		return false
	}
	k := waitLock
	if read {
		k = waitRLock
	}
	s.park(t, k, key, where)
	return true
}

// Release updates the lock state; it is itself followed by a yield.
func (s *Sched) Release(key any, read bool, where string) bool {
	t := s.current()
	if t == nil {
		return false
	}
	s.mu.Lock()
	ls := s.locks[key]
	if ls != nil {
		if read {
			if ls.readers[t] > 0 {
				ls.readers[t]--
				if ls.readers[t] == 0 {
					delete(ls.readers, t)
				}
			}
		} else if ls.writer == t {
			ls.writer = nil
		}
	}
	if t.held[key] > 0 {
		t.held[key]--
		if t.held[key] == 0 {
			delete(t.held, key)
		}
	}
	s.mu.Unlock()
	s.park(t, waitRun, nil, where)
	return true
}

// CondWait: the caller holds lock key; release it, wait for a signal, re-acquire.
func (s *Sched) CondWait(cond any, key any, where string) bool {
	t := s.current()
	if t == nil {
		return false
	}
	s.mu.Lock()
	if ls := s.locks[key]; ls != nil && ls.writer == t {
		ls.writer = nil
	}
	delete(t.held, key)
	s.conds[cond] = append(s.conds[cond], t)
	s.mu.Unlock()
	s.park(t, waitCond, cond, where)
	// woken: now compete for the lock again
	s.park(t, waitLock, key, where)
	return true
}

// CondWake wakes one (all=false) or all waiters of cond.
func (s *Sched) CondWake(cond any, all bool) {
	s.mu.Lock()
	ws := s.conds[cond]
	if len(ws) > 0 {
		n := 1
		if all {
			n = len(ws)
		}
		for _, w := range ws[:n] {
			w.kind = waitRun // eligible to continue (it will then park for the lock)
		}
		s.conds[cond] = ws[n:]
	}
	s.mu.Unlock()
}

func (s *Sched) eligible(t *Task) bool {
	if !t.parked || t.done {
		return false
	}
	switch t.kind {
	case waitRun:
		return true
	case waitCond:
		return false
	case waitLock:
		ls := s.locks[t.obj]
		return ls == nil || (ls.writer == nil && len(ls.readers) == 0)
	case waitRLock:
		ls := s.locks[t.obj]
		if ls != nil && ls.writer != nil {
			return false
		}
		// sync.RWMutex semantics: a pending Lock excludes new readers (so a goroutine that
		// read-locks twice deadlocks when a writer arrives in between — exactly as in Go)
		for _, o := range s.tasks {
			if o != t && o.parked && !o.done && o.kind == waitLock && o.obj == t.obj {
				return false
			}
		}
		return true
	}
	return false
}

func (s *Sched) grantTo(t *Task) {
	switch t.kind {
	case waitLock:
		ls := s.locks[t.obj]
		if ls == nil {
			ls = &lockState{readers: map[*Task]int{}}
			s.locks[t.obj] = ls
		}
		ls.writer = t
		t.held[t.obj]++
	case waitRLock:
		ls := s.locks[t.obj]
		if ls == nil {
			ls = &lockState{readers: map[*Task]int{}}
			s.locks[t.obj] = ls
		}
		ls.readers[t]++
		t.held[t.obj]++
	}
	t.parked = false
	t.steps++
}

// Run schedules until every client task is done, or nothing can make progress.
// idleBudget is how much virtual time may pass with no runnable task (timers of
// the code under test may still fire) before the run is declared stuck.
func (s *Sched) Run(idleBudget time.Duration, maxSteps int) {
	idle := time.Duration(0)
	idleRounds := 0
	lastClient := time.Now() // virtual time of the last grant to a client task
	for {
		synctest.Wait()
		if time.Since(lastClient) > idleBudget {
			// daemon tasks (tickers) may run for ever; what counts is that no client has been
			// able to take a step for the whole budget of simulated time
			s.Deadlock = s.describeStuck()
			return
		}
		s.mu.Lock()
		clientsLeft := 0
		var el []*Task
		for _, t := range s.tasks {
			if t.Client && !t.done {
				clientsLeft++
			}
			if s.eligible(t) {
				el = append(el, t)
			}
		}
		if clientsLeft == 0 {
			s.mu.Unlock()
			return
		}
		if s.Steps >= maxSteps {
			s.Deadlock = fmt.Sprintf("step limit %d reached with %d client task(s) unfinished", maxSteps, clientsLeft)
			s.mu.Unlock()
			return
		}
		if len(el) == 0 {
			s.mu.Unlock()
			if idle >= idleBudget {
				s.Deadlock = s.describeStuck()
				return
			}
			// tasks blocked on channels / timers of the code under test: let virtual time pass,
			// in growing steps (1 s, 2 s, 4 s … capped at 10 min) so that a long budget costs few iterations
			step := time.Second << uint(idleRounds)
			if step > 10*time.Minute || step <= 0 {
				step = 10 * time.Minute
			}
			idleRounds++
			time.Sleep(step)
			idle += step
			if s.Progress != nil {
				s.Progress()
			}
			continue
		}
		idle, idleRounds = 0, 0
		if s.Progress != nil && s.Steps%256 == 0 {
			s.Progress()
		}
		sort.Slice(el, func(i, j int) bool { return el[i].ID < el[j].ID })
		pick := el[0]
		if len(el) > 1 && s.Choose != nil {
			pick = el[s.Choose(len(el))%len(el)]
		}
		s.grantTo(pick)
		if pick.Client {
			lastClient = time.Now()
		}
		s.Steps++
		if s.Trace != nil {
			s.Trace("t%d %s @%s (of %d)", pick.ID, pick.Name, pick.site, len(el))
		}
		s.mu.Unlock()
		pick.grant <- struct{}{}
	}
}

// describeStuck renders the wait-for situation.
func (s *Sched) describeStuck() string {
	s.mu.Lock()
	defer s.mu.Unlock()
	var sb strings.Builder
	sb.WriteString("no task can run:")
	for _, t := range s.tasks {
		if t.done {
			continue
		}
		state := "blocked outside the scheduler (channel/timer)"
		if t.parked {
			switch t.kind {
			case waitLock, waitRLock:
				holder := "?"
				if ls := s.locks[t.obj]; ls != nil {
					if ls.writer != nil {
						holder = fmt.Sprintf("t%d(%s)", ls.writer.ID, ls.writer.Name)
					} else {
						var hs []string
						for r := range ls.readers {
							hs = append(hs, fmt.Sprintf("t%d", r.ID))
						}
						sort.Strings(hs)
						holder = "readers " + strings.Join(hs, ",")
					}
				}
				state = fmt.Sprintf("waits for lock at %s held by %s", t.site, holder)
			case waitCond:
				state = "waits on condition at " + t.site
			default:
				state = "runnable at " + t.site
			}
		}
		role := "daemon"
		if t.Client {
			role = "client"
		}
		fmt.Fprintf(&sb, "\n  t%d %s [%s] %s", t.ID, t.Name, role, state)
	}
	return sb.String()
}

// LockSites returns the sorted, de-duplicated lock sites of the tasks that form a cycle in the
// wait-for graph (stable signature material: bystanders that merely queue behind the cycle, and how
// many of them there are, depend on the schedule). Without a cycle it returns the sites of every
// task stuck on a lock.
func (s *Sched) LockSites() []string {
	s.mu.Lock()
	defer s.mu.Unlock()
	waits := map[*Task][]*Task{} // task -> holders of the lock it waits for
	var stuck []*Task
	for _, t := range s.tasks {
		if t.done || !t.parked || (t.kind != waitLock && t.kind != waitRLock) {
			continue
		}
		stuck = append(stuck, t)
		if ls := s.locks[t.obj]; ls != nil {
			if ls.writer != nil {
				waits[t] = append(waits[t], ls.writer)
			}
			for r := range ls.readers {
				waits[t] = append(waits[t], r)
			}
		}
	}
	reaches := func(from, to *Task) bool {
		seen := map[*Task]bool{}
		stack := append([]*Task{}, waits[from]...)
		for len(stack) > 0 {
			x := stack[len(stack)-1]
			stack = stack[:len(stack)-1]
			if x == to {
				return true
			}
			if seen[x] {
				continue
			}
			seen[x] = true
			stack = append(stack, waits[x]...)
		}
		return false
	}
	set := map[string]bool{}
	for _, t := range stuck {
		if reaches(t, t) {
			set[t.site] = true
		}
	}
	if len(set) == 0 {
		for _, t := range stuck {
			set[t.site] = true
		}
	}
	out := make([]string, 0, len(set))
	for k := range set {
		out = append(out, k)
	}
	sort.Strings(out)
	return out
}
