// Package simkit is the worker side of the harness: it turns one property's
// (generator, executor) pair into seeded simulated runs, shrinks failures with
// rapid, writes replay files and a worker report that cmd/check merges into the
// evidence file.
//
// One run = one plan (a JSON-serialisable value drawn from rapid *before* the
// simulation starts) executed by Exec.  Exec must be a pure function of the plan
// and the code under test: it never reads a real clock or another random source.
package simkit

import (
	"bytes"
	"crypto/sha256"
	"encoding/binary"
	"encoding/json"
	"flag"
	"fmt"
	"os"
	"regexp"
	"runtime/debug"
	"runtime/pprof"
	"sort"
	"strconv"
	"strings"
	"sync/atomic"
	"testing"
	"time"

	"pgregory.net/rapid"
)

// Violation is what an oracle reports.
type Violation struct {
	Oracle string `json:"oracle"`
	// Sig is the stable signature (property + oracle + stable attributes); it is
	// what known findings are matched against and what replay must reproduce.
	Sig    string `json:"sig"`
	Detail string `json:"detail"`
}

// Run is the per-execution recorder handed to Exec.
type Run struct {
	Prop       string
	counters   map[string]int64
	nontrivial bool
	fp         []byte
	trace      []string
	simSeconds float64
	viol       *Violation
	progress   int64 // bumped by every recorder call; read by the hang watchdog
}

func newRun(prop string) *Run {
	return &Run{Prop: prop, counters: map[string]int64{}}
}

// Count adds n to a named counter (fault kind fired, probe hit, …).
func (r *Run) Count(name string, n int) {
	atomic.AddInt64(&r.progress, 1)
	r.counters[name] += int64(n)
}

// Tracef appends a line to the run's trace (kept for samples, capped) and feeds
// the run fingerprint.
func (r *Run) Tracef(format string, args ...any) {
	s := fmt.Sprintf(format, args...)
	r.FP(s)
	if len(r.trace) < 400 {
		r.trace = append(r.trace, s)
	}
}

// FP feeds the run fingerprint only.
func (r *Run) FP(s string) {
	atomic.AddInt64(&r.progress, 1)
	h := sha256.New()
	h.Write(r.fp)
	h.Write([]byte(s))
	r.fp = h.Sum(nil)[:16]
}

// NonTrivial marks the run as non-trivial by the property's stated rule.
func (r *Run) NonTrivial() { r.nontrivial = true }

// SimTime adds simulated seconds covered by this run.
func (r *Run) SimTime(d time.Duration) { r.simSeconds += d.Seconds() }

// Violate records the first violation of the run.
func (r *Run) Violate(oracle, sigAttrs, format string, args ...any) {
	if r.viol != nil {
		return
	}
	sig := r.Prop + "/" + oracle
	if sigAttrs != "" {
		sig += "/" + sigAttrs
	}
	r.viol = &Violation{Oracle: oracle, Sig: sig, Detail: fmt.Sprintf(format, args...)}
}

// NewScratchRun returns a recorder that is not reported anywhere: an engine can
// evaluate an oracle on it to classify a situation without committing to a violation.
func NewScratchRun(prop string) *Run { return newRun(prop) }

// Violation returns the recorded violation's signature and detail ("" if none).
func (r *Run) Violation() (sig, detail string) {
	if r.viol == nil {
		return "", ""
	}
	return r.viol.Sig, r.viol.Detail
}

// Failed reports whether a violation was recorded.
func (r *Run) Failed() bool { return r.viol != nil }

// Spec describes one property check.
type Spec struct {
	Prop string
	// Gen draws a plan. All randomness of a run comes from here.
	Gen func(rt *rapid.T) any
	// NewPlan returns a pointer to an empty plan for JSON decoding on replay.
	NewPlan func() any
	// Exec runs the plan. Plans decoded from JSON are passed as the pointer
	// NewPlan returned; Gen should therefore also return a pointer.
	Exec func(t *testing.T, plan any, r *Run)
	// Rule: how cases are generated and what makes a run non-trivial/distinct.
	Rule        string
	Components  map[string]string // component -> "real" | "stub: …"
	Assumptions []string
	FaultKinds  []string // counters that are fault kinds (reported even when 0)
	Probes      []string // counters that are rare-branch probes (flagged when 0)
	// ReplayAttempts > 1: a replay repeats the plan up to this many times (see Main).
	ReplayAttempts int
}

// Report is what a worker writes for cmd/check.
type Report struct {
	Prop         string            `json:"prop"`
	Mode         string            `json:"mode"`
	Seed         uint64            `json:"seed"`
	Evaluations  int               `json:"evaluations"`
	ShrinkRuns   int               `json:"shrink_runs"`
	NonTrivial   int               `json:"nontrivial"`
	Fingerprints []string          `json:"fingerprints"`
	Counters     map[string]int64  `json:"counters"`
	SimSeconds   float64           `json:"sim_seconds"`
	Samples      []Sample          `json:"samples"`
	Violations   []FoundViolation  `json:"violations"`
	Known        map[string]int    `json:"known"`
	Rule         string            `json:"rule"`
	Components   map[string]string `json:"components"`
	Assumptions  []string          `json:"assumptions"`
	FaultKinds   []string          `json:"fault_kinds"`
	Probes       []string          `json:"probes"`
	WallS        float64           `json:"wall_s"`
	Replay       *ReplayResult     `json:"replay,omitempty"`
	Complete     bool              `json:"complete"`
}

// Sample is one written-out run.
type Sample struct {
	Plan  json.RawMessage `json:"plan"`
	Trace []string        `json:"trace,omitempty"`
}

// FoundViolation is a violation plus where its replay file is.
type FoundViolation struct {
	Violation
	Replay string `json:"replay"`
}

// ReplayFile is the on-disk replay format.
type ReplayFile struct {
	Prop      string          `json:"property"`
	Sig       string          `json:"signature"`
	Oracle    string          `json:"oracle"`
	Detail    string          `json:"detail"`
	Seed      uint64          `json:"seed"`
	Minimised bool            `json:"minimised"`
	Plan      json.RawMessage `json:"plan"`
	Trace     []string        `json:"trace,omitempty"`
}

// ReplayResult is the outcome of a replay-mode worker.
type ReplayResult struct {
	Violated bool   `json:"violated"`
	Sig      string `json:"sig"`
	Detail   string `json:"detail"`
}

type knownFinding struct {
	Property  string `json:"property"`
	Signature string `json:"signature"` // regexp, anchored
	What      string `json:"what"`
	Status    string `json:"status"` // "known" | "fixed"
}

func loadKnown(prop string) []*regexp.Regexp {
	path := os.Getenv("VERIF_KNOWN")
	if path == "" {
		return nil
	}
	b, err := os.ReadFile(path)
	if err != nil {
		return nil
	}
	var all []knownFinding
	if err := json.Unmarshal(b, &all); err != nil {
		fmt.Fprintf(os.Stderr, "simkit: bad known findings file: %v\n", err)
		os.Exit(2)
	}
	var out []*regexp.Regexp
	for _, k := range all {
		if k.Property == prop && k.Status == "known" {
			out = append(out, regexp.MustCompile("^(?:"+k.Signature+")$"))
		}
	}
	return out
}

// captureTB is the rapid.TB handed to rapid.Check so that a falsified property
// is recorded instead of failing the Go test.
type captureTB struct {
	failed bool
	msgs   []string
}

type failNow struct{}

func (c *captureTB) Helper()                  {}
func (c *captureTB) Name() string             { return "simkit" }
func (c *captureTB) Logf(f string, a ...any)  {}
func (c *captureTB) Log(a ...any)             {}
func (c *captureTB) Skipf(f string, a ...any) { panic("skip") }
func (c *captureTB) Skip(a ...any)            { panic("skip") }
func (c *captureTB) SkipNow()                 { panic("skip") }
func (c *captureTB) Errorf(f string, a ...any) {
	c.failed = true
	c.msgs = append(c.msgs, fmt.Sprintf(f, a...))
}
func (c *captureTB) Error(a ...any)            { c.failed = true; c.msgs = append(c.msgs, fmt.Sprint(a...)) }
func (c *captureTB) Fatalf(f string, a ...any) { c.Errorf(f, a...); panic(failNow{}) }
func (c *captureTB) Fatal(a ...any)            { c.Error(a...); panic(failNow{}) }
func (c *captureTB) FailNow()                  { c.failed = true; panic(failNow{}) }
func (c *captureTB) Fail()                     { c.failed = true }
func (c *captureTB) Failed() bool              { return c.failed }

func envInt(name string, def int) int {
	if v := os.Getenv(name); v != "" {
		n, err := strconv.Atoi(v)
		if err == nil {
			return n
		}
	}
	return def
}

func envU64(name string, def uint64) uint64 {
	if v := os.Getenv(name); v != "" {
		n, err := strconv.ParseUint(v, 10, 64)
		if err == nil {
			return n
		}
	}
	return def
}

// SplitMix derives a stream of seeds.
func SplitMix(x uint64) uint64 {
	x += 0x9e3779b97f4a7c15
	z := x
	z = (z ^ (z >> 30)) * 0xbf58476d1ce4e5b9
	z = (z ^ (z >> 27)) * 0x94d049bb133111eb
	return z ^ (z >> 31)
}

// normalisePanic makes a stable signature attribute from a panic value+stack:
// the first frame inside github.com/bytom/bytom (function name only).
func normalisePanic(stack string) string {
	lines := strings.Split(stack, "\n")
	for _, l := range lines {
		if strings.HasPrefix(l, "github.com/bytom/bytom/") {
			fn := l
			if i := strings.LastIndex(fn, "("); i > 0 {
				fn = fn[:i]
			}
			return strings.TrimPrefix(fn, "github.com/bytom/bytom/")
		}
	}
	return "harness"
}

// CapturedPanic carries a panic recovered elsewhere (e.g. inside a synctest
// bubble) together with its original stack, to be re-raised on the exec goroutine.
type CapturedPanic struct {
	Val   any
	Stack string
}

// Capture is called from a deferred recover: it wraps p with the current stack.
func Capture(p any) *CapturedPanic {
	if cp, ok := p.(*CapturedPanic); ok {
		return cp
	}
	return &CapturedPanic{Val: p, Stack: string(debug.Stack())}
}

// ExecGuard runs Exec, converting a panic on the calling goroutine into a
// violation with oracle "panic".
func execGuard(t *testing.T, spec *Spec, plan any, r *Run) {
	// Real-time watchdog (outside any bubble): a run that does not finish is a
	// hang of the code under test (e.g. a lock cycle, which synctest cannot see as
	// durably blocked). It is reported like a crash: the worker dies with the
	// stack of the stuck run, the driver replays the write-ahead plan to confirm.
	limit := time.Duration(envInt("VERIF_EXEC_TIMEOUT_S", 150)) * time.Second
	stop := make(chan struct{})
	go func() {
		// fires only when the run made NO progress (no counter, trace or fingerprint
		// update) for the whole limit, so a slow run on a loaded machine is not a hang
		last := atomic.LoadInt64(&r.progress)
		idle := time.Duration(0)
		step := limit / 6
		for {
			select {
			case <-stop:
				return
			case <-time.After(step):
			}
			if cur := atomic.LoadInt64(&r.progress); cur != last {
				last, idle = cur, 0
				continue
			}
			if idle += step; idle < limit {
				continue
			}
			var buf bytes.Buffer
			pprof.Lookup("goroutine").WriteTo(&buf, 2)
			dump := buf.String()
			frame := "unknown"
			for _, g := range strings.Split(dump, "\n\n") {
				if !strings.Contains(g, "verif/sim/") || strings.Contains(g, "simkit.execGuard.func") {
					continue
				}
				for _, l := range strings.Split(g, "\n") {
					if strings.HasPrefix(l, "github.com/bytom/bytom/") {
						frame = l
						break
					}
				}
				if frame != "unknown" {
					break
				}
			}
			if len(dump) > 300000 {
				dump = dump[:300000]
			}
			fmt.Fprintf(os.Stderr, "panic: simkit watchdog: run made no progress for %v of real time (hang)\n%s\n\nall goroutines:\n%s\n", limit, frame, dump)
			os.Exit(3)
		}
	}()
	defer close(stop)
	defer func() {
		if p := recover(); p != nil {
			st := string(debug.Stack())
			if cp, ok := p.(*CapturedPanic); ok {
				p, st = cp.Val, cp.Stack
			}
			where := normalisePanic(st)
			if where == "harness" {
				// A harness bug must never be reported as a violation.
				fmt.Fprintf(os.Stderr, "simkit: HARNESS PANIC: %v\n%s\n", p, st)
				os.Exit(2)
			}
			r.Violate("panic", where, "panic: %v\n%s", p, trimStack(st))
		}
	}()
	spec.Exec(t, plan, r)
}

func trimStack(s string) string {
	lines := strings.Split(s, "\n")
	if len(lines) > 40 {
		lines = lines[:40]
	}
	return strings.Join(lines, "\n")
}

// Main is called from the engine's Test function.
func Main(t *testing.T, spec Spec) {
	mode := os.Getenv("VERIF_MODE")
	out := os.Getenv("VERIF_OUT")
	if mode == "" {
		mode = "search"
	}
	start := time.Now()
	rep := &Report{
		Prop: spec.Prop, Mode: mode, Counters: map[string]int64{}, Known: map[string]int{},
		Rule: spec.Rule, Components: spec.Components, Assumptions: spec.Assumptions,
		FaultKinds: spec.FaultKinds, Probes: spec.Probes,
	}
	writeReport := func() {
		rep.WallS = time.Since(start).Seconds()
		if out == "" {
			return
		}
		b, _ := json.Marshal(rep)
		tmp := out + ".tmp"
		if err := os.WriteFile(tmp, b, 0o644); err != nil {
			fmt.Fprintf(os.Stderr, "simkit: %v\n", err)
			os.Exit(2)
		}
		os.Rename(tmp, out)
	}

	if mode == "replay" {
		path := os.Getenv("VERIF_REPLAY")
		b, err := os.ReadFile(path)
		if err != nil {
			fmt.Fprintf(os.Stderr, "simkit: %v\n", err)
			os.Exit(2)
		}
		var rf ReplayFile
		if err := json.Unmarshal(b, &rf); err != nil {
			fmt.Fprintf(os.Stderr, "simkit: bad replay file: %v\n", err)
			os.Exit(2)
		}
		plan := spec.NewPlan()
		if err := json.Unmarshal(rf.Plan, plan); err != nil {
			fmt.Fprintf(os.Stderr, "simkit: bad plan in replay file: %v\n", err)
			os.Exit(2)
		}
		r := newRun(spec.Prop)
		if cur := os.Getenv("VERIF_CURRENT"); cur != "" {
			os.WriteFile(cur, b, 0o644)
		}
		execGuard(t, &spec, plan, r)
		// Concurrent scenarios contain Go `select` statements of the code under test with several
		// ready cases, which the runtime resolves at random: everything else is pinned by the plan.
		// A replay of such a scenario repeats the identical plan a few times until the recorded
		// signature shows again.
		for attempt := 1; attempt < spec.ReplayAttempts && (r.viol == nil || (rf.Sig != "" && r.viol.Sig != rf.Sig)); attempt++ {
			r = newRun(spec.Prop)
			plan = spec.NewPlan()
			json.Unmarshal(rf.Plan, plan)
			execGuard(t, &spec, plan, r)
		}
		rep.Evaluations = 1
		rep.Replay = &ReplayResult{}
		if r.viol != nil {
			rep.Replay.Violated = true
			rep.Replay.Sig = r.viol.Sig
			rep.Replay.Detail = r.viol.Detail
		}
		if os.Getenv("VERIF_VERBOSE") != "" {
			for _, l := range r.trace {
				fmt.Println(l)
			}
			if r.viol != nil {
				fmt.Printf("violation: %s\n%s\n", r.viol.Sig, r.viol.Detail)
			}
		}
		rep.Complete = true
		writeReport()
		return
	}

	seed := envU64("VERIF_WORKER_SEED", 1)
	total := envInt("VERIF_CHECKS", 100)
	chunk := envInt("VERIF_CHUNK", 64)
	deadlineS := envInt("VERIF_DEADLINE_S", 0)
	replayDir := os.Getenv("VERIF_REPLAY_DIR")
	current := os.Getenv("VERIF_CURRENT")
	maxViol := envInt("VERIF_MAX_VIOLATIONS", 3)
	known := loadKnown(spec.Prop)
	rep.Seed = seed
	fps := map[string]struct{}{}
	flag.Set("rapid.nofailfile", "true")
	if st := os.Getenv("VERIF_SHRINKTIME"); st != "" {
		flag.Set("rapid.shrinktime", st)
	}

	var deadline time.Time
	if deadlineS > 0 {
		deadline = start.Add(time.Duration(deadlineS) * time.Second)
	}

	done := 0
	chunkNo := uint64(0)
	foundSigs := map[string]bool{}
	for done < total {
		if !deadline.IsZero() && time.Now().After(deadline) {
			break
		}
		n := chunk
		if total-done < n {
			n = total - done
		}
		chunkSeed := SplitMix(seed ^ SplitMix(chunkNo+1))
		if chunkSeed == 0 {
			chunkSeed = 1
		}
		chunkNo++
		flag.Set("rapid.seed", strconv.FormatUint(chunkSeed, 10))
		flag.Set("rapid.checks", strconv.Itoa(n))

		var target string // signature being shrunk
		var last *ReplayFile
		var lastViol *Violation
		execs := 0
		shrinking := false
		tb := &captureTB{}
		func() {
			defer func() {
				if p := recover(); p != nil {
					if _, ok := p.(failNow); !ok {
						panic(p)
					}
				}
			}()
			rapid.Check(tb, func(rt *rapid.T) {
				plan := spec.Gen(rt)
				pj, err := json.Marshal(plan)
				if err != nil {
					fmt.Fprintf(os.Stderr, "simkit: plan not serialisable: %v\n", err)
					os.Exit(2)
				}
				if current != "" {
					cf, _ := json.Marshal(&ReplayFile{Prop: spec.Prop, Sig: spec.Prop + "/process-died", Oracle: "process-died", Seed: chunkSeed, Plan: pj})
					os.WriteFile(current, cf, 0o644)
				}
				r := newRun(spec.Prop)
				execGuard(t, &spec, plan, r)
				execs++
				if !shrinking {
					if !deadline.IsZero() && execs%8 == 0 && time.Now().After(deadline) && r.viol == nil {
						// budget exhausted: let rapid finish quickly by not failing
					}
					rep.Evaluations++
					for k, v := range r.counters {
						rep.Counters[k] += v
					}
					rep.SimSeconds += r.simSeconds
					if r.nontrivial {
						rep.NonTrivial++
						fps[fmt.Sprintf("%x", r.fp)] = struct{}{}
					}
					if len(rep.Samples) < 2 && r.nontrivial {
						rep.Samples = append(rep.Samples, Sample{Plan: pj, Trace: capTrace(r.trace, 60)})
					}
				} else {
					rep.ShrinkRuns++
				}
				if r.viol == nil {
					return
				}
				for _, re := range known {
					if re.MatchString(r.viol.Sig) {
						if !shrinking {
							rep.Known[r.viol.Sig]++
						}
						return
					}
				}
				if foundSigs[r.viol.Sig] && !shrinking {
					return // already reported by this worker
				}
				if target == "" {
					target = r.viol.Sig
					shrinking = true
				} else if r.viol.Sig != target {
					return // keep shrinking the same violation class
				}
				last = &ReplayFile{Prop: spec.Prop, Sig: r.viol.Sig, Oracle: r.viol.Oracle, Detail: r.viol.Detail,
					Seed: chunkSeed, Minimised: true, Plan: pj, Trace: capTrace(r.trace, 400)}
				lastViol = r.viol
				rt.Fatalf("%s", r.viol.Sig)
			})
		}()
		if last != nil {
			foundSigs[last.Sig] = true
			path := ""
			if replayDir != "" {
				os.MkdirAll(replayDir, 0o755)
				sum := sha256.Sum256([]byte(last.Sig))
				path = fmt.Sprintf("%s/%s-%d-%x.json", replayDir, spec.Prop, chunkSeed, sum[:4])
				b, _ := json.MarshalIndent(last, "", " ")
				if err := os.WriteFile(path, b, 0o644); err != nil {
					fmt.Fprintf(os.Stderr, "simkit: %v\n", err)
					os.Exit(2)
				}
			}
			rep.Violations = append(rep.Violations, FoundViolation{Violation: *lastViol, Replay: path})
			// rapid stops a Check at the first failure; account only for what ran.
			done += n
			if len(rep.Violations) >= maxViol {
				break
			}
			continue
		} else if tb.failed {
			fmt.Fprintf(os.Stderr, "simkit: rapid reported failure without a violation: %v\n", tb.msgs)
			os.Exit(2)
		}
		done += n
	}
	for k := range fps {
		rep.Fingerprints = append(rep.Fingerprints, k)
	}
	sort.Strings(rep.Fingerprints)
	rep.Complete = true
	if current != "" {
		os.Remove(current)
	}
	writeReport()
}

func capTrace(t []string, n int) []string {
	if len(t) > n {
		out := append([]string{}, t[:n-1]...)
		return append(out, fmt.Sprintf("… (%d more lines)", len(t)-n+1))
	}
	return t
}

// U64 renders for fingerprints.
func U64(x uint64) string {
	var b [8]byte
	binary.BigEndian.PutUint64(b[:], x)
	return fmt.Sprintf("%x", b)
}
