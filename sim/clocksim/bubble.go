// Package clocksim decides C35 (ban score decay) and C36 (RPC access control)
// under a simulated clock: every run executes inside one testing/synctest
// bubble, so time.Now / time.Sleep in the code under test read a fake clock that
// the plan advances by exact amounts.
package clocksim

import (
	"fmt"
	"os"
	"runtime/debug"
	"strings"
	"testing"
	"testing/synctest"
	"time"

	"verif/sim/simkit"
)

// inBubble runs f inside a synctest bubble. A panic raised under a Bytom frame
// becomes a violation (oracle "panic"); any other panic is a harness bug.
func inBubble(t *testing.T, r *simkit.Run, f func()) {
	var pv any
	var stack string
	func() {
		defer func() {
			if p := recover(); p != nil {
				msg := fmt.Sprint(p)
				// Only the end-of-bubble complaint about goroutines that never
				// end may be swallowed (none are expected in this engine).
				if strings.Contains(msg, "deadlock") || strings.Contains(msg, "blocked goroutines") {
					return
				}
				panic(p)
			}
		}()
		synctest.Test(t, func(t *testing.T) {
			defer func() {
				if p := recover(); p != nil {
					pv = p
					stack = string(debug.Stack())
				}
			}()
			f()
		})
	}()
	if pv == nil {
		return
	}
	where := ""
	for _, l := range strings.Split(stack, "\n") {
		if strings.HasPrefix(l, "github.com/bytom/bytom/") {
			fn := l
			if i := strings.LastIndex(fn, "("); i > 0 {
				fn = fn[:i]
			}
			where = strings.TrimPrefix(fn, "github.com/bytom/bytom/")
			break
		}
	}
	if where == "" {
		fmt.Fprintf(os.Stderr, "clocksim: HARNESS PANIC inside bubble: %v\n%s\n", pv, stack)
		os.Exit(2)
	}
	lines := strings.Split(stack, "\n")
	if len(lines) > 40 {
		lines = lines[:40]
	}
	r.Violate("panic", where, "panic: %v\n%s", pv, strings.Join(lines, "\n"))
}

// advance sleeps d of virtual time and verifies that the bubble clock moved by
// exactly d (anything else means the harness is not in control of time).
func advance(start time.Time, elapsed *time.Duration, d time.Duration) {
	if d > 0 {
		time.Sleep(d)
		*elapsed += d
	}
	if got := time.Since(start); got != *elapsed {
		fmt.Fprintf(os.Stderr, "clocksim: HARNESS: virtual clock at %v, plan says %v\n", got, *elapsed)
		os.Exit(2)
	}
}
