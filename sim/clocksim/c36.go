package clocksim

import (
	"encoding/base64"
	"fmt"
	"net/http"
	"net/url"
	"os"
	"strings"
	"testing"
	"time"

	"github.com/bytom/bytom/accesstoken"
	"github.com/bytom/bytom/net/http/authn"
	"pgregory.net/rapid"

	"verif/sim/simdisk"
	"verif/sim/simkit"
)

// AuthOp is one step of a C36 history. Indices are interpreted modulo the live
// state, so every tape is executable.
type AuthOp struct {
	Kind    string `json:"k"`                  // create | delete | sleep | req
	ID      int    `json:"id,omitempty"`       // create: index into tokenIDs
	Tok     int    `json:"tok,omitempty"`      // delete / req: index into the issued tokens
	SleepMS int64  `json:"sleep_ms,omitempty"` // sleep: virtual milliseconds
	Origin  int    `json:"origin,omitempty"`   // req: index into origins
	Path    int    `json:"path,omitempty"`     // req: index into paths
	Cred    int    `json:"cred,omitempty"`     // req: index into credKinds
	Var     int    `json:"var,omitempty"`      // req: split position / variant of the credential kind
}

// C36Plan is one history.
type C36Plan struct {
	Ops []AuthOp `json:"ops"`
}

// What the statement names.
const refCacheWindow = 5 * time.Minute // "the documented 5-minute cache window"

// Short ids over a tiny alphabet, so that a prefix of one id+secret is often
// another id.
var tokenIDs = []string{"a", "ab", "abc", "b", "bc", "a-b", "A", "0", "a_", "ab1"}

// origins: the loopback flag is the reference (127.0.0.0/8 and ::1 are
// loopback, everything else is not).
var origins = []struct {
	addr     string
	loopback bool
}{
	{"127.0.0.1:51000", true},
	{"10.1.2.3:40000", false},
	{"192.168.1.7:8080", false},
	{"8.8.8.8:53", false},
	{"[::1]:51000", true},
	{"[2001:db8::1]:443", false},
	{"128.0.0.1:80", false},
	{"126.255.255.255:80", false},
	{"127.8.9.10:1", true},
	{"[::ffff:10.0.0.1]:80", false},
	{"[::2]:80", false},
	{"1.127.0.0:80", false},
	{"[fe80::1]:80", false},
	{"0.0.0.0:80", false},
	{"172.16.0.1:65535", false},
}

// paths: localOnly is the reference ("wallet backup/restore and token listing").
var paths = []struct {
	path      string
	localOnly bool
}{
	{"/list-balances", false},
	{"/backup-wallet", true},
	{"/restore-wallet", true},
	{"/list-access-tokens", true},
	{"/create-account", false},
	{"/create-access-token", false},
	{"/delete-access-token", false},
	{"/check-access-token", false},
	{"/sign-transaction", false},
	{"/net-info", false},
	{"/", false},
	{"/wallet-info", false},
}

var credKinds = []string{"none", "exact", "resplit", "wrong-secret", "unknown-id", "raw-token", "malformed", "swapped"}

func genSleepMS(rt *rapid.T) int64 {
	switch rapid.IntRange(0, 10).Draw(rt, "sleepclass") {
	case 0:
		return 1000
	case 1:
		return 60 * 1000
	case 2:
		return 299 * 1000
	case 3:
		return 300*1000 - 1
	case 4:
		return 300 * 1000
	case 5:
		return 300*1000 + 1
	case 6:
		return 301 * 1000
	case 7:
		return 600 * 1000
	case 8:
		return 3600 * 1000 * int64(rapid.IntRange(1, 24).Draw(rt, "hours"))
	case 9:
		return int64(rapid.IntRange(1, 299).Draw(rt, "secs")) * 1000
	default:
		return int64(rapid.IntRange(1, 999).Draw(rt, "ms"))
	}
}

func genAuthOp(rt *rapid.T) AuthOp {
	var op AuthOp
	switch k := rapid.IntRange(0, 19).Draw(rt, "kind"); {
	case k < 10:
		op = AuthOp{Kind: "req"}
		// three of four requests come from outside
		if rapid.IntRange(0, 3).Draw(rt, "local") == 3 {
			op.Origin = []int{0, 4, 8}[rapid.IntRange(0, 2).Draw(rt, "lo")]
		} else {
			op.Origin = rapid.IntRange(0, len(origins)-1).Draw(rt, "origin")
		}
		op.Path = rapid.IntRange(0, len(paths)-1).Draw(rt, "path")
		switch c := rapid.IntRange(0, 15).Draw(rt, "cred"); {
		case c < 1:
			op.Cred = 0
		case c < 5:
			op.Cred = 1
		case c < 9:
			op.Cred = 2
		case c < 11:
			op.Cred = 3
		default:
			op.Cred = c - 11 + 3 // 3..7
		}
		op.Tok = rapid.IntRange(0, 5).Draw(rt, "tok")
		if rapid.IntRange(0, 3).Draw(rt, "varfar") == 3 {
			op.Var = rapid.IntRange(0, 70).Draw(rt, "var")
		} else {
			op.Var = rapid.IntRange(0, 7).Draw(rt, "varnear")
		}
	case k < 14:
		op = AuthOp{Kind: "create", ID: rapid.IntRange(0, len(tokenIDs)-1).Draw(rt, "id")}
	case k < 16:
		op = AuthOp{Kind: "delete", Tok: rapid.IntRange(0, 5).Draw(rt, "tok")}
	default:
		op = AuthOp{Kind: "sleep", SleepMS: genSleepMS(rt)}
	}
	return op
}

func genC36(rt *rapid.T) any {
	// Three segments instead of one slice: rapid's slice lengths are skewed
	// towards short, and element deletion (the useful shrink) works per slice.
	g := rapid.Custom(genAuthOp)
	ops := rapid.SliceOfN(g, 1, 14).Draw(rt, "ops")
	ops = append(ops, rapid.SliceOfN(g, 0, 14).Draw(rt, "ops2")...)
	ops = append(ops, rapid.SliceOfN(g, 0, 14).Draw(rt, "ops3")...)
	return &C36Plan{Ops: ops}
}

// issuedToken is the reference's record of one Create that succeeded. The secret
// comes from crypto/rand: it is used to build requests and to compare
// credentials, and never appears in a trace line, a signature or a decision
// other than string equality.
type issuedToken struct {
	id        string
	secret    string
	live      bool
	deletedAt time.Duration
}

// aclRef is the reference ACL.
type aclRef struct {
	issued []*issuedToken
}

// authorised: "credentials are exactly an issued token's id and secret; the
// token must be live, or deleted within the 5-minute cache window".
func (a *aclRef) authorised(hasCred bool, user, pw string, now time.Duration) (bool, string) {
	if !hasCred {
		return false, "no-credentials"
	}
	state := "no-such-token"
	for _, tk := range a.issued {
		if tk.id != user || tk.secret != pw {
			continue
		}
		if tk.live {
			return true, "live"
		}
		if now-tk.deletedAt <= refCacheWindow {
			return true, "deleted-in-window"
		}
		state = "deleted-expired"
	}
	return false, state
}

func basic(user, pw string) string {
	return "Basic " + base64.StdEncoding.EncodeToString([]byte(user+":"+pw))
}

func flip(c byte) byte {
	if c == '0' {
		return '1'
	}
	return '0'
}

// buildCred returns the Authorization header (empty = none) and the
// credentials it carries by RFC 7617 (user up to the first colon).
func buildCred(op *AuthOp, tk *issuedToken, all []*issuedToken) (header string, hasCred bool, user, pw, desc string) {
	kind := credKinds[mod(op.Cred, len(credKinds))]
	if tk == nil {
		// nothing issued yet: a made-up pair
		switch kind {
		case "none", "malformed":
		default:
			user, pw = tokenIDs[mod(op.Var, len(tokenIDs))], strings.Repeat("0", 64)
			return basic(user, pw), true, user, pw, "made-up"
		}
	}
	switch kind {
	case "none":
		return "", false, "", "", "none"
	case "exact":
		user, pw = tk.id, tk.secret
	case "raw-token":
		// the usual client side: base64 of the token string "id:secret"
		user, pw = tk.id, tk.secret
		return "Basic " + base64.StdEncoding.EncodeToString([]byte(tk.id+":"+tk.secret)), true, user, pw, "raw-token"
	case "resplit":
		cat := tk.id + tk.secret
		k := mod(op.Var, len(cat)+1)
		user, pw = cat[:k], cat[k:]
		desc = fmt.Sprintf("resplit@%d(idlen=%d)", k, len(tk.id))
	case "wrong-secret":
		user = tk.id
		s := tk.secret
		v := mod(op.Var, 8)
		switch v {
		case 0:
			pw = string(flip(s[0])) + s[1:]
		case 1:
			pw = s[:len(s)-1] + string(flip(s[len(s)-1]))
		case 2:
			pw = s[:len(s)-1]
		case 3:
			pw = s + "0"
		case 4:
			pw = ""
		case 5:
			pw = strings.ToUpper(s)
			if pw == s { // no letter in the secret (probability 1e-13): make it differ anyway
				pw = s + "A"
			}
		case 6:
			other := all[mod(op.Var/8+1, len(all))]
			pw = other.secret
		case 7:
			pw = tk.id + ":" + s
		}
		desc = fmt.Sprintf("wrong-secret#%d", v)
	case "unknown-id":
		v := mod(op.Var, 4)
		switch v {
		case 0:
			user = tk.id + "x"
		case 1:
			user = "zz"
		case 2:
			user = ""
		case 3:
			user = strings.ToUpper(tk.id)
			if user == tk.id {
				user = strings.ToLower(tk.id)
			}
			if user == tk.id {
				user = tk.id + "Z"
			}
		}
		pw = tk.secret
		desc = fmt.Sprintf("unknown-id#%d", v)
	case "swapped":
		user, pw = tk.secret, tk.id
	case "malformed":
		tok := "x:y"
		if tk != nil {
			tok = tk.id + ":" + tk.secret
		}
		v := mod(op.Var, 4)
		switch v {
		case 0:
			header = "Bearer " + tok
		case 1:
			header = "Basic %%%not-base64%%%"
		case 2: // valid base64 but no colon inside
			header = "Basic " + base64.StdEncoding.EncodeToString([]byte(strings.Replace(tok, ":", "", 1)))
		case 3:
			header = "Basic"
		}
		return header, false, "", "", fmt.Sprintf("malformed#%d", v)
	}
	if desc == "" {
		desc = kind
	}
	return basic(user, pw), true, user, pw, desc
}

func mod(a, n int) int {
	if n <= 0 {
		return 0
	}
	a %= n
	if a < 0 {
		a += n
	}
	return a
}

func execC36(t *testing.T, plan any, r *simkit.Run) {
	p := plan.(*C36Plan)
	inBubble(t, r, func() { runC36(p, r) })
}

func runC36(p *C36Plan, r *simkit.Run) {
	db := simdisk.New()
	store := accesstoken.NewStore(db)
	api := authn.NewAPI(store, false) // authentication enabled
	ref := &aclRef{}
	start := time.Now()
	var now time.Duration
	kinds := map[string]bool{}
	outsideReqs := 0

	for i := range p.Ops {
		op := &p.Ops[i]
		switch op.Kind {
		case "sleep":
			d := time.Duration(op.SleepMS) * time.Millisecond
			if d < 0 {
				d = 0
			}
			advance(start, &now, d)
			r.SimTime(d)
			if d >= refCacheWindow {
				r.Count("fault.clock_jump", 1)
			}
			r.Tracef("%d sleep %v (t=%v)", i, d, now)

		case "create":
			id := tokenIDs[mod(op.ID, len(tokenIDs))]
			tok, err := store.Create(id, "client")
			liveDup := false
			for _, tk := range ref.issued {
				if tk.id == id && tk.live {
					liveDup = true
				}
			}
			if err != nil {
				r.Tracef("%d create %q -> refused (live duplicate in reference: %v)", i, id, liveDup)
				continue
			}
			if !strings.HasPrefix(tok.Token, id+":") || len(tok.Token) == len(id)+1 {
				// the documented token format is "id:secret"; without it no
				// credentials can be derived
				r.Violate("token-format", "", "op %d: Create(%q) returned a token string that is not %q followed by a secret", i, id, id+":")
				return
			}
			for _, tk := range ref.issued {
				if tk.id == id && !tk.live {
					r.Count("probe.id_reissued", 1)
					break
				}
			}
			ref.issued = append(ref.issued, &issuedToken{id: id, secret: tok.Token[len(id)+1:], live: true})
			r.Tracef("%d create %q -> tok#%d", i, id, len(ref.issued)-1)

		case "delete":
			if len(ref.issued) == 0 {
				store.Delete("ghost")
				r.Tracef("%d delete \"ghost\" (nothing issued)", i)
				continue
			}
			k := mod(op.Tok, len(ref.issued))
			id := ref.issued[k].id
			store.Delete(id)
			hit := -1
			for j, tk := range ref.issued {
				if tk.id == id && tk.live {
					tk.live, tk.deletedAt = false, now
					hit = j
				}
			}
			if hit >= 0 {
				r.Count("fault.token_deleted", 1)
			}
			r.Tracef("%d delete %q (id of tok#%d) -> live token removed: tok#%d", i, id, k, hit)

		case "req":
			or := origins[mod(op.Origin, len(origins))]
			pa := paths[mod(op.Path, len(paths))]
			var tk *issuedToken
			tkIdx := -1
			if len(ref.issued) > 0 {
				tkIdx = mod(op.Tok, len(ref.issued))
				tk = ref.issued[tkIdx]
			}
			header, hasCred, user, pw, desc := buildCred(op, tk, ref.issued)
			kind := credKinds[mod(op.Cred, len(credKinds))]
			req := &http.Request{
				Method:     "POST",
				URL:        &url.URL{Path: pa.path},
				Proto:      "HTTP/1.1",
				ProtoMajor: 1,
				ProtoMinor: 1,
				Header:     http.Header{},
				Host:       "node.example:9888",
				RemoteAddr: or.addr,
			}
			if header != "" {
				req.Header.Set("Authorization", header)
			}
			_, err := api.Authenticate(req)
			admitted := err == nil
			auth, state := ref.authorised(hasCred, user, pw, now)
			res := "refused"
			if admitted {
				res = "admitted"
			}
			r.Tracef("%d req from %s %s cred=%s of tok#%d -> %s (reference: authorised=%v, %s)", i, or.addr, pa.path, desc, tkIdx, res, auth, state)
			kinds[kind] = true
			if or.loopback {
				r.Count("req.loopback", 1)
				continue // the statement constrains non-loopback requests only
			}
			outsideReqs++
			r.Count("req.outside", 1)
			if kind == "resplit" && !auth {
				r.Count("probe.resplit_unauthorised", 1)
			}
			if pa.localOnly {
				if admitted {
					r.Violate("local-only-admitted", strings.TrimPrefix(pa.path, "/")+"/"+kind,
						"op %d at t=%v: request from %s to %s with credentials %s of tok#%d (%s) was admitted; the path is local-only",
						i, now, or.addr, pa.path, desc, tkIdx, state)
					return
				}
				r.Count("probe.local_only_refused", 1)
				if auth {
					r.Count("probe.local_only_refused_with_valid_token", 1)
				}
				continue
			}
			if admitted && !auth {
				r.Violate("unauthorised-admitted", kind+"/"+state,
					"op %d at t=%v: request from %s to %s was admitted with credentials %s of tok#%d; reference: %s (user has %d bytes, password %d bytes)",
					i, now, or.addr, pa.path, desc, tkIdx, state, len(user), len(pw))
				return
			}
			switch {
			case admitted && state == "live":
				r.Count("probe.admitted_live", 1)
			case admitted && state == "deleted-in-window":
				r.Count("probe.admitted_deleted_in_window", 1)
			case !admitted && state == "deleted-in-window":
				r.Count("obs.refused_deleted_in_window", 1)
			case !admitted && state == "deleted-expired":
				r.Count("probe.refused_deleted_expired", 1)
			case !admitted && state == "live":
				// not part of the statement ("admitted only if"); reported as a counter
				r.Count("obs.refused_live", 1)
			}

		default:
			fmt.Fprintf(os.Stderr, "clocksim: HARNESS: unknown op kind %q\n", op.Kind)
			os.Exit(2)
		}
	}
	if outsideReqs > 0 && len(ref.issued) > 0 && len(kinds) >= 2 {
		r.NonTrivial()
	}
}

// SpecC36 is the C36 check.
func SpecC36() simkit.Spec {
	return simkit.Spec{
		Prop:    "C36",
		Gen:     genC36,
		NewPlan: func() any { return &C36Plan{} },
		Exec:    execC36,
		Rule: "histories of 1-42 ops: create a token (10 short ids over a tiny alphabet so that prefixes of id+secret are other ids), delete by id (also already deleted / never issued), " +
			"sleep (1 s .. 24 h, incl. 5 min -1 ms/-1 s/exact/+1 ms/+1 s), request (15 origins: 127/8, ::1, private, public, v4-mapped, just outside 127/8; 12 paths incl. the three local-only ones; " +
			"credentials: none, exact, raw token string, id+secret re-split at any position, 8 wrong-secret variants, 4 unknown-id variants, swapped, 4 malformed headers) through the real authn.API with authentication enabled; " +
			"non-trivial = at least one token issued, at least one non-loopback request, at least two credential kinds; distinct = hash of the op list and every admit/refuse outcome (secrets never enter the hash)",
		Components: map[string]string{
			"net/http/authn.API":          "real (Authenticate, token cache)",
			"accesstoken.CredentialStore": "real (secrets from crypto/rand; only recorded and compared for equality)",
			"dbm.DB":                      "stub: verif/sim/simdisk",
			"http.Request":                "built by hand (RemoteAddr, URL.Path, Authorization header); no HTTP server, no mux",
			"clock":                       "testing/synctest fake clock, advanced only by the plan",
		},
		Assumptions: []string{
			"admitted = Authenticate returns a nil error; the request then reaches the API handler",
			"exactly 5 minutes after deletion still counts as inside the cache window (refusal is never a violation)",
			"RemoteAddr is a well-formed ip:port as net/http produces it; /dashboard and /equity static paths are exempt by documented design and not generated",
			"refusing a live token's exact credentials is not a violation of this property (counted as obs.refused_live)",
		},
		FaultKinds: []string{"fault.clock_jump", "fault.token_deleted"},
		Probes: []string{"probe.admitted_live", "probe.admitted_deleted_in_window", "probe.refused_deleted_expired", "probe.resplit_unauthorised",
			"probe.local_only_refused", "probe.local_only_refused_with_valid_token", "probe.id_reissued"},
	}
}
