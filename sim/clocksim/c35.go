package clocksim

import (
	"math"
	"testing"
	"time"

	"github.com/bytom/bytom/p2p/security"
	"github.com/bytom/bytom/p2p/trust"
	"pgregory.net/rapid"

	"verif/sim/simkit"
)

// BanStep: sleep, read the score, add (P, T), read the score again.
type BanStep struct {
	Sleep int64  `json:"sleep_s"` // whole seconds of virtual time before the step
	P     uint32 `json:"p"`       // persistent increment
	T     uint32 `json:"t"`       // transient increment
}

// C35Plan is one history; the same history is applied to both implementations.
type C35Plan struct {
	Steps []BanStep `json:"steps"`
	Tail  int64     `json:"tail_sleep_s"` // last sleep before the final read
}

// Everything the property statement names, and nothing else.
const (
	refHalfLifeS = 60.0 // "decayed with a 60-second half-life"
	refLifetimeS = 1800 // "forgotten after 30 minutes"
	// The sum of all increments of a history stays below 2^32 (stated
	// assumption: the score type is uint32 and wrap-around is out of scope).
	c35Budget = uint64(math.MaxUint32 - 2)
	// A sleep at least this long counts as a clock jump (the fault kind).
	c35JumpS = 1799
)

func genSleepS(rt *rapid.T) int64 {
	switch rapid.IntRange(0, 9).Draw(rt, "sleepclass") {
	case 1:
		return 1
	case 2:
		return int64(59 + rapid.IntRange(0, 2).Draw(rt, "halflife_pm"))
	case 3:
		return int64(1799 + rapid.IntRange(0, 2).Draw(rt, "lifetime_pm"))
	case 4:
		return int64(rapid.IntRange(2, 130).Draw(rt, "secs"))
	case 5:
		return int64(rapid.IntRange(131, 1798).Draw(rt, "secs_mid"))
	case 6:
		return int64(rapid.IntRange(1802, 2000).Draw(rt, "secs_past"))
	case 7:
		return 3600 * int64(rapid.IntRange(1, 48).Draw(rt, "hours"))
	case 8:
		return 60 * int64(rapid.IntRange(1, 29).Draw(rt, "minutes"))
	default:
		return 0
	}
}

func genAmount(rt *rapid.T, label string) uint32 {
	switch rapid.IntRange(0, 8).Draw(rt, label+"class") {
	case 1:
		return 1
	case 2:
		return 20
	case 3:
		return uint32(rapid.IntRange(2, 100).Draw(rt, label+"small"))
	case 4:
		return uint32(rapid.IntRange(101, 1<<20).Draw(rt, label+"mid"))
	case 5:
		return uint32(rapid.Uint64Range(1<<20, 1<<30).Draw(rt, label+"big"))
	case 6:
		return uint32(rapid.Uint64Range(1<<30, math.MaxUint32).Draw(rt, label+"huge"))
	case 7:
		return math.MaxUint32 // "all that is left of the budget" after clamping
	default:
		return 0
	}
}

func genBanStep(rt *rapid.T) BanStep {
	return BanStep{Sleep: genSleepS(rt), T: genAmount(rt, "t"), P: genAmount(rt, "p")}
}

// clampSteps enforces the no-wrap assumption: the sum of all increments of the
// history stays within c35Budget (later steps get what is left).
func clampSteps(steps []BanStep) {
	budget := c35Budget
	clamp := func(v *uint32) {
		if uint64(*v) > budget {
			*v = uint32(budget)
		}
		budget -= uint64(*v)
	}
	for i := range steps {
		clamp(&steps[i].T)
		clamp(&steps[i].P)
		if steps[i].Sleep < 0 {
			steps[i].Sleep = 0
		}
	}
}

func genC35(rt *rapid.T) any {
	// Two segments: rapid's slice lengths are skewed towards short, and element
	// deletion (the useful shrink) works per slice.
	g := rapid.Custom(genBanStep)
	p := &C35Plan{Steps: rapid.SliceOfN(g, 1, 12).Draw(rt, "steps")}
	p.Steps = append(p.Steps, rapid.SliceOfN(g, 0, 12).Draw(rt, "steps2")...)
	clampSteps(p.Steps)
	p.Tail = genSleepS(rt)
	return p
}

// banScore is the surface both implementations share.
type banScore interface {
	Int() uint32
	Increase(persistent, transient uint32) uint32
}

// banRef is the reference written from the statement: the score at time t is
//
//	persistent + floor( sum_i transient_i * 2^(-(t-t_i)/60s) )
//
// and the transient part is forgotten after 30 minutes. The statement does not
// say whether the 30 minutes count from the last transient increment (age of
// the transient part as a whole) or per increment, nor what happens at exactly
// 30 minutes; the reference computes every reading and accepts the envelope.
type banRef struct {
	persistent uint64
	at         []int64 // time of each transient increment (>0), seconds
	amt        []float64
}

func (m *banRef) add(now int64, p, t uint32) {
	m.persistent += uint64(p)
	if t > 0 {
		m.at = append(m.at, now)
		m.amt = append(m.amt, float64(t))
	}
}

func decayed(amt float64, age int64) float64 {
	return amt * math.Exp2(-float64(age)/refHalfLifeS)
}

// transientRange returns the smallest and the largest transient value that a
// reading of the statement allows at time now.
func (m *banRef) transientRange(now int64) (lo, hi float64) {
	n := len(m.at)
	if n == 0 {
		return 0, 0
	}
	forgotten := func(age int64, strict bool) bool {
		if strict {
			return age > refLifetimeS
		}
		return age >= refLifetimeS
	}
	var vals []float64
	for _, strict := range []bool{true, false} {
		// (a) the transient part as a whole ages from its last increment
		k := 0
		for i := 1; i < n; i++ {
			if forgotten(m.at[i]-m.at[i-1], strict) {
				k = i
			}
		}
		whole := 0.0
		if !forgotten(now-m.at[n-1], strict) {
			for i := k; i < n; i++ {
				whole += decayed(m.amt[i], now-m.at[i])
			}
		}
		// (b) every increment ages on its own
		each := 0.0
		for i := 0; i < n; i++ {
			if !forgotten(now-m.at[i], strict) {
				each += decayed(m.amt[i], now-m.at[i])
			}
		}
		vals = append(vals, whole, each)
	}
	lo, hi = vals[0], vals[0]
	for _, v := range vals[1:] {
		lo, hi = math.Min(lo, v), math.Max(hi, v)
	}
	return lo, hi
}

// scoreRange is the accepted interval for an observed score: the closed form
// with one unit of slack on either side for floating-point rounding.
func (m *banRef) scoreRange(now int64) (lo, hi uint64) {
	tlo, thi := m.transientRange(now)
	l := math.Floor(tlo) - 1
	if l < 0 {
		l = 0
	}
	return m.persistent + uint64(l), m.persistent + uint64(math.Floor(thi)) + 1
}

type banImpl struct {
	name  string
	score banScore
}

func execC35(t *testing.T, plan any, r *simkit.Run) {
	p := plan.(*C35Plan)
	inBubble(t, r, func() { runC35(p, r) })
}

func runC35(p *C35Plan, r *simkit.Run) {
	impls := []banImpl{
		{"security", &security.DynamicBanScore{}},
		{"trust", &trust.DynamicBanScore{}},
	}
	start := time.Now()
	var elapsed time.Duration
	ref := &banRef{}
	steps := append([]BanStep{}, p.Steps...)
	clampSteps(steps) // keeps hand-edited plans inside the assumption too
	now := int64(0)
	decaySeen := false

	// read checks one observation of every implementation against the reference.
	read := func(i int, where string, get func(s banScore) uint32) (obs []uint32, ok bool) {
		lo, hi := ref.scoreRange(now)
		for _, im := range impls {
			v := get(im.score)
			obs = append(obs, v)
			if uint64(v) < ref.persistent {
				r.Violate("below-persistent", im.name+"/"+where,
					"step %d at t=%ds: %s %s = %d is below the persistent score %d", i, now, im.name, where, v, ref.persistent)
				return obs, false
			}
			if uint64(v) < lo || uint64(v) > hi {
				tlo, thi := ref.transientRange(now)
				r.Violate("decay", im.name+"/"+where,
					"step %d at t=%ds: %s %s = %d, statement allows %d..%d (persistent %d + transient %.6f..%.6f, +-1)",
					i, now, im.name, where, v, lo, hi, ref.persistent, tlo, thi)
				return obs, false
			}
		}
		return obs, true
	}
	sleep := func(s int64) {
		if s < 0 {
			s = 0
		}
		advance(start, &elapsed, time.Duration(s)*time.Second)
		now += s
		r.SimTime(time.Duration(s) * time.Second)
		if s >= c35JumpS {
			r.Count("fault.clock_jump", 1)
		}
	}
	probes := func() {
		n := len(ref.at)
		if n == 0 {
			return
		}
		age := now - ref.at[n-1]
		_, thi := ref.transientRange(now)
		if age > 0 && thi >= 1 {
			decaySeen = true
		}
		if age >= 59 && age <= 61 && thi >= 2 {
			r.Count("probe.read_at_halflife", 1)
		}
		if age > refLifetimeS {
			r.Count("probe.read_after_lifetime", 1)
			if decayed(ref.amt[n-1], age) >= 2 {
				// only here does forgetting differ observably from plain decay
				r.Count("probe.lifetime_observable", 1)
			}
		}
		if age == refLifetimeS {
			r.Count("probe.read_at_lifetime_exactly", 1)
		}
	}

	for i := range steps {
		st := steps[i]
		tr, pe := st.T, st.P
		sleep(st.Sleep)
		probes()
		before, ok := read(i, "int", func(s banScore) uint32 { return s.Int() })
		if !ok {
			r.Tracef("%d sleep=%ds int=%v VIOLATION", i, st.Sleep, before)
			return
		}
		if pe == 0 && tr == 0 {
			r.Tracef("%d sleep=%ds int=%v", i, st.Sleep, before)
			continue
		}
		ref.add(now, pe, tr)
		if tr > 0 {
			r.Count("op.transient", 1)
		} else {
			r.Count("op.persistent_only", 1)
		}
		ret, ok := read(i, "increase-return", func(s banScore) uint32 { return s.Increase(pe, tr) })
		var after []uint32
		if ok {
			after, ok = read(i, "int", func(s banScore) uint32 { return s.Int() })
		}
		r.Tracef("%d sleep=%ds int=%v increase(p=%d,t=%d)=%v int=%v", i, st.Sleep, before, pe, tr, ret, after)
		if !ok {
			return
		}
		for k, im := range impls {
			// "increase by at least each added persistent amount"
			if uint64(ret[k]) < uint64(before[k])+uint64(pe) {
				r.Violate("monotone-persistent", im.name+"/increase-return",
					"step %d at t=%ds: %s score was %d, Increase(%d,%d) returned %d", i, now, im.name, before[k], pe, tr, ret[k])
				return
			}
			if uint64(after[k]) < uint64(before[k])+uint64(pe) {
				r.Violate("monotone-persistent", im.name+"/int",
					"step %d at t=%ds: %s score was %d, after Increase(%d,%d) it is %d", i, now, im.name, before[k], pe, tr, after[k])
				return
			}
		}
	}
	sleep(p.Tail)
	probes()
	final, ok := read(len(p.Steps), "int", func(s banScore) uint32 { return s.Int() })
	r.Tracef("final sleep=%ds int=%v", p.Tail, final)
	if !ok {
		return
	}
	if decaySeen {
		r.NonTrivial()
	}
}

// SpecC35 is the C35 check.
func SpecC35() simkit.Spec {
	return simkit.Spec{
		Prop:    "C35",
		Gen:     genC35,
		NewPlan: func() any { return &C35Plan{} },
		Exec:    execC35,
		Rule: "histories of 1-24 steps (sleep 0 / 1 s / 59-61 s / 2-130 s / whole minutes / 131-1798 s / 1799-1801 s / 1802-2000 s / 1-48 h of virtual time; " +
			"read Int(); Increase(persistent, transient) with amounts 0, 1, 20, 2-100, up to 2^20, up to 2^30, up to 2^32-1 or 'all that is left', the sum of all increments kept below 2^32; read Int() again) plus a final sleep and read, " +
			"the same history applied to p2p/security and p2p/trust DynamicBanScore inside one synctest bubble; every Int() and every Increase return value is compared with the closed form; " +
			"non-trivial = some read happens strictly after a transient increment while the reference transient is still >= 1 (decay is observed); distinct = hash of the step list and all observed values",
		Components: map[string]string{
			"p2p/security.DynamicBanScore": "real",
			"p2p/trust.DynamicBanScore":    "real",
			"clock":                        "testing/synctest fake clock (time.Now inside the code under test), advanced only by the plan; starts 2000-01-01",
		},
		Assumptions: []string{
			"time steps are whole seconds (the implementation documents one-second granularity); sub-second steps are not generated",
			"the sum of all persistent and transient increments of one history is < 2^32 (uint32 wrap-around is out of scope)",
			"'forgotten after 30 minutes' is accepted both as age of the transient part since its last increment and as age per increment, and either way at exactly 1800 s; observed scores may differ from the closed form by 1 (float rounding)",
			"the clock never goes backwards (cannot be produced under synctest)",
		},
		FaultKinds: []string{"fault.clock_jump"},
		Probes:     []string{"probe.read_at_halflife", "probe.read_after_lifetime", "probe.lifetime_observable", "probe.read_at_lifetime_exactly", "op.persistent_only", "op.transient"},
	}
}
