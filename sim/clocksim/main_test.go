package clocksim

import (
	"testing"

	"verif/sim/simkit"
)

func TestC35(t *testing.T) { simkit.Main(t, SpecC35()) }

func TestC36(t *testing.T) { simkit.Main(t, SpecC36()) }
