// Package model holds the small executable reference models the simulation
// oracles compare the real node against. It deliberately does not import
// protocol/state, protocol/casper, protocol/validation or database: the rules are
// re-stated here from the property statements and the documented behaviour.
// types.Tx / types.Block are used only as parsed containers and for ids
// (hashing and ed25519 are the trusted base).
package model

import (
	"encoding/hex"
	"fmt"
	"sort"

	"golang.org/x/crypto/sha3"

	"github.com/bytom/bytom/protocol/bc"
	"github.com/bytom/bytom/protocol/bc/types"
)

// Consensus constants named by the properties / documentation.
const (
	CoinbaseMaturity = 10        // blocks before a coinbase output may be spent
	MaxValidators    = 10        // at most ten effective validators
	BlockSubsidy     = 570776255 // full per-block subsidy (neu)
	RewardThreshold  = 0.5       // pledge rate above which the subsidy is flat
	InitBTMSupply    = 169290721678579170 + 50000000000
	MinVoteOutput    = 100000000
)

// Params are the per-run network parameters (set by the simulation).
type Params struct {
	E           uint64 // blocks per epoch
	IntervalMs  uint64 // block time interval
	MaxOffsetMs uint64
	MinVotes    uint64   // minimum tally to become a validator
	VotePending uint64   // vote lock (blocks), constant over heights in simulations
	Federation  []string // federation keys (hex xpub), in configured order
	BTM         bc.AssetID
}

// OutKind classifies an unspent output by its spending constraint.
type OutKind uint8

const (
	Normal OutKind = iota
	Coinbase
	Vote
)

func (k OutKind) String() string { return [...]string{"normal", "coinbase", "vote"}[k] }

// Out is one ledger output.
type Out struct {
	ID      bc.Hash
	Kind    OutKind
	Height  uint64 // creation height
	Asset   bc.AssetID
	Amount  uint64
	Program []byte
	Vote    []byte
	State   [][]byte
	TxID    bc.Hash
	Pos     int
	// SourceID / SourcePos identify the value source (needed to spend the output).
	SourceID  bc.Hash
	SourcePos uint64
}

func fillSource(o *Out, tx *types.Tx, i int) {
	switch e := tx.Entries[*tx.ResultIds[i]].(type) {
	case *bc.OriginalOutput:
		o.SourceID, o.SourcePos = *e.Source.Ref, e.Source.Position
	case *bc.VoteOutput:
		o.SourceID, o.SourcePos = *e.Source.Ref, e.Source.Position
	}
}

// BlockState is the ledger state after applying one block on its branch.
type BlockState struct {
	Block  *types.Block
	Hash   bc.Hash
	Parent *BlockState
	Height uint64

	Utxo      map[bc.Hash]*Out
	Contracts map[[32]byte][]byte // contract hash -> registering txid ‖ code
	Votes     map[string]uint64   // hex pubkey -> tally along the branch (zero entries absent)
	// Rewards accumulated in the epoch this block belongs to: hex program -> amount.
	Rewards map[string]uint64
	Txs     map[bc.Hash]uint64 // confirmed non-coinbase tx id -> height, along the branch
	// Invalid is set when this block (or an ancestor) breaks a ledger rule.
	Invalid error
}

// Tree is the set of known blocks.
type Tree struct {
	P       Params
	Nodes   map[bc.Hash]*BlockState
	Genesis *BlockState
	// AllOutputs: every output id ever created by a block added to the tree.
	AllOutputs map[bc.Hash]*Out
	Order      []bc.Hash // insertion order (deterministic iteration)
}

func isRetirement(prog []byte) bool {
	// documented: a program starting with OP_FAIL (0x6a) is unspendable = retirement
	return len(prog) > 0 && prog[0] == 0x6a
}

// bcrpContract returns the contract code registered by a BCRP registration
// program:  OP_FAIL PUSHDATA("bcrp") PUSHDATA(version) PUSHDATA(contract).
func bcrpContract(prog []byte) ([]byte, bool) {
	if len(prog) < 8 || prog[0] != 0x6a {
		return nil, false
	}
	// parse three pushdata items
	rest := prog[1:]
	var items [][]byte
	for len(rest) > 0 && len(items) < 4 {
		op := rest[0]
		var n int
		switch {
		case op >= 0x01 && op <= 0x4b:
			n = int(op)
			rest = rest[1:]
		case op == 0x4c && len(rest) >= 2:
			n = int(rest[1])
			rest = rest[2:]
		case op == 0x4d && len(rest) >= 3:
			n = int(rest[1]) | int(rest[2])<<8
			rest = rest[3:]
		default:
			return nil, false
		}
		if n > len(rest) {
			return nil, false
		}
		items = append(items, rest[:n])
		rest = rest[n:]
	}
	if len(items) != 3 || len(rest) != 0 || string(items[0]) != "bcrp" || len(items[1]) != 1 || items[1][0] != 1 || len(items[2]) == 0 {
		return nil, false
	}
	return items[2], true
}

// NewTree starts a tree at the genesis block.
func NewTree(p Params, genesis *types.Block) *Tree {
	t := &Tree{P: p, Nodes: map[bc.Hash]*BlockState{}, AllOutputs: map[bc.Hash]*Out{}}
	g := &BlockState{Block: genesis, Hash: genesis.Hash(), Height: 0,
		Utxo: map[bc.Hash]*Out{}, Contracts: map[[32]byte][]byte{}, Votes: map[string]uint64{},
		Rewards: map[string]uint64{}, Txs: map[bc.Hash]uint64{}}
	t.applyOutputs(g, genesis)
	t.Genesis = g
	t.Nodes[g.Hash] = g
	t.Order = append(t.Order, g.Hash)
	return t
}

func (t *Tree) applyOutputs(s *BlockState, b *types.Block) {
	for ti, tx := range b.Transactions {
		for i, o := range tx.Outputs {
			if isRetirement(o.ControlProgram) || o.Amount == 0 {
				continue
			}
			out := &Out{ID: *tx.ResultIds[i], Kind: Normal, Height: b.Height, Asset: *o.AssetId, Amount: o.Amount,
				Program: o.ControlProgram, State: o.StateData, TxID: tx.ID, Pos: i}
			if o.OutputType() == types.VoteOutputType {
				out.Kind = Vote
				out.Vote = o.TypedOutput.(*types.VoteOutput).Vote
			}
			if ti == 0 {
				out.Kind = Coinbase
			}
			fillSource(out, tx, i)
			s.Utxo[out.ID] = out
			t.AllOutputs[out.ID] = out
		}
	}
}

func cloneState(p *BlockState) *BlockState {
	s := &BlockState{Parent: p,
		Utxo: make(map[bc.Hash]*Out, len(p.Utxo)+8), Contracts: make(map[[32]byte][]byte, len(p.Contracts)),
		Votes: make(map[string]uint64, len(p.Votes)), Rewards: map[string]uint64{}, Txs: make(map[bc.Hash]uint64, len(p.Txs)+4)}
	for k, v := range p.Utxo {
		s.Utxo[k] = v
	}
	for k, v := range p.Contracts {
		s.Contracts[k] = v
	}
	for k, v := range p.Votes {
		s.Votes[k] = v
	}
	for k, v := range p.Txs {
		s.Txs[k] = v
	}
	return s
}

// TxFee is the BTM difference of a parsed transaction in exact arithmetic
// (callers only use it on validated transactions, where it fits uint64).
func TxFee(btm bc.AssetID, tx *types.Tx) uint64 {
	var in, out uint64
	for _, inp := range tx.Inputs {
		if inp.AssetID() == btm {
			in += inp.Amount()
		}
	}
	for _, o := range tx.Outputs {
		if *o.AssetId == btm {
			out += o.Amount
		}
	}
	if in > out {
		return in - out
	}
	return 0
}

// Subsidy is the documented per-block subsidy for a given vote total at a height.
func Subsidy(totalVotes, height uint64) uint64 {
	totalSupply := height*BlockSubsidy/2 + InitBTMSupply
	rate := float64(totalVotes) / float64(totalSupply)
	if rate <= RewardThreshold {
		return uint64((rate + RewardThreshold) * float64(BlockSubsidy))
	}
	return BlockSubsidy
}

// Add applies block b on its parent (which must be in the tree) and returns the
// resulting state. Ledger-rule violations are recorded in Invalid (the state is
// then only a marker; descendants are invalid too).
func (t *Tree) Add(b *types.Block) (*BlockState, error) {
	h := b.Hash()
	if s, ok := t.Nodes[h]; ok {
		return s, nil
	}
	p, ok := t.Nodes[b.PreviousBlockHash]
	if !ok {
		return nil, fmt.Errorf("model: parent %s of %s unknown", b.PreviousBlockHash.String(), h.String())
	}
	s := cloneState(p)
	s.Block, s.Hash, s.Height = b, h, b.Height
	t.Nodes[h] = s
	t.Order = append(t.Order, h)
	if p.Invalid != nil {
		s.Invalid = fmt.Errorf("ancestor invalid: %v", p.Invalid)
		return s, nil
	}
	if b.Height != p.Height+1 {
		s.Invalid = fmt.Errorf("height %d on parent height %d", b.Height, p.Height)
		return s, nil
	}
	E := t.P.E
	// the reward table carries over inside an epoch and restarts at its first block
	if b.Height%E != 1 {
		for k, v := range p.Rewards {
			s.Rewards[k] = v
		}
	}
	var fees uint64
	// Transactions apply in order; a transaction may spend outputs created by an
	// earlier transaction of the same block.
	for ti, tx := range b.Transactions {
		for _, inp := range tx.Inputs {
			if inp.InputType() != types.SpendInputType && inp.InputType() != types.VetoInputType {
				continue
			}
			id, err := inp.SpentOutputID()
			if err != nil {
				s.Invalid = err
				return s, nil
			}
			o, ok := s.Utxo[id]
			if !ok {
				s.Invalid = fmt.Errorf("tx %d spends missing or already spent output %s", ti, id.String())
				return s, nil
			}
			switch o.Kind {
			case Coinbase:
				if o.Height+CoinbaseMaturity > b.Height {
					s.Invalid = fmt.Errorf("tx %d spends immature coinbase output (created %d, spent %d)", ti, o.Height, b.Height)
					return s, nil
				}
			case Vote:
				if o.Height+t.P.VotePending > b.Height {
					s.Invalid = fmt.Errorf("tx %d spends locked vote output (created %d, spent %d, lock %d)", ti, o.Height, b.Height, t.P.VotePending)
					return s, nil
				}
			}
			delete(s.Utxo, id)
			if inp.InputType() == types.VetoInputType {
				key := hex.EncodeToString(inp.TypedInput.(*types.VetoInput).Vote)
				if s.Votes[key] > inp.Amount() {
					s.Votes[key] -= inp.Amount()
				} else {
					delete(s.Votes, key)
				}
			}
		}
		if ti > 0 {
			fees += TxFee(t.P.BTM, tx)
			s.Txs[tx.ID] = b.Height
		}
		for i, o := range tx.Outputs {
			if isRetirement(o.ControlProgram) {
				if code, ok := bcrpContract(o.ControlProgram); ok {
					ch := sha3.Sum256(code)
					if _, exists := s.Contracts[ch]; !exists {
						s.Contracts[ch] = append(append([]byte{}, tx.ID.Bytes()...), code...)
					}
				}
				continue
			}
			if o.OutputType() == types.VoteOutputType {
				s.Votes[hex.EncodeToString(o.TypedOutput.(*types.VoteOutput).Vote)] += o.Amount
			}
			if o.Amount == 0 {
				continue
			}
			out := &Out{ID: *tx.ResultIds[i], Kind: Normal, Height: b.Height, Asset: *o.AssetId, Amount: o.Amount,
				Program: o.ControlProgram, State: o.StateData, TxID: tx.ID, Pos: i}
			if o.OutputType() == types.VoteOutputType {
				out.Kind = Vote
				out.Vote = o.TypedOutput.(*types.VoteOutput).Vote
			}
			if ti == 0 {
				out.Kind = Coinbase
			}
			fillSource(out, tx, i)
			s.Utxo[out.ID] = out
			t.AllOutputs[out.ID] = out
		}
	}
	// coinbase shape and amounts
	if len(b.Transactions) == 0 {
		s.Invalid = fmt.Errorf("empty block")
		return s, nil
	}
	cb := b.Transactions[0]
	if b.Height%E == 1 && b.Height != 1 {
		want := p.Rewards // table of the epoch that just ended (p is its last block)
		got := map[string]uint64{}
		for i, o := range cb.Outputs {
			if i == 0 && o.Amount == 0 {
				continue
			}
			got[hex.EncodeToString(o.ControlProgram)] += o.Amount
		}
		if len(got) != len(want) {
			s.Invalid = fmt.Errorf("reward coinbase pays %d programs, table has %d", len(got), len(want))
			return s, nil
		}
		for k, v := range want {
			if got[k] != v {
				s.Invalid = fmt.Errorf("reward coinbase pays %d to %s, table says %d", got[k], k, v)
				return s, nil
			}
		}
	} else {
		for _, o := range cb.Outputs {
			if o.Amount != 0 {
				s.Invalid = fmt.Errorf("non-reward coinbase pays %d", o.Amount)
				return s, nil
			}
		}
		if len(cb.Outputs) != 1 {
			s.Invalid = fmt.Errorf("non-reward coinbase has %d outputs", len(cb.Outputs))
			return s, nil
		}
	}
	// this block's contribution to the epoch's reward table
	var total uint64
	for _, v := range s.Votes {
		total += v
	}
	prog := hex.EncodeToString(cb.Outputs[0].ControlProgram)
	s.Rewards[prog] += fees + Subsidy(total, b.Height)
	return s, nil
}

// Validator is one effective validator.
type Validator struct {
	PubKey string
	Order  int
	Votes  uint64
}

// EffectiveValidators derives the validator list from a tally: keys whose tally
// meets the minimum, ranked by votes (descending) then key (descending hex, the
// node's documented tie-break), at most ten; the federation if none qualify.
func (t *Tree) EffectiveValidators(votes map[string]uint64) []Validator {
	var vs []Validator
	for k, v := range votes {
		if v >= t.P.MinVotes {
			vs = append(vs, Validator{PubKey: k, Votes: v})
		}
	}
	sort.Slice(vs, func(i, j int) bool {
		if vs[i].Votes != vs[j].Votes {
			return vs[i].Votes > vs[j].Votes
		}
		return vs[i].PubKey > vs[j].PubKey
	})
	if len(vs) == 0 {
		for i, k := range t.P.Federation {
			vs = append(vs, Validator{PubKey: k, Order: i})
		}
		return vs
	}
	if len(vs) > MaxValidators {
		vs = vs[:MaxValidators]
	}
	for i := range vs {
		vs[i].Order = i
	}
	return vs
}

// CheckpointOf returns the last epoch-boundary block at or before s.
func (t *Tree) CheckpointOf(s *BlockState) *BlockState {
	for s.Height%t.P.E != 0 {
		s = s.Parent
	}
	return s
}

// ScheduledValidator returns who may propose a child of parent with timestamp ts.
func (t *Tree) ScheduledValidator(parent *BlockState, ts uint64) (Validator, bool) {
	cp := t.CheckpointOf(parent)
	vs := t.EffectiveValidators(cp.Votes)
	start := cp.Block.Timestamp + t.P.IntervalMs
	if ts < start || len(vs) == 0 {
		return Validator{}, false
	}
	slot := ((ts - start) / t.P.IntervalMs) % uint64(len(vs))
	return vs[slot], true
}

// Ancestor returns the ancestor of s at height h (s itself if h == s.Height).
func Ancestor(s *BlockState, h uint64) *BlockState {
	for s != nil && s.Height > h {
		s = s.Parent
	}
	return s
}

// IsAncestor reports whether a is an ancestor of (or equal to) b.
func IsAncestor(a, b *BlockState) bool {
	x := Ancestor(b, a.Height)
	return x != nil && x.Hash == a.Hash
}

// MainChain returns the states from genesis to tip.
func MainChain(tip *BlockState) []*BlockState {
	var out []*BlockState
	for s := tip; s != nil; s = s.Parent {
		out = append(out, s)
	}
	for i, j := 0, len(out)-1; i < j; i, j = i+1, j-1 {
		out[i], out[j] = out[j], out[i]
	}
	return out
}

// SortedOutputIDs returns all known output ids in a deterministic order.
func (t *Tree) SortedOutputIDs() []bc.Hash {
	ids := make([]bc.Hash, 0, len(t.AllOutputs))
	for id := range t.AllOutputs {
		ids = append(ids, id)
	}
	sort.Slice(ids, func(i, j int) bool { return ids[i].String() < ids[j].String() })
	return ids
}
