package model

import "github.com/bytom/bytom/protocol/bc"

// NewTreeFrom returns a shallow copy of t that can be extended without
// touching t (used to probe a block without admitting it).
func NewTreeFrom(t *Tree) *Tree {
	n := &Tree{P: t.P, Nodes: make(map[bc.Hash]*BlockState, len(t.Nodes)+1), Genesis: t.Genesis, AllOutputs: make(map[bc.Hash]*Out, len(t.AllOutputs)+4)}
	for k, v := range t.Nodes {
		n.Nodes[k] = v
	}
	for k, v := range t.AllOutputs {
		n.AllOutputs[k] = v
	}
	n.Order = append([]bc.Hash{}, t.Order...)
	return n
}
