package dbsim

import (
	"testing"

	"verif/sim/simkit"
)

func TestC20(t *testing.T) { simkit.Main(t, SpecC20()) }
