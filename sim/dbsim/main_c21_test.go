package dbsim

import (
	"testing"

	"verif/sim/simkit"
)

func TestC21(t *testing.T) { simkit.Main(t, SpecC21()) }
