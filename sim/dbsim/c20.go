// Package dbsim decides C20 (storage backends interchangeable) and C21 (store
// caches transparent) by seeded operation histories with close/reopen faults,
// compared step by step across implementations.
package dbsim

import (
	"bytes"
	"fmt"
	"os"
	"testing"

	dbm "github.com/bytom/bytom/database/leveldb"
	"pgregory.net/rapid"

	"verif/sim/simdisk"
	"verif/sim/simkit"
)

// DBOp is one generated operation.
type DBOp struct {
	Kind     string    `json:"k"`
	Key      []byte    `json:"key,omitempty"`
	Val      []byte    `json:"val,omitempty"`
	Batch    []BatchOp `json:"batch,omitempty"`
	Prefix   []byte    `json:"prefix,omitempty"`
	Start    []byte    `json:"start,omitempty"`
	PeekHead bool      `json:"peek,omitempty"` // read Key/Value at the start position before Next
	MaxNext  int       `json:"max_next,omitempty"`
}

// BatchOp is one element of a batch.
type BatchOp struct {
	Del bool   `json:"del,omitempty"`
	Key []byte `json:"key"`
	Val []byte `json:"val,omitempty"`
}

// C20Plan is one history.
type C20Plan struct {
	Ops []DBOp `json:"ops"`
}

var alphabet = []byte{'a', 'b', 'c', 0x00, 0xff}

func genKey(rt *rapid.T, label string, minLen, maxLen int) []byte {
	n := rapid.IntRange(minLen, maxLen).Draw(rt, label+"_len")
	k := make([]byte, n)
	for i := range k {
		k[i] = alphabet[rapid.IntRange(0, len(alphabet)-1).Draw(rt, label)]
	}
	return k
}

func genVal(rt *rapid.T) []byte {
	switch rapid.IntRange(0, 5).Draw(rt, "valkind") {
	case 0:
		return []byte{}
	default:
		n := rapid.IntRange(1, 6).Draw(rt, "vallen")
		v := make([]byte, n)
		for i := range v {
			v[i] = byte(rapid.IntRange(0, 255).Draw(rt, "valb"))
		}
		return v
	}
}

func genC20(rt *rapid.T) any {
	n := rapid.IntRange(1, 40).Draw(rt, "nops")
	p := &C20Plan{}
	for i := 0; i < n; i++ {
		var op DBOp
		switch rapid.IntRange(0, 13).Draw(rt, "kind") {
		case 0, 1:
			op = DBOp{Kind: "set", Key: genKey(rt, "k", 1, 3), Val: genVal(rt)}
		case 2:
			op = DBOp{Kind: "setsync", Key: genKey(rt, "k", 1, 3), Val: genVal(rt)}
		case 3:
			op = DBOp{Kind: "del", Key: genKey(rt, "k", 1, 3)}
		case 4:
			op = DBOp{Kind: "delsync", Key: genKey(rt, "k", 1, 3)}
		case 5, 6:
			op = DBOp{Kind: "get", Key: genKey(rt, "k", 1, 3)}
		case 7:
			op = DBOp{Kind: "batch"}
			m := rapid.IntRange(0, 6).Draw(rt, "nbatch")
			for j := 0; j < m; j++ {
				if rapid.IntRange(0, 2).Draw(rt, "bdel") == 0 {
					op.Batch = append(op.Batch, BatchOp{Del: true, Key: genKey(rt, "k", 1, 3)})
				} else {
					op.Batch = append(op.Batch, BatchOp{Key: genKey(rt, "k", 1, 3), Val: genVal(rt)})
				}
			}
		case 8:
			op = DBOp{Kind: "iter"}
		case 9, 10:
			op = DBOp{Kind: "iterprefix", Prefix: genKey(rt, "p", 0, 2)}
		case 11, 12:
			prefix := genKey(rt, "p", 0, 2)
			var start []byte
			switch rapid.IntRange(0, 4).Draw(rt, "startkind") {
			case 0: // inside the prefix range
				start = append(append([]byte{}, prefix...), genKey(rt, "s", 0, 2)...)
			case 1: // exactly the prefix
				start = append([]byte{}, prefix...)
			case 2: // arbitrary (before/after/beyond)
				start = genKey(rt, "s", 0, 3)
			case 3: // beyond everything under the prefix
				start = append(append([]byte{}, prefix...), 0xff, 0xff, 0xff, 0xff)
			case 4: // before the prefix
				start = []byte{}
			}
			op = DBOp{Kind: "iterstart", Prefix: prefix, Start: start, PeekHead: rapid.Bool().Draw(rt, "peek")}
		case 13:
			op = DBOp{Kind: "reopen"}
		}
		op.MaxNext = rapid.IntRange(0, 3).Draw(rt, "maxnext") // 0 = drain
		p.Ops = append(p.Ops, op)
	}
	return p
}

type backend struct {
	name string
	db   dbm.DB
}

func fmtB(b []byte) string {
	if b == nil {
		return "nil"
	}
	return fmt.Sprintf("%q", b)
}

// observe runs one read-type op on a backend and renders everything observable.
func observe(db dbm.DB, op *DBOp) string {
	var out bytes.Buffer
	drain := func(it dbm.Iterator) {
		n := 0
		for it.Next() {
			fmt.Fprintf(&out, "(%s=%s)", fmtB(it.Key()), fmtB(it.Value()))
			n++
			if op.MaxNext > 0 && n >= op.MaxNext {
				break
			}
		}
		if err := it.Error(); err != nil {
			fmt.Fprintf(&out, " err=%v", err)
		}
		it.Release()
	}
	switch op.Kind {
	case "get":
		out.WriteString(fmtB(db.Get(op.Key)))
	case "iter":
		drain(db.Iterator())
	case "iterprefix":
		drain(db.IteratorPrefix(op.Prefix))
	case "iterstart":
		it := db.IteratorPrefixWithStart(op.Prefix, op.Start, false)
		if op.PeekHead {
			// The documented usage (store_checkpoint.go): the element at the start
			// position is read before the Next loop. An exhausted iterator's
			// Key/Value are compared by content only.
			k, v := it.Key(), it.Value()
			fmt.Fprintf(&out, "head(%q=%q)", k, v)
		}
		drain(it)
	}
	return out.String()
}

func applyWrite(db dbm.DB, op *DBOp) {
	switch op.Kind {
	case "set":
		db.Set(op.Key, op.Val)
	case "setsync":
		db.SetSync(op.Key, op.Val)
	case "del":
		db.Delete(op.Key)
	case "delsync":
		db.DeleteSync(op.Key)
	case "batch":
		b := db.NewBatch()
		for _, bo := range op.Batch {
			if bo.Del {
				b.Delete(bo.Key)
			} else {
				b.Set(bo.Key, bo.Val)
			}
		}
		b.Write()
	}
}

func execC20(t *testing.T, plan any, r *simkit.Run) {
	p := plan.(*C20Plan)
	dir, err := os.MkdirTemp("", "verif-c20-")
	if err != nil {
		fmt.Fprintf(os.Stderr, "dbsim: %v\n", err)
		os.Exit(2)
	}
	defer os.RemoveAll(dir)
	ldb, err := dbm.NewGoLevelDB("c20", dir)
	if err != nil {
		fmt.Fprintf(os.Stderr, "dbsim: %v\n", err)
		os.Exit(2)
	}
	defer func() { ldb.Close() }()
	mem := dbm.NewMemDB()
	sd := simdisk.New()
	model := map[string][]byte{}

	kinds := map[string]bool{}
	for i := range p.Ops {
		op := &p.Ops[i]
		// a plan decoded from a replay file has nil where the generated plan had an
		// empty value: normalise so that both execute identically
		if op.Val == nil {
			op.Val = []byte{}
		}
		for j := range op.Batch {
			if op.Batch[j].Val == nil {
				op.Batch[j].Val = []byte{}
			}
		}
		kinds[op.Kind] = true
		r.FP(op.Kind)
		switch op.Kind {
		case "reopen":
			// close + reopen fault: everything written so far must survive.
			ldb.Close()
			ldb, err = dbm.NewGoLevelDB("c20", dir)
			if err != nil {
				r.Violate("reopen", "", "goleveldb does not reopen after op %d: %v", i, err)
				return
			}
			r.Count("fault.close_reopen", 1)
			r.Tracef("%d reopen", i)
		case "get", "iter", "iterprefix", "iterstart":
			a := observe(ldb, op)
			b := observe(mem, op)
			c := observe(sd, op)
			r.Tracef("%d %s key=%q prefix=%q start=%q peek=%v -> %s", i, op.Kind, op.Key, op.Prefix, op.Start, op.PeekHead, a)
			if op.Kind == "iterstart" {
				r.Count("op.iterstart", 1)
				if len(model) > 0 {
					r.NonTrivial()
				}
			}
			if a != b {
				r.Violate("memdb-vs-leveldb", op.Kind, "op %d %s key=%q prefix=%q start=%q peek=%v:\n leveldb: %s\n memdb:   %s",
					i, op.Kind, op.Key, op.Prefix, op.Start, op.PeekHead, a, b)
				return
			}
			if a != c {
				// simdisk is harness code: a disagreement with goleveldb is a harness bug.
				fmt.Fprintf(os.Stderr, "dbsim: HARNESS: simdisk disagrees with goleveldb at op %d %s: %s vs %s\n", i, op.Kind, a, c)
				os.Exit(2)
			}
			if op.Kind == "get" {
				want := fmtB(model[string(op.Key)])
				if _, ok := model[string(op.Key)]; !ok {
					want = "nil"
				}
				if a != want {
					r.Violate("get-vs-model", "", "op %d get %q = %s, model says %s", i, op.Key, a, want)
					return
				}
			}
		default:
			applyWrite(ldb, op)
			applyWrite(mem, op)
			applyWrite(sd, op)
			switch op.Kind {
			case "set", "setsync":
				model[string(op.Key)] = op.Val
			case "del", "delsync":
				delete(model, string(op.Key))
			case "batch":
				for _, bo := range op.Batch {
					if bo.Del {
						delete(model, string(bo.Key))
					} else {
						model[string(bo.Key)] = bo.Val
					}
				}
			}
			r.Tracef("%d %s key=%q val=%q batch=%d", i, op.Kind, op.Key, op.Val, len(op.Batch))
		}
	}
	// Final full comparison.
	final := &DBOp{Kind: "iter"}
	a, b := observe(ldb, final), observe(mem, final)
	if a != b {
		r.Violate("memdb-vs-leveldb", "final", "final contents differ:\n leveldb: %s\n memdb:   %s", a, b)
	}
	if len(kinds) >= 4 {
		r.NonTrivial()
	}
}

// SpecC20 is the C20 check.
func SpecC20() simkit.Spec {
	return simkit.Spec{
		Prop:    "C20",
		Gen:     genC20,
		NewPlan: func() any { return &C20Plan{} },
		Exec:    execC20,
		Rule: "histories of 1-40 ops (get/set/setsync/delete/deletesync/batch/iterate all/prefix/prefix+start, close+reopen of goleveldb) over keys of 1-3 bytes from a 5-letter alphabet incl. 0x00 and 0xff, empty values; " +
			"non-trivial = uses >=4 op kinds or a start-bounded iteration on a non-empty store; distinct = hash of the op-kind sequence and every observation",
		Components: map[string]string{
			"database/leveldb.MemDB":     "real",
			"database/leveldb.GoLevelDB": "real (files under $TMPDIR, removed per run)",
			"simdisk":                    "stub storage engine (third implementation; disagreement with goleveldb = harness error, exit 2)",
		},
		Assumptions: []string{
			"iteration is one atomic operation (no writes while an iterator is open); forward iteration only, as the property states",
			"values are non-nil (empty values are []byte{}); nil-ness of Get is compared exactly",
		},
		FaultKinds: []string{"fault.close_reopen"},
		Probes:     []string{"op.iterstart"},
	}
}
