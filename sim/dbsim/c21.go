package dbsim

// C21 "store caches are transparent".
//
// One long-lived database.Store over a simulated disk executes a seeded history
// of saves (SaveBlock, SaveBlockHeader with more SupLinks, SaveChainStatus with
// main-chain index rewrites, SaveCheckpoints with status changes) interleaved
// with reads. At comparison points every getter is called through the
// long-lived store and through a FRESH store over the same disk (empty caches:
// every read goes to the database). The harness treats everything the store
// returns as read-only: results are rendered to a canonical string right after
// each call and never touched again.

import (
	"crypto/sha256"
	"fmt"
	"os"
	"runtime/debug"
	"sort"
	"strings"
	"sync"
	"testing"
	"testing/synctest"

	"github.com/bytom/bytom/consensus"
	"github.com/bytom/bytom/database"
	"github.com/bytom/bytom/protocol/bc"
	"github.com/bytom/bytom/protocol/bc/types"
	"github.com/bytom/bytom/protocol/state"
	"github.com/sirupsen/logrus"
	"pgregory.net/rapid"

	"verif/sim/simdisk"
	"verif/sim/simkit"
)

// C21Block describes one synthetic block of the universe. Block 0 is the root;
// block i>0 hangs under block (Parent mod i).
type C21Block struct {
	Parent int `json:"parent"`
	NTx    int `json:"ntx"`
	Links  int `json:"links"` // SupLinks carried by the block as it is first saved
}

// C21Cp is one checkpoint of a SaveCheckpoints call.
type C21Cp struct {
	Blk    int `json:"blk"`
	Status int `json:"status"`
	Ver    int `json:"ver"` // varies Votes/Rewards
}

// C21Op is one step of a history. Indices are abstract and interpreted modulo
// the live universe.
type C21Op struct {
	Kind  string  `json:"k"` // read | saveblock | saveheader | savestatus | savecps
	A     int     `json:"a,omitempty"`
	B     int     `json:"b,omitempty"`
	C     int     `json:"c,omitempty"`
	Items []C21Cp `json:"items,omitempty"`
	Sweep bool    `json:"sweep,omitempty"` // compare every getter on every object after this op
	Rot   int     `json:"rot,omitempty"`   // rotation of the sweep order
}

// C21Plan is one history.
type C21Plan struct {
	// Caps are the capacities of the five LRU caches (headers, transactions,
	// hashes by height, main-chain hashes, checkpoints); 0 = production capacity.
	Caps     [5]int     `json:"caps"`
	SweepAll bool       `json:"sweep_all"` // full comparison after every op
	Resave   bool       `json:"resave"`    // allow SaveBlock of an already stored block with the header it first had
	Blocks   []C21Block `json:"blocks"`
	Ops      []C21Op    `json:"ops"`
}

const (
	c21MaxRev = 4
)

func genC21(rt *rapid.T) any {
	p := &C21Plan{}
	switch rapid.IntRange(0, 3).Draw(rt, "capmode") {
	case 0: // production capacities: nothing is ever evicted
	case 1: // one tiny capacity for all caches
		n := rapid.IntRange(1, 4).Draw(rt, "cap")
		for i := range p.Caps {
			p.Caps[i] = n
		}
	default: // each cache its own: 0 (production) or 1-4
		for i := range p.Caps {
			p.Caps[i] = rapid.IntRange(0, 4).Draw(rt, "cap_i")
		}
	}
	p.SweepAll = rapid.IntRange(0, 2).Draw(rt, "sweepall") != 0
	p.Resave = rapid.IntRange(0, 3).Draw(rt, "resave") == 3
	// Lists are drawn with rapid's slice generators so that shrinking can delete
	// single blocks and ops; every index is interpreted modulo the live universe.
	p.Blocks = rapid.SliceOfN(rapid.Custom(func(rt *rapid.T) C21Block {
		b := C21Block{NTx: rapid.IntRange(1, 2).Draw(rt, "ntx"), Links: rapid.IntRange(0, 2).Draw(rt, "links")}
		// bias towards low parents so that several blocks share a height
		b.Parent = rapid.IntRange(0, 7).Draw(rt, "parent")
		if rapid.Bool().Draw(rt, "parent_low") {
			b.Parent /= 3
		}
		return b
	}), 3, 8).Draw(rt, "blocks")
	sweepAll := p.SweepAll
	opGen := rapid.Custom(func(rt *rapid.T) C21Op {
		var op C21Op
		switch rapid.IntRange(0, 12).Draw(rt, "kind") {
		case 0, 1, 2, 3:
			op = C21Op{Kind: "read", A: rapid.IntRange(0, len(c21Getters)-1).Draw(rt, "getter"),
				B: rapid.IntRange(0, 9).Draw(rt, "obj"), C: rapid.IntRange(1, 3).Draw(rt, "rep")}
		case 4, 5, 6:
			op = C21Op{Kind: "saveblock", A: rapid.IntRange(0, 7).Draw(rt, "blk"), B: rapid.IntRange(0, 1).Draw(rt, "variant")}
		case 7, 8:
			op = C21Op{Kind: "saveheader", A: rapid.IntRange(0, 7).Draw(rt, "blk"),
				B: rapid.IntRange(1, 2).Draw(rt, "extra"), C: rapid.IntRange(0, 1).Draw(rt, "witness")}
		case 9, 10:
			op = C21Op{Kind: "savestatus", A: rapid.IntRange(0, 7).Draw(rt, "tip"),
				B: rapid.IntRange(0, 6).Draw(rt, "depth"), C: rapid.IntRange(0, 3).Draw(rt, "final")}
		default:
			op = C21Op{Kind: "savecps"}
			op.Items = rapid.SliceOfN(rapid.Custom(func(rt *rapid.T) C21Cp {
				return C21Cp{Blk: rapid.IntRange(0, 7).Draw(rt, "cpblk"),
					Status: rapid.IntRange(0, 3).Draw(rt, "status"), Ver: rapid.IntRange(0, 3).Draw(rt, "ver")}
			}), 1, 3).Draw(rt, "cps")
		}
		if !sweepAll {
			op.Sweep = rapid.IntRange(0, 3).Draw(rt, "sweep") == 3
		}
		op.Rot = rapid.IntRange(0, 11).Draw(rt, "rot")
		return op
	})
	// rapid's slice lengths are geometric (mean about 5 here): four segments give
	// histories of about 20 ops, at most 40, every op still deletable by the shrinker
	for seg := 0; seg < 4; seg++ {
		p.Ops = append(p.Ops, rapid.SliceOfN(opGen, 0, 10).Draw(rt, "ops")...)
	}
	return p
}

// ---------------------------------------------------------------------------
// Synthetic universe

type c21Blk struct {
	parent int
	height uint64
	hash   bc.Hash
	base   types.BlockHeader // no SupLinks, no witness
	txs    []*types.Tx
	links0 int
}

type c21World struct {
	blks      []*c21Blk
	maxHeight uint64
	unknown   bc.Hash
}

func mod(i, n int) int {
	if n <= 0 {
		return 0
	}
	i %= n
	if i < 0 {
		i += n
	}
	return i
}

func buildWorld(p *C21Plan) *c21World {
	w := &c21World{}
	for i, spec := range p.Blocks {
		b := &c21Blk{parent: -1, links0: mod(spec.Links, 3)}
		var prev bc.Hash
		if i > 0 {
			b.parent = mod(spec.Parent, i)
			b.height = w.blks[b.parent].height + 1
			prev = w.blks[b.parent].hash
		}
		ntx := 1 + mod(spec.NTx-1, 2)
		var bcTxs []*bc.Tx
		for t := 0; t < ntx; t++ {
			tx := types.NewTx(types.TxData{
				Version: 1,
				Inputs:  []*types.TxInput{types.NewCoinbaseInput([]byte{byte(i), byte(t), 0xc2, 0x1c})},
				Outputs: []*types.TxOutput{types.NewOriginalTxOutput(*consensus.BTMAssetID, uint64(1000+10*i+t), []byte{0x51}, nil)},
			})
			b.txs = append(b.txs, tx)
			bcTxs = append(bcTxs, tx.Tx)
		}
		root, err := types.TxMerkleRoot(bcTxs)
		if err != nil {
			fmt.Fprintf(os.Stderr, "dbsim: HARNESS: merkle root: %v\n", err)
			os.Exit(2)
		}
		b.base = types.BlockHeader{
			Version:           1,
			Height:            b.height,
			PreviousBlockHash: prev,
			Timestamp:         1600000000000 + uint64(i)*6000,
			BlockCommitment:   types.BlockCommitment{TransactionsMerkleRoot: root},
		}
		b.hash = b.base.Hash()
		if b.height > w.maxHeight {
			w.maxHeight = b.height
		}
		w.blks = append(w.blks, b)
	}
	w.unknown = bc.NewHash(sha256.Sum256([]byte("c21-unknown-block")))
	return w
}

// header builds a NEW header object of block i carrying `links` SupLinks, where
// link j has 1+min(2, sigLevel-j) signatures (so a higher level has both more
// links and more signatures in the old links), and witness version wit.
func (w *c21World) header(i, links, sigLevel, wit int) *types.BlockHeader {
	b := w.blks[i]
	h := b.base
	if wit > 0 {
		sig := make([]byte, 64)
		for k := range sig {
			sig[k] = byte(0x50 + wit)
		}
		sig[0] = byte(i)
		h.BlockWitness = sig
	}
	for j := 0; j < links; j++ {
		src := w.blks[mod(i+j+1, len(w.blks))]
		sl := &types.SupLink{SourceHeight: src.height, SourceHash: src.hash}
		nsig := 1
		if sigLevel-j > 0 {
			nsig += sigLevel - j
		}
		if nsig > 3 {
			nsig = 3
		}
		for o := 0; o < nsig; o++ {
			sig := make([]byte, 64)
			for k := range sig {
				sig[k] = 0xab
			}
			sig[0], sig[1], sig[2] = byte(i), byte(j), byte(o)
			sl.Signatures[mod(i+j+o, consensus.MaxNumOfValidators)] = sig
		}
		h.SupLinks = append(h.SupLinks, sl)
	}
	return &h
}

func (w *c21World) checkpoint(cp C21Cp) *state.Checkpoint {
	i := mod(cp.Blk, len(w.blks))
	b := w.blks[i]
	c := &state.Checkpoint{
		Height:    b.height,
		Hash:      b.hash,
		Timestamp: b.base.Timestamp,
		Status:    state.CheckpointStatus(mod(cp.Status, 4)),
		Rewards:   map[string]uint64{fmt.Sprintf("prog%02d", i): uint64(100 + cp.Ver)},
		Votes:     map[string]uint64{fmt.Sprintf("pub%02d", i): uint64(1000 + cp.Ver)},
	}
	if cp.Ver > 1 {
		c.Votes["pubX"] = uint64(cp.Ver)
	}
	if b.parent >= 0 {
		c.ParentHash = w.blks[b.parent].hash
	}
	return c
}

// ---------------------------------------------------------------------------
// Canonical renderings (nil and empty byte strings / lists are the same thing:
// the statement is about values, not about Go representation).

func short(h bc.Hash) string { return fmt.Sprintf("%x", h.Bytes()[:4]) }

func renderHashPtr(h *bc.Hash) string {
	if h == nil {
		return "<nil>"
	}
	return fmt.Sprintf("%x", h.Bytes())
}

func renderSupLinks(ls []*types.SupLink) string {
	var sb strings.Builder
	fmt.Fprintf(&sb, "suplinks(%d)[", len(ls))
	for _, l := range ls {
		if l == nil {
			sb.WriteString("<nil>;")
			continue
		}
		fmt.Fprintf(&sb, "{h=%d src=%x", l.SourceHeight, l.SourceHash.Bytes())
		for o, s := range l.Signatures {
			if len(s) > 0 {
				fmt.Fprintf(&sb, " %d:%x", o, s)
			}
		}
		sb.WriteString("};")
	}
	sb.WriteString("]")
	return sb.String()
}

func renderHeader(h *types.BlockHeader) string {
	if h == nil {
		return "<nil header>"
	}
	return fmt.Sprintf("header{v=%d h=%d prev=%x ts=%d root=%x wit=%x %s}", h.Version, h.Height, h.PreviousBlockHash.Bytes(),
		h.Timestamp, h.TransactionsMerkleRoot.Bytes(), []byte(h.BlockWitness), renderSupLinks(h.SupLinks))
}

func renderTxs(txs []*types.Tx) string {
	var sb strings.Builder
	fmt.Fprintf(&sb, "txs(%d)[", len(txs))
	for _, tx := range txs {
		if tx == nil {
			sb.WriteString("<nil>;")
			continue
		}
		raw, err := tx.TxData.MarshalText()
		if err != nil {
			fmt.Fprintf(&sb, "unserialisable(%v);", err)
			continue
		}
		id := "<no bc.Tx>"
		if tx.Tx != nil {
			id = fmt.Sprintf("%x", tx.ID.Bytes())
		}
		fmt.Fprintf(&sb, "{id=%s size=%d raw=%s};", id, tx.SerializedSize, raw)
	}
	sb.WriteString("]")
	return sb.String()
}

func renderMap(m map[string]uint64) string {
	keys := make([]string, 0, len(m))
	for k := range m {
		keys = append(keys, k)
	}
	sort.Strings(keys)
	var sb strings.Builder
	sb.WriteString("{")
	for _, k := range keys {
		fmt.Fprintf(&sb, "%s:%d,", k, m[k])
	}
	sb.WriteString("}")
	return sb.String()
}

func renderCheckpoint(c *state.Checkpoint) string {
	if c == nil {
		return "<nil checkpoint>"
	}
	return fmt.Sprintf("cp{h=%d hash=%x parent=%x ts=%d status=%d rewards=%s votes=%s parentptr=%v %s}", c.Height, c.Hash.Bytes(),
		c.ParentHash.Bytes(), c.Timestamp, c.Status, renderMap(c.Rewards), renderMap(c.Votes), c.Parent != nil, renderSupLinks(c.SupLinks))
}

func renderCheckpoints(cs []*state.Checkpoint) string {
	var sb strings.Builder
	fmt.Fprintf(&sb, "cps(%d)[", len(cs))
	for _, c := range cs {
		sb.WriteString(renderCheckpoint(c))
		sb.WriteString(";")
	}
	sb.WriteString("]")
	return sb.String()
}

// ---------------------------------------------------------------------------
// Getters

var c21Getters = []string{
	// the four cached primitives first, then what is derived from them
	"GetBlockHeader", "GetBlockTransactions", "GetBlockHashesByHeight", "GetMainChainHash",
	"GetCheckpoint", "GetBlock", "BlockExist", "GetCheckpointsByHeight", "CheckpointsFromNode", "GetStoreStatus",
}

const c21Primitive = 4 // c21Getters[:4]

// cachedGetter: getters answered from an LRU cache when it holds the key.
var c21Cached = map[string]bool{"GetBlockHeader": true, "GetBlockTransactions": true, "GetBlockHashesByHeight": true,
	"GetMainChainHash": true, "GetCheckpoint": true}

// domain returns the number of objects getter g ranges over.
func (w *c21World) domain(g string) int {
	switch g {
	case "GetBlockHeader", "GetBlockTransactions", "GetBlock", "BlockExist", "GetCheckpoint":
		return len(w.blks) + 1 // + one hash that is never stored
	case "GetBlockHashesByHeight", "GetMainChainHash", "GetCheckpointsByHeight":
		return int(w.maxHeight) + 2 // + one height above everything
	case "CheckpointsFromNode":
		return len(w.blks) + 1 // + (0, nil)
	default:
		return 1
	}
}

func (w *c21World) objHash(o int) bc.Hash {
	if o < len(w.blks) {
		return w.blks[o].hash
	}
	return w.unknown
}

func (w *c21World) objName(g string, o int) string {
	switch g {
	case "GetBlockHeader", "GetBlockTransactions", "GetBlock", "BlockExist", "GetCheckpoint":
		if o < len(w.blks) {
			return fmt.Sprintf("block#%d(height %d, %s)", o, w.blks[o].height, short(w.blks[o].hash))
		}
		return "unknown-hash"
	case "CheckpointsFromNode":
		if o < len(w.blks) {
			return fmt.Sprintf("from(height %d, block#%d %s)", w.blks[o].height, o, short(w.blks[o].hash))
		}
		return "from(0,nil)"
	case "GetStoreStatus":
		return "-"
	default:
		return fmt.Sprintf("height %d", o)
	}
}

// c21Call performs one getter call and renders the outcome at once. The
// returned values of the store are not referenced afterwards.
func (w *c21World) call(s *database.Store, g string, o int) (out string, errMsg string) {
	fail := func(err error) (string, string) { return "ERROR", err.Error() }
	switch g {
	case "GetBlockHeader":
		h := w.objHash(o)
		v, err := s.GetBlockHeader(&h)
		if err != nil {
			return fail(err)
		}
		return renderHeader(v), ""
	case "GetBlockTransactions":
		h := w.objHash(o)
		v, err := s.GetBlockTransactions(&h)
		if err != nil {
			return fail(err)
		}
		return renderTxs(v), ""
	case "GetBlock":
		h := w.objHash(o)
		v, err := s.GetBlock(&h)
		if err != nil {
			return fail(err)
		}
		if v == nil {
			return "<nil block>", ""
		}
		return "block{" + renderHeader(&v.BlockHeader) + " " + renderTxs(v.Transactions) + "}", ""
	case "BlockExist":
		h := w.objHash(o)
		return fmt.Sprintf("exist=%v", s.BlockExist(&h)), ""
	case "GetCheckpoint":
		h := w.objHash(o)
		v, err := s.GetCheckpoint(&h)
		if err != nil {
			return fail(err)
		}
		return renderCheckpoint(v), ""
	case "GetBlockHashesByHeight":
		v, err := s.GetBlockHashesByHeight(uint64(o))
		if err != nil {
			return fail(err)
		}
		var sb strings.Builder
		fmt.Fprintf(&sb, "hashes(%d)[", len(v))
		for _, h := range v {
			sb.WriteString(renderHashPtr(h))
			sb.WriteString(",")
		}
		sb.WriteString("]")
		return sb.String(), ""
	case "GetMainChainHash":
		v, err := s.GetMainChainHash(uint64(o))
		if err != nil {
			return fail(err)
		}
		return "hash=" + renderHashPtr(v), ""
	case "GetCheckpointsByHeight":
		v, err := s.GetCheckpointsByHeight(uint64(o))
		if err != nil {
			return fail(err)
		}
		return renderCheckpoints(v), ""
	case "CheckpointsFromNode":
		var v []*state.Checkpoint
		var err error
		if o < len(w.blks) {
			h := w.blks[o].hash
			v, err = s.CheckpointsFromNode(w.blks[o].height, &h)
		} else {
			v, err = s.CheckpointsFromNode(0, nil)
		}
		if err != nil {
			return fail(err)
		}
		return renderCheckpoints(v), ""
	case "GetStoreStatus":
		v := s.GetStoreStatus()
		if v == nil {
			return "<no status>", ""
		}
		return fmt.Sprintf("status{h=%d hash=%s fh=%d fhash=%s}", v.Height, renderHashPtr(v.Hash), v.FinalizedHeight, renderHashPtr(v.FinalizedHash)), ""
	}
	fmt.Fprintf(os.Stderr, "dbsim: HARNESS: unknown getter %q\n", g)
	os.Exit(2)
	return "", ""
}

// ---------------------------------------------------------------------------
// Execution

type c21Seen struct {
	at  int
	val string
}

type c21Run struct {
	r     *simkit.Run
	w     *c21World
	disk  *simdisk.Disk
	store *database.Store
	// bookkeeping for probes and the non-triviality rule only (no oracle uses it)
	saved      []bool // SaveBlock done
	hdrStored  []bool // header stored by either path
	links      []int  // SupLinks in the header as last stored
	level      []int
	wit        []int
	hdrWrites  []int
	cpWrites   []int
	mainAt     map[uint64]int // height -> block index last written to the main-chain index
	mainRewr   map[uint64]bool
	heightCnt  map[uint64]int
	lastSeen   map[string]c21Seen
	filled     map[string]int // getter/object -> clock of the last successful read through the long-lived store
	lastWrite  int            // clock of the last write
	lastWriteK string
	clock      int // advances at every write and every comparison
	history    []string
	writeKinds map[string]bool
	hits       int
	changedHit int
	obs        []byte // running digest of every observation (fingerprint)
	capsV      [5]int
	phase      string // where the current comparison happens (for reports)
	// olderSaved[b]: some SaveBlock overwrote the stored header of block b with the one it first had
	olderSaved []bool
}

func (x *c21Run) note(s string) {
	h := sha256.New()
	h.Write(x.obs)
	h.Write([]byte(s))
	x.obs = h.Sum(nil)[:16]
}

func clip(s string) string {
	if len(s) > 1500 {
		return s[:1500] + fmt.Sprintf("…(%d bytes)", len(s))
	}
	return s
}

func (x *c21Run) hist() string { return strings.Join(x.history, "\n   ") }

// compare reads getter g on object o `reps` (>=2) times through the long-lived
// store, framed by two reads through fresh stores, and checks the oracle.
func (x *c21Run) compare(g string, o int, reps int) bool {
	r, w := x.r, x.w
	x.clock++
	f1, f1err := w.call(database.NewStore(x.disk), g, o)
	key := fmt.Sprintf("%s/%d", g, o)
	writes0 := x.disk.Writes
	prev := ""
	for k := 0; k < reps; k++ {
		before := x.disk.Reads
		a, aerr := w.call(x.store, g, o)
		miss := x.disk.Reads > before
		if c21Cached[g] {
			if miss {
				r.Count("probe.cache_miss", 1)
				if at, ok := x.filled[key]; ok && at > x.lastWrite && a != "ERROR" {
					// filled after the last write and not there any more: evicted, now refilled
					r.Count("probe.evicted_refill", 1)
				}
			} else {
				r.Count("probe.cache_hit", 1)
				x.hits++
				if x.changed(g, o) {
					x.changedHit++
					r.Count("probe.hit_on_overwritten_object", 1)
				}
			}
			if a != "ERROR" {
				x.filled[key] = x.clock
			}
		}
		// Was this very getter/object read through the long-lived store after the
		// last write, and did it agree with the database then? Then a difference
		// now was made by reads alone.
		if k == 0 {
			if ls, ok := x.lastSeen[key]; ok && ls.at > x.lastWrite && ls.val == f1 {
				prev = f1
			}
		}
		if prev != "" && a != prev {
			r.Violate("repeat-read", g,
				"%s(%s): a read through the long-lived store differs from the previous read of the same thing with no write in between (the earlier read agreed with the database)\n earlier: %s\n now:     %s %s\n fresh:   %s\n caps=%v\n found during: %s\n history:\n   %s",
				g, w.objName(g, o), clip(prev), clip(a), aerr, clip(f1), x.caps(), x.phase, x.hist())
			return false
		}
		if a != f1 {
			attr := g
			if x.olderHeaderInvolved(g, o) {
				// the answer depends on a header that some SaveBlock overwrote with an OLDER one
				attr += "/after-saveblock-with-older-header"
			}
			r.Violate("cached-vs-fresh", attr,
				"%s(%s) through the long-lived store differs from a fresh store over the same database (read %d of %d, last write: %s)\n long-lived: %s %s\n fresh:      %s %s\n caps=%v\n found during: %s\n history:\n   %s",
				g, w.objName(g, o), k+1, reps, x.lastWriteK, clip(a), aerr, clip(f1), f1err, x.caps(), x.phase, x.hist())
			return false
		}
		x.lastSeen[key] = c21Seen{at: x.clock, val: a}
		prev = a
	}
	if x.disk.Writes != writes0 {
		// what a fresh store returns is a function of the disk content alone
		r.Violate("reads-wrote-to-database", g,
			"%s(%s): %d reads through the long-lived store made %d write(s) to the database\n history:\n   %s",
			g, w.objName(g, o), reps, x.disk.Writes-writes0, x.hist())
		return false
	}
	x.note(key + "=" + f1)
	r.Count("compare."+g, 1)
	return true
}

func (x *c21Run) caps() [5]int { return x.capsV }

// olderHeaderInvolved: does getter g on object o read a header that was
// overwritten by a SaveBlock carrying an older header (runs with resave=true)?
func (x *c21Run) olderHeaderInvolved(g string, o int) bool {
	switch g {
	case "GetBlockHeader", "GetBlock", "GetCheckpoint":
		return o < len(x.olderSaved) && x.olderSaved[o]
	case "GetCheckpointsByHeight", "CheckpointsFromNode":
		for _, v := range x.olderSaved {
			if v {
				return true
			}
		}
	}
	return false
}

// changed: was the stored value behind (g,o) overwritten at least once?
func (x *c21Run) changed(g string, o int) bool {
	switch g {
	case "GetBlockHeader":
		return o < len(x.w.blks) && x.hdrWrites[o] >= 2
	case "GetCheckpoint":
		return o < len(x.w.blks) && (x.cpWrites[o] >= 2 || (x.cpWrites[o] >= 1 && x.hdrWrites[o] >= 2))
	case "GetMainChainHash":
		return x.mainRewr[uint64(o)]
	case "GetBlockHashesByHeight":
		return x.heightCnt[uint64(o)] >= 2
	}
	return false
}

// sweep compares every getter on every object. The four cached primitives go
// first (in a rotated order), then the derived getters (rotated).
func (x *c21Run) sweep(rot int) bool {
	order := make([]string, 0, len(c21Getters))
	for k := 0; k < c21Primitive; k++ {
		order = append(order, c21Getters[mod(k+rot, c21Primitive)])
	}
	nd := len(c21Getters) - c21Primitive
	for k := 0; k < nd; k++ {
		order = append(order, c21Getters[c21Primitive+mod(k+rot/2, nd)])
	}
	for _, g := range order {
		n := x.w.domain(g)
		for k := 0; k < n; k++ {
			o := mod(k+rot, n)
			if rot%2 == 1 {
				o = mod(rot-k, n)
			}
			if !x.compare(g, o, 2) {
				return false
			}
		}
	}
	x.r.Count("sweeps", 1)
	return true
}

var c21Once sync.Once

func execC21(t *testing.T, plan any, r *simkit.Run) {
	p := plan.(*C21Plan)
	if len(p.Blocks) == 0 {
		return
	}
	c21Once.Do(func() {
		logrus.SetLevel(logrus.PanicLevel) // the store logs every save; keep worker logs small
		debug.SetGCPercent(800)            // tiny live heap, allocation-heavy runs: collect less often
	})
	var captured *simkit.CapturedPanic
	synctest.Test(t, func(t *testing.T) {
		defer func() {
			if pv := recover(); pv != nil {
				captured = simkit.Capture(pv) // keeps the stack of the panicking frame
			}
		}()
		runC21(p, r)
	})
	if captured != nil {
		panic(captured) // simkit: Bytom frame on the stack -> violation, otherwise harness error (exit 2)
	}
}

func (x *c21Run) capsSet(c [5]int) { x.capsV = c }

func runC21(p *C21Plan, r *simkit.Run) {
	w := buildWorld(p)
	n := len(w.blks)
	x := &c21Run{r: r, w: w, disk: simdisk.New(),
		saved: make([]bool, n), hdrStored: make([]bool, n), links: make([]int, n), level: make([]int, n), wit: make([]int, n),
		hdrWrites: make([]int, n), cpWrites: make([]int, n), olderSaved: make([]bool, n),
		mainAt: map[uint64]int{}, mainRewr: map[uint64]bool{}, heightCnt: map[uint64]int{},
		filled: map[string]int{}, lastSeen: map[string]c21Seen{}, lastWriteK: "nothing", writeKinds: map[string]bool{}}
	var caps [5]int
	tiny := false
	for i, c := range p.Caps {
		caps[i] = mod(c, 5)
		if caps[i] > 0 {
			tiny = true
		}
	}
	x.capsSet(caps)
	if tiny {
		x.store = database.NewStoreWithCacheSizes(x.disk, caps[0], caps[1], caps[2], caps[3], caps[4])
		r.Count("runs.tiny_caches", 1)
	} else {
		x.store = database.NewStore(x.disk)
		r.Count("runs.production_caches", 1)
	}
	r.Tracef("universe: %d blocks, caps=%v sweep_all=%v resave=%v", n, caps, p.SweepAll, p.Resave)
	for i, b := range w.blks {
		r.Tracef("  block#%d height=%d parent=#%d hash=%s txs=%d links0=%d", i, b.height, b.parent, short(b.hash), len(b.txs), b.links0)
	}

	for i := range p.Ops {
		op := &p.Ops[i]
		line := ""
		kind := op.Kind
		switch op.Kind {
		case "read":
			g := c21Getters[mod(op.A, len(c21Getters))]
			o := mod(op.B, w.domain(g))
			reps := 1 + mod(op.C-1, 3)
			line = fmt.Sprintf("%d read %s(%s) x%d", i, g, w.objName(g, o), reps)
			x.history = append(x.history, line)
			r.FP(line)
			x.phase = fmt.Sprintf("the explicit read of op %d", i)
			if !x.compare(g, o, reps) {
				return
			}
		case "saveblock":
			b := mod(op.A, n)
			links, level, wit := x.links[b], x.level[b], x.wit[b]
			if !x.hdrStored[b] {
				links, level, wit = w.blks[b].links0, 0, 0
			} else if p.Resave && op.B == 1 && (links != w.blks[b].links0 || level != 0 || wit != 0) {
				// the block as it first came (e.g. received again from a peer): fewer SupLinks than stored
				links, level, wit = w.blks[b].links0, 0, 0
				kind = "saveblock-with-older-header"
				x.olderSaved[b] = true
			} else if x.saved[b] {
				kind = "saveblock-again"
			}
			blk := &types.Block{BlockHeader: *w.header(b, links, level, wit), Transactions: append([]*types.Tx{}, w.blks[b].txs...)}
			err := x.store.SaveBlock(blk)
			line = fmt.Sprintf("%d %s block#%d (height %d, %s) with %d suplinks level %d witness v%d -> err=%v", i, kind, b, w.blks[b].height, short(w.blks[b].hash), links, level, wit, err)
			x.history = append(x.history, line)
			x.saved[b], x.hdrStored[b] = true, true
			x.links[b], x.level[b], x.wit[b] = links, level, wit
			x.hdrWrites[b]++
			x.heightCnt[w.blks[b].height]++
		case "saveheader":
			b := mod(op.A, n)
			if !x.hdrStored[b] {
				x.links[b] = w.blks[b].links0
			}
			extra := 1 + mod(op.B-1, 2)
			if x.level[b]+extra > c21MaxRev {
				extra = c21MaxRev - x.level[b]
			}
			if extra > 0 {
				x.links[b] += extra
				x.level[b] += extra
			}
			if op.C != 0 || extra <= 0 {
				x.wit[b]++
			}
			err := x.store.SaveBlockHeader(w.header(b, x.links[b], x.level[b], x.wit[b]))
			line = fmt.Sprintf("%d saveheader block#%d (height %d, %s) now %d suplinks level %d witness v%d -> err=%v", i, b, w.blks[b].height, short(w.blks[b].hash), x.links[b], x.level[b], x.wit[b], err)
			x.history = append(x.history, line)
			x.hdrStored[b] = true
			x.hdrWrites[b]++
		case "savestatus":
			tip := mod(op.A, n)
			var path []int // tip and up to `depth` ancestors
			for b, d := tip, 0; b >= 0 && d <= mod(op.B, 7); b, d = w.blks[b].parent, d+1 {
				path = append(path, b)
			}
			var headers []*types.BlockHeader
			for k := len(path) - 1; k >= 0; k-- { // ascending heights, as the chain passes attach nodes
				headers = append(headers, w.header(path[k], x.links[path[k]], x.level[path[k]], x.wit[path[k]]))
			}
			fin := tip
			for d := 0; d < mod(op.C, 4)+1 && w.blks[fin].parent >= 0; d++ {
				fin = w.blks[fin].parent
			}
			finHash := w.blks[fin].hash
			err := x.store.SaveChainStatus(w.header(tip, x.links[tip], x.level[tip], x.wit[tip]), headers,
				state.NewUtxoViewpoint(), state.NewContractViewpoint(), w.blks[fin].height, &finHash)
			line = fmt.Sprintf("%d savestatus tip block#%d (height %d) main-chain index rewritten for blocks %v, finalized block#%d -> err=%v", i, tip, w.blks[tip].height, path, fin, err)
			x.history = append(x.history, line)
			for _, b := range path {
				h := w.blks[b].height
				if old, ok := x.mainAt[h]; ok && old != b {
					x.mainRewr[h] = true
					r.Count("op.mainchain_height_rewritten", 1)
				}
				x.mainAt[h] = b
			}
		case "savecps":
			var cps []*state.Checkpoint
			desc := []string{}
			for _, it := range op.Items {
				c := w.checkpoint(it)
				cps = append(cps, c)
				b := mod(it.Blk, n)
				if x.cpWrites[b] > 0 {
					r.Count("op.checkpoint_resaved", 1)
				}
				x.cpWrites[b]++
				desc = append(desc, fmt.Sprintf("block#%d status=%d ver=%d", b, c.Status, it.Ver))
			}
			err := x.store.SaveCheckpoints(cps)
			line = fmt.Sprintf("%d savecps [%s] -> err=%v", i, strings.Join(desc, "; "), err)
			x.history = append(x.history, line)
		default:
			fmt.Fprintf(os.Stderr, "dbsim: HARNESS: unknown op kind %q\n", op.Kind)
			os.Exit(2)
		}
		if op.Kind != "read" {
			x.clock++
			x.lastWrite, x.lastWriteK = x.clock, kind
			x.writeKinds[op.Kind] = true
			r.Count("op."+kind, 1)
			r.FP(line)
		} else {
			r.Count("op.read", 1)
		}
		if p.SweepAll || op.Sweep {
			x.phase = fmt.Sprintf("the comparison of every getter on every object (each read twice) after op %d", i)
			if !x.sweep(op.Rot) {
				break
			}
		}
		if r.Failed() {
			break
		}
	}
	if !r.Failed() {
		x.phase = "the final comparison of every getter on every object (each read twice) after the last op"
		x.sweep(0) // nothing stale may survive the end of the history
	}
	for _, l := range x.history {
		r.Tracef("%s", l)
	}
	r.FP(fmt.Sprintf("%x", x.obs))
	if len(x.writeKinds) >= 3 && x.changedHit > 0 {
		r.NonTrivial()
	}
}

// SpecC21 is the C21 check.
func SpecC21() simkit.Spec {
	return simkit.Spec{
		Prop:    "C21",
		Gen:     genC21,
		NewPlan: func() any { return &C21Plan{} },
		Exec:    execC21,
		Rule: "histories of 0-40 ops (mean about 20) over a tree of 3-8 synthetic blocks (several per height) and their checkpoints: SaveBlock, SaveBlockHeader (same hash, more SupLinks/signatures, other witness), " +
			"SaveChainStatus (main-chain index rewritten along a branch), SaveCheckpoints (new and re-saved with other status/votes; also before their block), explicit reads (one getter, 1-3 times); " +
			"LRU capacities production or 1-4 per cache; full comparison of all 10 getters on all objects (stored and never-stored) after every op (2/3 of runs) or at drawn ops, and always at the end; " +
			"non-trivial = >=3 kinds of save and at least one answer served from a cache for an object whose stored value had been overwritten; distinct = hash of the save sequence and of every observation",
		Components: map[string]string{
			"database.Store (store.go, store_checkpoint.go, cache.go), common.Cache, groupcache lru + singleflight": "real",
			"protocol/bc/types serialisation, protocol/state.Checkpoint JSON":                                       "real",
			"simdisk": "stub storage engine (validated against goleveldb by C20)",
		},
		Assumptions: []string{
			"sequential histories only: one call at a time, no concurrent readers and writers (singleflight paths run but never overlap)",
			"the harness never mutates an object returned by the store; callers that do (casper mutates returned checkpoints before saving them) are outside this check",
			"reference = a fresh database.NewStore over the same disk per call; values are compared by canonical rendering of every field (nil and empty lists/byte strings equal), errors by presence only",
			"SaveBlock is given a block whose header equals the stored one when the block is already stored, except in runs with resave=true (SaveBlock with the header the block first had)",
			"UTXO and contract views passed to SaveChainStatus are empty; GetUtxo/GetContract are uncached and not covered",
		},
		FaultKinds: []string{},
		Probes: []string{"probe.cache_hit", "probe.cache_miss", "probe.evicted_refill", "probe.hit_on_overwritten_object",
			"op.mainchain_height_rewritten", "op.checkpoint_resaved", "op.saveblock-with-older-header"},
	}
}
