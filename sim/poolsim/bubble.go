package poolsim

import (
	"fmt"
	"os"
	"runtime/debug"
	"strings"
	"testing"
	"testing/synctest"

	"verif/sim/simkit"
)

// inBubble runs f inside a synctest bubble. The pool's orphan-expiry goroutine
// never ends, so the bubble ends with the "blocked goroutines remain" complaint,
// which is the only panic swallowed. A panic raised under a Bytom frame becomes
// a violation (oracle "panic"); any other panic is a harness bug (exit 2).
func inBubble(t *testing.T, r *simkit.Run, f func()) {
	var pv any
	var stack string
	func() {
		defer func() {
			if p := recover(); p != nil {
				msg := fmt.Sprint(p)
				if strings.Contains(msg, "deadlock") || strings.Contains(msg, "blocked goroutines") {
					return
				}
				panic(p)
			}
		}()
		synctest.Test(t, func(t *testing.T) {
			defer func() {
				if p := recover(); p != nil {
					pv = p
					stack = string(debug.Stack())
				}
			}()
			f()
		})
	}()
	if pv == nil {
		return
	}
	where := ""
	for _, l := range strings.Split(stack, "\n") {
		if strings.HasPrefix(l, "github.com/bytom/bytom/") {
			fn := l
			if i := strings.LastIndex(fn, "("); i > 0 {
				fn = fn[:i]
			}
			where = strings.TrimPrefix(fn, "github.com/bytom/bytom/")
			break
		}
	}
	if where == "" {
		fmt.Fprintf(os.Stderr, "poolsim: HARNESS PANIC inside bubble: %v\n%s\n", pv, stack)
		os.Exit(2)
	}
	lines := strings.Split(stack, "\n")
	if len(lines) > 40 {
		lines = lines[:40]
	}
	r.Violate("panic", where, "panic: %v\n%s", pv, strings.Join(lines, "\n"))
}
