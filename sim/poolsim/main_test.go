package poolsim

import (
	"testing"

	"verif/sim/simkit"
)

func TestC22(t *testing.T) { simkit.Main(t, SpecC22()) }
