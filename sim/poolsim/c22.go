// Package poolsim decides C22 (mempool bookkeeping stays consistent): the REAL
// protocol.TxPool runs inside a testing/synctest bubble over a stub store and a
// real event.Dispatcher; a reference pool written from the property statement
// is stepped alongside and compared after every pool call.
package poolsim

import (
	"fmt"
	"io"
	"os"
	"sort"
	"strings"
	"testing"
	"testing/synctest"
	"time"

	log "github.com/sirupsen/logrus"
	"pgregory.net/rapid"

	"github.com/bytom/bytom/consensus"
	"github.com/bytom/bytom/database/storage"
	"github.com/bytom/bytom/event"
	"github.com/bytom/bytom/protocol"
	"github.com/bytom/bytom/protocol/bc"
	"github.com/bytom/bytom/protocol/bc/types"
	"github.com/bytom/bytom/protocol/state"

	"verif/sim/simkit"
)

func init() {
	// The pool logs dust / debug lines through logrus; they never reach a decision.
	log.SetOutput(io.Discard)
	log.SetLevel(log.PanicLevel)
}

// ---------------------------------------------------------------- plan ------

// InRef is an abstract reference to the output an input spends. Tx < 0 (or not
// an earlier transaction, or an earlier transaction without ordinary outputs)
// means "confirmed-world output number Out mod NG"; otherwise the Out-th
// (modulo) ordinary output of transaction Tx.
type InRef struct {
	Tx  int `json:"tx"`
	Out int `json:"out"`
}

// Output kinds.
const (
	kindOrdinary = 0
	kindRetire   = 1
	kindVote     = 2
)

// Dust kinds (the pool documents that dust transactions are ignored).
const (
	dustNone    = 0
	dustNoBTM   = 1 // no BTM input at all
	dustZeroOut = 2 // an output of amount zero
)

// TxSpec describes one generated transaction.
type TxSpec struct {
	Ins  []InRef `json:"ins"`
	Outs []int   `json:"outs"`
	Dust int     `json:"dust,omitempty"`
}

// Op is one operation; A and B are interpreted modulo live state.
type Op struct {
	K string `json:"k"`
	A int    `json:"a,omitempty"`
	B int    `json:"b,omitempty"`
}

// C22Plan is one history.
type C22Plan struct {
	NG        int      `json:"ng"`         // number of confirmed-world outputs
	G0        []int    `json:"g0"`         // initial state of each: 1 present in the store, 0 not (yet) existing
	GCoinbase []bool   `json:"g_coinbase"` // kept as a spent record after being spent (coinbase outputs are)
	Txs       []TxSpec `json:"txs"`
	MaxPool   int      `json:"max_pool,omitempty"`   // 0 = the default limit
	MaxOrphan int      `json:"max_orphan,omitempty"` // 0 = the default limit
	Ops       []Op     `json:"ops"`
}

var advanceMenu = []time.Duration{time.Second, time.Minute, 3 * time.Minute, 5 * time.Minute, 9 * time.Minute,
	10 * time.Minute, 11 * time.Minute, 31 * time.Minute}
var expireOffsetMenu = []time.Duration{0, time.Minute, 10 * time.Minute, -5 * time.Minute, 24 * time.Hour}

func genTx(rt *rapid.T) TxSpec {
	var ts TxSpec
	nin := 1
	switch w := rapid.IntRange(0, 9).Draw(rt, "nin"); {
	case w >= 9:
		nin = 4
	case w >= 8:
		nin = 3
	case w >= 5:
		nin = 2
	}
	for j := 0; j < nin; j++ {
		// Tx is relative here: 0 = a confirmed-world output, k = the k-th transaction
		// before this one (made absolute below).
		back := 0
		switch src := rapid.IntRange(0, 9).Draw(rt, "src"); {
		case src < 2:
		case src < 6:
			back = 1
		default:
			back = rapid.IntRange(1, 8).Draw(rt, "back")
		}
		ts.Ins = append(ts.Ins, InRef{Tx: back, Out: rapid.IntRange(0, 3).Draw(rt, "out")})
	}
	nout := rapid.IntRange(1, 3).Draw(rt, "nout")
	for j := 0; j < nout; j++ {
		k := kindOrdinary
		switch w := rapid.IntRange(0, 9).Draw(rt, "okind"); {
		case w >= 9:
			k = kindVote
		case w >= 7:
			k = kindRetire
		}
		ts.Outs = append(ts.Outs, k)
	}
	switch w := rapid.IntRange(0, 24).Draw(rt, "dust"); {
	case w == 24:
		ts.Dust = dustZeroOut
	case w == 23:
		ts.Dust = dustNoBTM
	}
	return ts
}

func genC22(rt *rapid.T) any {
	p := &C22Plan{}
	p.NG = rapid.IntRange(1, 4).Draw(rt, "ng")
	for g := 0; g < p.NG; g++ {
		st := 1
		if rapid.IntRange(0, 3).Draw(rt, "g0") == 3 {
			st = 0
		}
		p.G0 = append(p.G0, st)
		p.GCoinbase = append(p.GCoinbase, rapid.IntRange(0, 3).Draw(rt, "gcb") == 3)
	}
	// (the lower bounds are drawn so that long plans are common and still shrink element-wise)
	minTx := rapid.IntRange(2, 7).Draw(rt, "mintx")
	p.Txs = rapid.SliceOfN(rapid.Custom(genTx), minTx, 9).Draw(rt, "txs")
	for i := range p.Txs {
		for j := range p.Txs[i].Ins {
			// relative -> absolute; anything before the first transaction is a confirmed-world output
			back := p.Txs[i].Ins[j].Tx
			if back == 0 || i-back < 0 {
				p.Txs[i].Ins[j].Tx = -1
			} else {
				p.Txs[i].Ins[j].Tx = i - back
			}
		}
	}
	n := len(p.Txs)
	if rapid.IntRange(0, 3).Draw(rt, "limpool") >= 3 {
		p.MaxPool = rapid.IntRange(1, 5).Draw(rt, "maxpool")
	}
	if rapid.IntRange(0, 3).Draw(rt, "limorph") >= 3 {
		p.MaxOrphan = rapid.IntRange(1, 4).Draw(rt, "maxorphan")
	}
	minOps := rapid.IntRange(1, 30).Draw(rt, "minops")
	p.Ops = rapid.SliceOfN(rapid.Custom(func(rt *rapid.T) Op {
		op := Op{}
		switch w := rapid.IntRange(0, 19).Draw(rt, "kind"); {
		case w <= 3:
			op.K = "submit"
		case w <= 10:
			op.K = "submitnew"
		case w <= 12:
			op.K = "remove"
		case w <= 14:
			op.K = "confirm"
		case w == 15:
			op.K = "unconfirm"
		case w == 16:
			op.K = "gset"
		case w <= 18:
			op.K = "advance"
		default:
			op.K = "expire"
		}
		switch op.K {
		case "gset":
			op.A = rapid.IntRange(0, 3).Draw(rt, "g")
		case "advance", "expire":
			op.B = rapid.IntRange(0, 7).Draw(rt, "b")
		case "unconfirm":
			op.A = rapid.IntRange(0, n-1).Draw(rt, "a")
			op.B = rapid.IntRange(0, 1).Draw(rt, "b")
		default:
			op.A = rapid.IntRange(0, n-1).Draw(rt, "a")
		}
		return op
	}), minOps, 40).Draw(rt, "ops")
	return p
}

// ---------------------------------------------------------------- world -----

// outKey names an output abstractly: tx >= 0: output pos of generated
// transaction tx; tx == -1: confirmed-world output number pos.
type outKey struct{ tx, pos int }

func (o outKey) String() string {
	if o.tx < 0 {
		return fmt.Sprintf("g%d", o.pos)
	}
	return fmt.Sprintf("t%d.%d", o.tx, o.pos)
}

type txInfo struct {
	tx     *types.Tx
	ins    []outKey
	outs   []int
	outIDs []bc.Hash
	amts   []uint64
	dust   int
}

type world struct {
	txs    []*txInfo
	gIDs   []bc.Hash
	byTxID map[bc.Hash]int
	byOut  map[bc.Hash]outKey
}

func harnessFail(format string, args ...any) {
	fmt.Fprintf(os.Stderr, "poolsim: HARNESS: "+format+"\n", args...)
	os.Exit(2)
}

func gSource(g int) (bc.Hash, uint64, uint64, []byte) {
	return bc.NewHash([32]byte{0x47, byte(g + 1)}), uint64(100 + g), uint64(g), []byte{0x51}
}

func gInput(g int) *types.TxInput {
	src, amt, pos, prog := gSource(g)
	return types.NewSpendInput(nil, src, *consensus.BTMAssetID, amt, pos, prog, nil)
}

func outProgram(i, pos, kind int) []byte {
	if kind == kindRetire {
		return []byte{0x6a, byte(i), byte(pos)} // OP_FAIL first: an unspendable (retirement) output
	}
	return []byte{0x51, byte(i), byte(pos)}
}

func outAmount(i, pos int) uint64 { return uint64(10 + pos + 16*i) }

func buildWorld(p *C22Plan) *world {
	w := &world{byTxID: map[bc.Hash]int{}, byOut: map[bc.Hash]outKey{}}
	ng := p.NG
	if ng < 1 {
		ng = 1
	}
	for g := 0; g < ng; g++ {
		probe := types.NewTx(types.TxData{Version: 1, Inputs: []*types.TxInput{gInput(g)},
			Outputs: []*types.TxOutput{types.NewOriginalTxOutput(*consensus.BTMAssetID, 1, []byte{0x51}, nil)}})
		id := probe.SpentOutputIDs[0]
		w.gIDs = append(w.gIDs, id)
		w.byOut[id] = outKey{-1, g}
	}
	for i := range p.Txs {
		ts := &p.Txs[i]
		ti := &txInfo{dust: ts.Dust}
		seen := map[outKey]bool{}
		var inputs []*types.TxInput
		for _, ref := range ts.Ins {
			key := outKey{-1, mod(ref.Out, ng)}
			if ref.Tx >= 0 && ref.Tx < i {
				var ords []int
				for pos, k := range w.txs[ref.Tx].outs {
					if k == kindOrdinary {
						ords = append(ords, pos)
					}
				}
				if len(ords) > 0 {
					key = outKey{ref.Tx, ords[mod(ref.Out, len(ords))]}
				}
			}
			if seen[key] {
				continue
			}
			seen[key] = true
			ti.ins = append(ti.ins, key)
			if key.tx < 0 {
				inputs = append(inputs, gInput(key.pos))
			} else {
				parent := w.txs[key.tx]
				e, ok := parent.tx.Entries[parent.outIDs[key.pos]].(*bc.OriginalOutput)
				if !ok {
					harnessFail("parent output %v is not an ordinary output entry", key)
				}
				inputs = append(inputs, types.NewSpendInput(nil, *e.Source.Ref, *consensus.BTMAssetID, parent.amts[key.pos],
					uint64(key.pos), outProgram(key.tx, key.pos, kindOrdinary), nil))
			}
		}
		if len(ti.ins) == 0 {
			ti.ins = append(ti.ins, outKey{-1, 0})
			inputs = append(inputs, gInput(0))
		}
		if ts.Dust == dustNoBTM {
			// the same shape, but every input carries a foreign asset: no BTM input
			inputs = inputs[:0]
			for j := range ti.ins {
				inputs = append(inputs, types.NewSpendInput(nil, bc.NewHash([32]byte{0xd0, byte(i), byte(j)}),
					bc.NewAssetID([32]byte{0xa1}), 5, 0, []byte{0x51}, nil))
			}
		}
		var outputs []*types.TxOutput
		outs := ts.Outs
		if len(outs) == 0 {
			outs = []int{kindOrdinary}
		}
		for pos, k := range outs {
			amt := outAmount(i, pos)
			if ts.Dust == dustZeroOut && pos == len(outs)-1 {
				amt = 0
			}
			switch k {
			case kindVote:
				outputs = append(outputs, types.NewVoteOutput(*consensus.BTMAssetID, amt, outProgram(i, pos, k), make([]byte, 64), nil))
			case kindRetire:
				outputs = append(outputs, types.NewOriginalTxOutput(*consensus.BTMAssetID, amt, outProgram(i, pos, k), nil))
			default:
				k = kindOrdinary
				outputs = append(outputs, types.NewOriginalTxOutput(*consensus.BTMAssetID, amt, outProgram(i, pos, k), nil))
			}
			ti.outs = append(ti.outs, k)
			ti.amts = append(ti.amts, amt)
		}
		ti.tx = types.NewTx(types.TxData{Version: 1, SerializedSize: uint64(100 + i), TimeRange: uint64(i + 1), Inputs: inputs, Outputs: outputs})
		for pos, id := range ti.tx.ResultIds {
			ti.outIDs = append(ti.outIDs, *id)
			if prev, dup := w.byOut[*id]; dup {
				// Retirement entries do not commit to a program: two transactions with
				// the same inputs can share a retirement id. Such ids are in no index.
				if ti.outs[pos] != kindRetire || w.kind(prev) != kindRetire {
					harnessFail("output id collision %v / t%d.%d", prev, i, pos)
				}
				continue
			}
			w.byOut[*id] = outKey{i, pos}
		}
		if ts.Dust != dustNoBTM {
			if len(ti.tx.SpentOutputIDs) != len(ti.ins) {
				harnessFail("t%d has %d spent ids for %d inputs", i, len(ti.tx.SpentOutputIDs), len(ti.ins))
			}
			for j, key := range ti.ins {
				if ti.tx.SpentOutputIDs[j] != w.outID(key) {
					harnessFail("t%d input %d does not reference %v", i, j, key)
				}
			}
		}
		if _, dup := w.byTxID[ti.tx.ID]; dup {
			harnessFail("tx id collision at t%d", i)
		}
		w.byTxID[ti.tx.ID] = i
		w.txs = append(w.txs, ti)
	}
	return w
}

func (w *world) outID(o outKey) bc.Hash {
	if o.tx < 0 {
		return w.gIDs[o.pos]
	}
	return w.txs[o.tx].outIDs[o.pos]
}

func (w *world) kind(o outKey) int {
	if o.tx < 0 {
		return kindOrdinary
	}
	return w.txs[o.tx].outs[o.pos]
}

func mod(a, n int) int {
	if n <= 0 {
		return 0
	}
	a %= n
	if a < 0 {
		a += n
	}
	return a
}

// ---------------------------------------------------------------- stub store

// stubStore serves exactly the unspent-output records the reference ledger
// says a store would hold; everything else of state.Store is unused by TxPool.
type stubStore struct {
	utxo  map[bc.Hash]*storage.UtxoEntry
	calls int
}

func (s *stubStore) GetTransactionsUtxo(view *state.UtxoViewpoint, txs []*bc.Tx) error {
	s.calls++
	for _, tx := range txs {
		for _, prevout := range tx.SpentOutputIDs {
			if _, ok := view.Entries[prevout]; ok {
				continue
			}
			if e, ok := s.utxo[prevout]; ok {
				c := *e
				view.Entries[prevout] = &c
			}
		}
	}
	return nil
}
func (s *stubStore) GetUtxo(h *bc.Hash) (*storage.UtxoEntry, error) {
	if e, ok := s.utxo[*h]; ok {
		c := *e
		return &c, nil
	}
	return nil, fmt.Errorf("can't find utxo in db")
}
func (s *stubStore) BlockExist(*bc.Hash) bool                            { return false }
func (s *stubStore) GetBlock(*bc.Hash) (*types.Block, error)             { return nil, nil }
func (s *stubStore) GetBlockHeader(*bc.Hash) (*types.BlockHeader, error) { return nil, nil }
func (s *stubStore) GetStoreStatus() *state.BlockStoreState              { return nil }
func (s *stubStore) GetMainChainHash(uint64) (*bc.Hash, error)           { return nil, nil }
func (s *stubStore) GetContract([32]byte) ([]byte, error)                { return nil, nil }
func (s *stubStore) GetCheckpoint(*bc.Hash) (*state.Checkpoint, error)   { return nil, nil }
func (s *stubStore) SaveCheckpoints([]*state.Checkpoint) error           { return nil }
func (s *stubStore) SaveBlock(*types.Block) error                        { return nil }
func (s *stubStore) SaveBlockHeader(*types.BlockHeader) error            { return nil }
func (s *stubStore) GetCheckpointsByHeight(uint64) ([]*state.Checkpoint, error) {
	return nil, nil
}
func (s *stubStore) CheckpointsFromNode(uint64, *bc.Hash) ([]*state.Checkpoint, error) {
	return nil, nil
}
func (s *stubStore) SaveChainStatus(*types.BlockHeader, []*types.BlockHeader, *state.UtxoViewpoint, *state.ContractViewpoint, uint64, *bc.Hash) error {
	return nil
}

// ---------------------------------------------------------------- model -----

type orphInfo struct {
	expLo, expHi time.Time // expiration lies in [expLo, expHi] (a re-arrival may or may not refresh it)
	tainted      bool      // an input was taken away by a store change while it waited: index/promptness not claimed
}

const (
	gNever   = 0
	gPresent = 1
	gGone    = 2
)

// model is the reference pool plus the reference ledger ("what the store holds").
type model struct {
	w         *world
	gState    []int
	confirmed map[int]bool
	pooled    map[int]bool
	orphans   map[int]*orphInfo
}

func (m *model) spentByConfirmed(o outKey) bool {
	for i := range m.w.txs {
		if !m.confirmed[i] {
			continue
		}
		for _, in := range m.w.txs[i].ins {
			if in == o {
				return true
			}
		}
	}
	return false
}

// storeHas: the store holds o as an unspent output.
func (m *model) storeHas(o outKey) bool {
	if o.tx < 0 {
		return m.gState[o.pos] == gPresent && !m.spentByConfirmed(o)
	}
	return m.confirmed[o.tx] && m.w.kind(o) != kindRetire && !m.spentByConfirmed(o)
}

// available: a transaction spending o has this parent at hand - o is unspent in
// the store, or it is a spendable (ordinary) output of a pooled transaction.
func (m *model) available(o outKey) bool {
	if m.storeHas(o) {
		return true
	}
	return o.tx >= 0 && m.pooled[o.tx] && m.w.kind(o) == kindOrdinary
}

// consumed: o was spent on the chain; nothing the pool can receive brings it back.
func (m *model) consumed(o outKey) bool {
	if o.tx < 0 && m.gState[o.pos] == gGone {
		return true
	}
	return m.spentByConfirmed(o)
}

func (m *model) missing(i int) []outKey {
	var out []outKey
	for _, in := range m.w.txs[i].ins {
		if !m.available(in) {
			out = append(out, in)
		}
	}
	return out
}

// waits: the outputs orphan i still waits for.
func (m *model) waits(i int) []outKey {
	var out []outKey
	for _, in := range m.w.txs[i].ins {
		if !m.available(in) && !m.consumed(in) {
			out = append(out, in)
		}
	}
	return out
}

func (m *model) availMap() map[outKey]bool {
	a := map[outKey]bool{}
	for i := range m.w.txs {
		for _, in := range m.w.txs[i].ins {
			a[in] = m.available(in)
		}
	}
	return a
}

// taintLost marks orphans one of whose inputs was available before a store
// change and is not any more.
func (m *model) taintLost(before map[outKey]bool, r *simkit.Run) {
	for _, i := range sortedKeys(m.orphans) {
		for _, in := range m.w.txs[i].ins {
			if before[in] && !m.available(in) && !m.orphans[i].tainted {
				m.orphans[i].tainted = true
				r.Count("probe.orphan_input_lost_by_store", 1)
			}
		}
	}
}

func sortedKeys[V any](m map[int]V) []int {
	out := make([]int, 0, len(m))
	for k := range m {
		out = append(out, k)
	}
	sort.Ints(out)
	return out
}

func names(prefix string, ids []int) string {
	s := make([]string, len(ids))
	for i, v := range ids {
		s[i] = fmt.Sprintf("%s%d", prefix, v)
	}
	return "[" + strings.Join(s, " ") + "]"
}

func outNames(os []outKey) string {
	s := make([]string, len(os))
	for i, v := range os {
		s[i] = v.String()
	}
	return "[" + strings.Join(s, " ") + "]"
}

// ---------------------------------------------------------------- executor --

type sim struct {
	r         *simkit.Run
	w         *world
	m         *model
	st        *stubStore
	tp        *protocol.TxPool
	ttl       time.Duration
	maxPool   int
	maxOrphan int
	start     time.Time
	kinds     map[string]bool
	promos    int
	multiOrph int
	gcb       []bool
	seen      map[int]bool
	stop      bool // end the history (the pool made an order-dependent choice)
}

// syncStore rebuilds what the stub store serves from the reference ledger.
func (s *sim) syncStore() {
	u := map[bc.Hash]*storage.UtxoEntry{}
	for g := range s.m.gState {
		o := outKey{-1, g}
		switch {
		case s.m.storeHas(o):
			u[s.w.outID(o)] = storage.NewUtxoEntry(storage.NormalUTXOType, 1, false)
		case s.m.gState[g] != gNever && s.gCoinbase(g):
			// a spent coinbase output stays in the store as a spent record
			u[s.w.outID(o)] = storage.NewUtxoEntry(storage.CoinbaseUTXOType, 1, true)
		}
	}
	for i, ti := range s.w.txs {
		for pos := range ti.outs {
			o := outKey{i, pos}
			if s.m.storeHas(o) {
				typ := storage.NormalUTXOType
				if ti.outs[pos] == kindVote {
					typ = storage.VoteUTXOType
				}
				u[s.w.outID(o)] = storage.NewUtxoEntry(typ, 2, false)
			}
		}
	}
	s.st.utxo = u
}

func (s *sim) gCoinbase(g int) bool { return g < len(s.gcb) && s.gcb[g] }

type realState struct {
	pooled  map[int]bool
	orphans map[int]bool
	snap    *protocol.VerifTxPoolSnapshot
}

// observe reads the real pool; ids the world does not know are violations.
func (s *sim) observe(opk string) *realState {
	snap := s.tp.VerifSnapshot()
	rs := &realState{pooled: map[int]bool{}, orphans: map[int]bool{}, snap: snap}
	for _, id := range snap.Pool {
		i, ok := s.w.byTxID[id]
		if !ok {
			s.r.Violate("pooled-unknown-tx", opk, "after %s the pool holds a transaction id nobody submitted: %s", opk, id.String())
			continue
		}
		rs.pooled[i] = true
	}
	for id := range snap.Orphans {
		i, ok := s.w.byTxID[id]
		if !ok {
			s.r.Violate("orphan-unknown-tx", opk, "after %s the orphan set holds an id nobody submitted: %s", opk, id.String())
			continue
		}
		rs.orphans[i] = true
	}
	return rs
}

// check compares the real pool with the reference pool and checks every index
// invariant of the statement. Returns false when a violation was recorded.
func (s *sim) check(opk string, rs *realState) bool {
	r, m, w := s.r, s.m, s.w
	if r.Failed() {
		return false
	}
	// No transaction is both pooled and orphaned.
	for _, i := range sortedKeys(rs.pooled) {
		if rs.orphans[i] {
			r.Violate("pooled-and-orphaned", opk, "after %s: t%d is both pooled and in the orphan set", opk, i)
			return false
		}
	}
	// Same pooled set, same orphan set as the reference pool.
	for i := range w.txs {
		if rs.pooled[i] != m.pooled[i] {
			r.Violate("pooled-set", opk, "after %s: t%d pooled=%v, reference pool says %v (real %s, reference %s)", opk, i, rs.pooled[i], m.pooled[i],
				names("t", sortedKeys(rs.pooled)), names("t", sortedKeys(m.pooled)))
			return false
		}
		_, mo := m.orphans[i]
		if rs.orphans[i] != mo {
			r.Violate("orphan-set", opk, "after %s: t%d orphan=%v, reference pool says %v (real %s, reference %s)", opk, i, rs.orphans[i], mo,
				names("t", sortedKeys(rs.orphans)), names("t", sortedKeys(m.orphans)))
			return false
		}
	}
	// The exported views agree with the bookkeeping.
	listed := map[int]bool{}
	for _, d := range s.tp.GetTransactions() {
		i, ok := w.byTxID[d.Tx.ID]
		if !ok || listed[i] {
			r.Violate("get-transactions", opk, "after %s: GetTransactions lists an unknown or duplicate transaction", opk)
			return false
		}
		listed[i] = true
	}
	for i, ti := range w.txs {
		id := ti.tx.ID
		if listed[i] != m.pooled[i] || s.tp.IsTransactionInPool(&id) != m.pooled[i] {
			r.Violate("pool-views", opk, "after %s: t%d listed=%v inPool=%v, reference pool says %v", opk, i, listed[i], s.tp.IsTransactionInPool(&id), m.pooled[i])
			return false
		}
	}
	// Capacity.
	if len(rs.pooled) > s.maxPool {
		r.Violate("pool-limit", opk, "after %s: %d pooled transactions, limit %d", opk, len(rs.pooled), s.maxPool)
		return false
	}
	if len(rs.orphans) > s.maxOrphan {
		r.Violate("orphan-limit", opk, "after %s: %d orphans, limit %d", opk, len(rs.orphans), s.maxOrphan)
		return false
	}
	// The output index lists exactly the spendable outputs of pooled transactions.
	// Vote outputs cannot be spent before they are confirmed and matured: listing
	// them or not is accepted either way.
	for _, i := range sortedKeys(m.pooled) {
		for pos, k := range w.txs[i].outs {
			o := outKey{i, pos}
			got, ok := rs.snap.Utxo[w.outID(o)]
			switch {
			case k == kindOrdinary && !ok:
				r.Violate("utxo-index-missing", opk, "after %s: spendable output %v of pooled t%d is not in the output index", opk, o, i)
				return false
			case ok && got != w.txs[i].tx.ID:
				r.Violate("utxo-index-wrong-tx", opk, "after %s: output %v is listed for another transaction", opk, o)
				return false
			}
		}
	}
	var extra []string
	for id := range rs.snap.Utxo {
		o, ok := w.byOut[id]
		switch {
		case !ok:
			extra = append(extra, "unknown:"+id.String())
		case o.tx < 0 || !m.pooled[o.tx]:
			extra = append(extra, "stale:"+o.String())
		case w.kind(o) == kindRetire:
			extra = append(extra, "retirement:"+o.String())
		}
	}
	if len(extra) > 0 {
		sort.Strings(extra)
		what := extra[0][:strings.Index(extra[0], ":")]
		r.Violate("utxo-index-extra", what+"/"+opk, "after %s: the output index lists outputs that are not spendable outputs of pooled transactions: %v", opk, extra)
		return false
	}
	// Every orphan is indexed under each output it still waits for.
	for _, i := range sortedKeys(m.orphans) {
		if m.orphans[i].tainted {
			continue
		}
		for _, o := range m.waits(i) {
			found := false
			for _, id := range rs.snap.OrphansByPrev[w.outID(o)] {
				if id == w.txs[i].tx.ID {
					found = true
				}
			}
			if !found {
				r.Violate("orphan-index-missing", opk, "after %s: orphan t%d waits for %s but is not indexed under %v (it is indexed under %s)",
					opk, i, outNames(m.waits(i)), o, outNames(s.indexedUnder(rs, i)))
				return false
			}
		}
	}
	// No dangling index entries.
	var bad []string
	for out, ids := range rs.snap.OrphansByPrev {
		o, known := w.byOut[out]
		name := out.String()
		if known {
			name = o.String()
		}
		if len(ids) == 0 {
			bad = append(bad, "empty:"+name)
		}
		for _, id := range ids {
			i, ok := w.byTxID[id]
			switch {
			case !ok || !rs.orphans[i]:
				bad = append(bad, fmt.Sprintf("dead:%s->%s", name, txName(w, id)))
			case !known || !spends(w.txs[i], o):
				bad = append(bad, fmt.Sprintf("foreign:%s->t%d", name, i))
			}
		}
	}
	if len(bad) > 0 {
		sort.Strings(bad)
		what := bad[0][:strings.Index(bad[0], ":")]
		r.Violate("orphan-index-dangling", what+"/"+opk, "after %s: dangling orphan index entries %v (orphans: %s)", opk, bad, names("t", sortedKeys(rs.orphans)))
		return false
	}
	return true
}

func txName(w *world, id bc.Hash) string {
	if i, ok := w.byTxID[id]; ok {
		return fmt.Sprintf("t%d", i)
	}
	return id.String()
}

func spends(ti *txInfo, o outKey) bool {
	for _, in := range ti.ins {
		if in == o {
			return true
		}
	}
	return false
}

func (s *sim) indexedUnder(rs *realState, i int) []outKey {
	var out []outKey
	for h, ids := range rs.snap.OrphansByPrev {
		for _, id := range ids {
			if id == s.w.txs[i].tx.ID {
				if o, ok := s.w.byOut[h]; ok {
					out = append(out, o)
				} else {
					out = append(out, outKey{-2, 0})
				}
			}
		}
	}
	sort.Slice(out, func(a, b int) bool {
		if out[a].tx != out[b].tx {
			return out[a].tx < out[b].tx
		}
		return out[a].pos < out[b].pos
	})
	return out
}

// submit hands transaction i to the pool the way Chain.ValidateTx does (a
// transaction the pool already has is not processed again) and checks the
// post-condition of the call.
func (s *sim) submit(step string, opk string, i int) bool {
	r, m, w := s.r, s.m, s.w
	ti := w.txs[i]
	id := ti.tx.ID
	s.seen[i] = true
	if m.pooled[i] {
		if !s.tp.HaveTransaction(&id) {
			r.Violate("pool-views", opk, "%s: HaveTransaction(t%d) is false for a pooled transaction", step, i)
			return false
		}
		r.Tracef("%s %s t%d: already pooled, not processed again", step, opk, i)
		return true
	}
	// The node's submission path (Chain.ValidateTx) asks HaveTransaction first and answers a
	// transaction the pool "has" without processing it. Nothing in this engine puts transactions into
	// the rejection cache, so a transaction that is not pooled must not be reported as had - an
	// orphan reported so would never be examined again when it is re-announced.
	if s.tp.HaveTransaction(&id) {
		_, isOrph := m.orphans[i]
		r.Violate("pool-views", opk, "%s: HaveTransaction(t%d) is true for a transaction that is not in the pool (waiting as an orphan: %v): the submission path answers it without processing it", step, i, isOrph)
		return false
	}
	now := time.Now()
	pooledBefore := map[int]bool{}
	for k := range m.pooled {
		pooledBefore[k] = true
	}
	orphansBefore := map[int]bool{}
	for k := range m.orphans {
		orphansBefore[k] = true
	}
	_, wasOrphan := m.orphans[i]
	if wasOrphan {
		r.Count("probe.orphan_resubmitted", 1)
	}
	missing := m.missing(i)

	isOrphan, err := s.tp.ProcessTransaction(ti.tx, 1, 0)
	rs := s.observe(opk)
	if r.Failed() {
		return false
	}

	switch {
	case ti.dust != dustNone:
		r.Count("probe.dust_ignored", 1)
		r.Tracef("%s %s t%d: dust -> (%v,%v)", step, opk, i, isOrphan, err)
		if isOrphan || err != nil {
			r.Violate("dust-result", opk, "%s: dust t%d returned (%v, %v), documented: ignored", step, i, isOrphan, err)
			return false
		}

	case len(missing) > 0:
		full := len(orphansBefore) >= s.maxOrphan
		if err != nil {
			r.Tracef("%s %s t%d: misses %s -> error %v", step, opk, i, outNames(missing), err)
			if err != protocol.ErrPoolIsFull || !full {
				r.Violate("submit-error", opk, "%s: t%d (missing %s) rejected with %v while %d/%d orphans are held", step, i, outNames(missing), err, len(orphansBefore), s.maxOrphan)
				return false
			}
			r.Count("fault.orphan_full", 1)
			break
		}
		r.Tracef("%s %s t%d: misses %s -> orphan=%v", step, opk, i, outNames(missing), isOrphan)
		if !isOrphan {
			r.Violate("orphan-flag", opk, "%s: t%d misses %s but was not reported as an orphan", step, i, outNames(missing))
			return false
		}
		if oi, ok := m.orphans[i]; ok {
			oi.expHi = now.Add(s.ttl)
			oi.tainted = false // the arrival indexes it afresh under everything missing now
		} else {
			m.orphans[i] = &orphInfo{expLo: now.Add(s.ttl), expHi: now.Add(s.ttl)}
			r.Count("probe.orphan_created", 1)
			if len(m.waits(i)) >= 2 {
				r.Count("probe.multi_parent_orphan", 1)
				s.multiOrph++
			}
		}

	default:
		// Upper bound of what this call can promote, to know whether the pool limit is in play.
		closure := map[int]bool{}
		m.pooled[i] = true
		for changed := true; changed; {
			changed = false
			for _, o := range sortedKeys(m.orphans) {
				if closure[o] || o == i || len(m.missing(o)) > 0 {
					continue
				}
				closure[o] = true
				m.pooled[o] = true
				changed = true
			}
		}
		for o := range closure {
			delete(m.pooled, o)
		}
		delete(m.pooled, i)
		room := s.maxPool - len(pooledBefore)
		pressure := 1+len(closure) > room

		if err != nil {
			r.Tracef("%s %s t%d: all parents available -> error %v", step, opk, i, err)
			if err != protocol.ErrPoolIsFull || room > 0 {
				r.Violate("submit-error", opk, "%s: t%d (all parents available) rejected with %v while %d/%d transactions are pooled", step, i, err, len(pooledBefore), s.maxPool)
				return false
			}
			r.Count("fault.pool_full", 1)
			// Relaxation (pool limit): a rejected transaction that was an orphan may stay one or be dropped.
			if wasOrphan && !rs.orphans[i] {
				delete(m.orphans, i)
			}
			break
		}
		if isOrphan {
			r.Violate("orphan-flag", opk, "%s: all parents of t%d are available but it was reported as an orphan", step, i)
			return false
		}
		// Newly pooled by this call.
		var newly []int
		for _, k := range sortedKeys(rs.pooled) {
			if !pooledBefore[k] {
				newly = append(newly, k)
			}
		}
		// Which of several complete orphans get the last free places of the pool is the
		// pool's (map-order dependent) choice: nothing order-dependent is traced or
		// counted then, and the history ends after this call's checks.
		ambiguous := pressure && room-1 > 0
		if ambiguous {
			r.Tracef("%s %s t%d: all parents available -> pooled; the pool limit is reached inside the call, history ends here", step, opk, i)
			s.stop = true
		} else {
			r.Tracef("%s %s t%d: all parents available -> pooled, call pooled %s", step, opk, i, names("t", newly))
		}
		m.pooled[i] = true
		delete(m.orphans, i)
		for _, k := range newly {
			if k == i {
				continue
			}
			if !orphansBefore[k] {
				r.Violate("pooled-from-nowhere", opk, "%s: submitting t%d pooled t%d, which was neither submitted now nor an orphan", step, i, k)
				return false
			}
			m.pooled[k] = true
			delete(m.orphans, k)
			if !ambiguous {
				s.promos++
				r.Count("probe.promotion", 1)
			}
		}
		if len(newly) >= 3 && !ambiguous {
			r.Count("probe.cascade", 1)
		}
		for _, k := range newly {
			if k != i && len(m.missing(k)) > 0 {
				r.Violate("promoted-unready", opk, "%s: submitting t%d promoted orphan t%d although it still misses %s", step, i, k, outNames(m.missing(k)))
				return false
			}
		}
		if pressure {
			opk += ".at-pool-limit" // (keeps findings at the limit apart from ordinary ones in the signature)
			r.Count("fault.pool_full", 1)
			// Relaxation (pool limit reached inside this call): an orphan that became
			// complete may be pooled, stay, or be dropped; nothing else may change.
			for _, k := range sortedKeys(m.orphans) {
				if closure[k] && !rs.orphans[k] {
					delete(m.orphans, k)
				}
			}
			break
		}
		// Each orphan is promoted in the call that makes its last parent available.
		isNew := map[int]bool{}
		for _, k := range newly {
			isNew[k] = true
		}
		for _, o := range sortedKeys(m.orphans) {
			if m.orphans[o].tainted || len(m.missing(o)) > 0 {
				continue
			}
			for _, in := range w.txs[o].ins {
				if in.tx >= 0 && isNew[in.tx] && !m.storeHas(in) {
					r.Violate("orphan-not-promoted", opk, "%s: the call pooled %s, which made %v - the last missing parent output of orphan t%d (inputs %s) - available, but t%d is still an orphan (indexed under %s)",
						step, names("t", newly), in, o, outNames(w.txs[o].ins), o, outNames(s.indexedUnder(rs, o)))
					return false
				}
			}
		}
	}
	return s.check(opk, rs)
}

func (s *sim) remove(step, opk string, i int) bool {
	id := s.w.txs[i].tx.ID
	was := s.m.pooled[i]
	for _, o := range sortedKeys(s.m.orphans) {
		for _, in := range s.w.txs[o].ins {
			if was && in.tx == i && !s.m.storeHas(in) && s.m.available(in) {
				s.r.Count("probe.remove_unconfirmed_parent_of_orphan", 1)
			}
		}
	}
	s.tp.RemoveTransaction(&id)
	delete(s.m.pooled, i)
	s.r.Tracef("%s %s t%d (was pooled: %v)", step, opk, i, was)
	return s.check(opk, s.observe(opk))
}

// confirm connects a block holding transaction i and its unconfirmed
// ancestors: the store gains their outputs and loses their inputs, then (as
// Chain.reorganize does, after the store is updated) each is removed from the pool.
func (s *sim) confirm(step string, i int) bool {
	m, w := s.m, s.w
	var block []int
	inBlock := map[int]bool{}
	var visit func(i int) bool
	visit = func(i int) bool {
		if m.confirmed[i] || inBlock[i] {
			return true
		}
		if w.txs[i].dust != dustNone {
			return false
		}
		for _, in := range w.txs[i].ins {
			if in.tx >= 0 && !m.confirmed[in.tx] && !visit(in.tx) {
				return false
			}
		}
		inBlock[i] = true
		block = append(block, i)
		return true
	}
	ok := !m.confirmed[i] && visit(i)
	before := m.availMap()
	if ok {
		done := 0
		for _, k := range block {
			valid := true
			for _, in := range w.txs[k].ins {
				if !m.storeHas(in) {
					valid = false
				}
			}
			if !valid {
				break
			}
			m.confirmed[k] = true
			done++
		}
		if done != len(block) {
			for _, k := range block[:done] {
				delete(m.confirmed, k)
			}
			ok = false
		} else {
			m.taintLost(before, s.r)
		}
	}
	if !ok {
		s.r.Tracef("%s confirm t%d: not a valid block, skipped", step, i)
		return true
	}
	s.syncStore()
	s.r.Count("probe.block_connected", 1)
	s.r.Tracef("%s confirm block %s", step, names("t", block))
	for n, k := range block {
		if !s.remove(fmt.Sprintf("%s.%d", step, n), "confirm.remove", k) {
			return false
		}
	}
	// an output that was available through the pool before the block and was spent
	// inside the block is gone only now that its transaction left the pool
	m.taintLost(before, s.r)
	return true
}

// unconfirm disconnects the blocks holding transaction i and its confirmed
// descendants; the detached transactions are handed back to the pool (order B).
func (s *sim) unconfirm(step string, i, order int) bool {
	m, w := s.m, s.w
	if !m.confirmed[i] {
		s.r.Tracef("%s unconfirm t%d: not confirmed, skipped", step, i)
		return true
	}
	det := map[int]bool{i: true}
	for changed := true; changed; {
		changed = false
		for k := range w.txs {
			if !m.confirmed[k] || det[k] {
				continue
			}
			for _, in := range w.txs[k].ins {
				if in.tx >= 0 && det[in.tx] {
					det[k] = true
					changed = true
				}
			}
		}
	}
	before := m.availMap()
	list := sortedKeys(det)
	for _, k := range list {
		delete(m.confirmed, k)
	}
	m.taintLost(before, s.r)
	s.syncStore()
	s.r.Count("fault.block_disconnected", 1)
	if order%2 == 1 {
		for a, b := 0, len(list)-1; a < b; a, b = a+1, b-1 {
			list[a], list[b] = list[b], list[a]
		}
	}
	s.r.Tracef("%s unconfirm: detached, restoring %s", step, names("t", list))
	// the store changed without a pool call: the bookkeeping must still be coherent
	if !s.check("unconfirm", s.observe("unconfirm")) {
		return false
	}
	for n, k := range list {
		if !s.submit(fmt.Sprintf("%s.%d", step, n), "unconfirm.submit", k) {
			return false
		}
	}
	return true
}

func (s *sim) gset(step string, g int) bool {
	m := s.m
	before := m.availMap()
	switch m.gState[g] {
	case gPresent:
		m.gState[g] = gGone
		s.r.Count("fault.store_output_spent", 1)
	default:
		m.gState[g] = gPresent
		s.r.Count("probe.store_output_gained", 1)
	}
	m.taintLost(before, s.r)
	s.syncStore()
	s.r.Tracef("%s gset g%d -> state %d", step, g, m.gState[g])
	return s.check("gset", s.observe("gset"))
}

// settleExpiry adopts the real presence of the orphans whose lifetime is over
// at virtual time t when the pool's own scanner may or may not have run yet
// (must == false), or demands they are gone (must == true: explicit ExpireOrphan(t)).
func (s *sim) settleExpiry(opk string, rs *realState, t time.Time, must bool) bool {
	m := s.m
	for _, i := range sortedKeys(m.orphans) {
		oi := m.orphans[i]
		switch {
		case !oi.expLo.Before(t):
			// not expired under any reading: must still be there (check() compares)
		case must && oi.expHi.Before(t):
			if rs.orphans[i] {
				s.r.Violate("orphan-not-expired", opk, "ExpireOrphan(%v): orphan t%d expired at %v at the latest but is still held", t.Sub(s.start), i, oi.expHi.Sub(s.start))
				return false
			}
			delete(m.orphans, i)
			s.r.Count("probe.orphan_expired", 1)
		default:
			// Relaxation: between the two readings / before the scanner's next pass either is fine.
			if !rs.orphans[i] {
				delete(m.orphans, i)
				s.r.Count("probe.orphan_expired", 1)
			}
		}
	}
	return true
}

func execC22(t *testing.T, plan any, r *simkit.Run) {
	p := plan.(*C22Plan)
	if len(p.Txs) == 0 || len(p.G0) < p.NG || len(p.GCoinbase) < p.NG || p.NG < 1 {
		return
	}
	inBubble(t, r, func() { runC22(p, r) })
}

func runC22(p *C22Plan, r *simkit.Run) {
	w := buildWorld(p)
	m := &model{w: w, confirmed: map[int]bool{}, pooled: map[int]bool{}, orphans: map[int]*orphInfo{}}
	for g := 0; g < p.NG; g++ {
		st := gNever
		if p.G0[g] == 1 {
			st = gPresent
		}
		m.gState = append(m.gState, st)
	}
	// Limits are package-level settings of the pool; set them for this run.
	defTx, defOrph := protocol.VerifSetTxPoolLimits(0, 0)
	maxPool, maxOrphan := defTx, defOrph
	if p.MaxPool > 0 {
		maxPool = p.MaxPool
	}
	if p.MaxOrphan > 0 {
		maxOrphan = p.MaxOrphan
	}
	protocol.VerifSetTxPoolLimits(maxPool, maxOrphan)
	defer protocol.VerifSetTxPoolLimits(defTx, defOrph)

	st := &stubStore{}
	s := &sim{r: r, w: w, m: m, st: st, ttl: protocol.VerifOrphanTTL(), maxPool: maxPool, maxOrphan: maxOrphan,
		start: time.Now(), kinds: map[string]bool{}, gcb: p.GCoinbase, seen: map[int]bool{}}
	s.syncStore()
	s.tp = protocol.NewTxPool(st, event.NewDispatcher())

	for i, ti := range w.txs {
		r.Tracef("t%d ins=%s outs=%v dust=%d", i, outNames(ti.ins), ti.outs, ti.dust)
	}
	r.Tracef("store g=%v limits pool=%d orphans=%d", m.gState, maxPool, maxOrphan)

	var elapsed time.Duration
	for n := range p.Ops {
		op := &p.Ops[n]
		step := fmt.Sprintf("%d", n)
		s.kinds[op.K] = true
		r.FP(op.K)
		ok := true
		if (op.K == "submit" || op.K == "submitnew" || op.K == "remove" || op.K == "confirm" || op.K == "unconfirm") && (op.A < 0 || op.A >= len(w.txs)) {
			r.Tracef("%s %s t%d: no such transaction, skipped", step, op.K, op.A)
			continue
		}
		switch op.K {
		case "submit":
			ok = s.submit(step, "submit", mod(op.A, len(w.txs)))
		case "submitnew":
			// the A-th (modulo) transaction never handed to the pool so far; any transaction when all were
			var fresh []int
			for i := range w.txs {
				if !s.seen[i] {
					fresh = append(fresh, i)
				}
			}
			i := mod(op.A, len(w.txs))
			if len(fresh) > 0 {
				i = fresh[mod(op.A, len(fresh))]
			}
			ok = s.submit(step, "submit", i)
		case "remove":
			ok = s.remove(step, "remove", mod(op.A, len(w.txs)))
		case "confirm":
			ok = s.confirm(step, mod(op.A, len(w.txs)))
		case "unconfirm":
			ok = s.unconfirm(step, mod(op.A, len(w.txs)), op.B)
		case "gset":
			ok = s.gset(step, mod(op.A, p.NG))
		case "advance":
			d := advanceMenu[mod(op.B, len(advanceMenu))]
			time.Sleep(d)
			synctest.Wait()
			elapsed += d
			if got := time.Since(s.start); got != elapsed {
				harnessFail("virtual clock at %v, plan says %v", got, elapsed)
			}
			r.SimTime(d)
			if d > s.ttl {
				r.Count("fault.clock_jump_over_ttl", 1)
			}
			rs := s.observe("advance")
			ok = s.settleExpiry("advance", rs, time.Now(), false)
			r.Tracef("%s advance %v -> orphans %s", step, d, names("t", sortedKeys(m.orphans)))
			ok = ok && s.check("advance", rs)
		case "expire":
			at := time.Now().Add(expireOffsetMenu[mod(op.B, len(expireOffsetMenu))])
			s.tp.ExpireOrphan(at)
			rs := s.observe("expire")
			ok = s.settleExpiry("expire", rs, at, true)
			r.Tracef("%s expire(now%+v) -> orphans %s", step, at.Sub(time.Now()), names("t", sortedKeys(m.orphans)))
			ok = ok && s.check("expire", rs)
		default:
			harnessFail("unknown op kind %q", op.K)
		}
		if !ok || r.Failed() {
			return
		}
		if s.stop {
			r.Count("probe.ended_at_pool_limit", 1)
			break
		}
	}
	if (s.promos > 0 || s.multiOrph > 0) && len(s.kinds) >= 3 {
		r.NonTrivial()
	}
}

// SpecC22 is the C22 check.
func SpecC22() simkit.Spec {
	return simkit.Spec{
		Prop:    "C22",
		Gen:     genC22,
		NewPlan: func() any { return &C22Plan{} },
		Exec:    execC22,
		Rule: "2-9 generated transactions forming a DAG (1-4 inputs each, drawn from 1-4 confirmed-world outputs and ordinary outputs of earlier transactions, so chains, diamonds, 2-4-parent orphans and conflicting siblings arise; 1-3 outputs each: ordinary, retirement, vote; a few dust transactions); " +
			"1-40 ops: submit (any transaction, or one never submitted before; any order; the caller protocol of Chain.ValidateTx: a pooled transaction is not processed again), remove, confirm (block with the transaction and its unconfirmed ancestors: store updated, then RemoveTransaction each), unconfirm (block disconnect, detached transactions handed back), external store change, clock advance 1s-31min, ExpireOrphan(now+offset); pool limit 1-5 and orphan limit 1-4 in 25% of runs each; " +
			"non-trivial = at least one orphan promotion or one orphan waiting for >=2 outputs, and >=3 op kinds; distinct = hash of the op sequence and every traced outcome",
		Components: map[string]string{
			"protocol.TxPool":    "real (NewTxPool incl. its orphan-expiry goroutine, inside a synctest bubble)",
			"event.Dispatcher":   "real (no subscribers)",
			"state.Store":        "stub: serves GetTransactionsUtxo/GetUtxo from the reference ledger (unspent outputs, spent coinbase records); all other methods unused by TxPool",
			"types.Tx / bc ids":  "real (trusted: used as container and for ids only)",
			"Chain.ValidateTx":   "not run (needs a whole chain); its caller protocol towards the pool (HaveTransaction guard, then ProcessTransaction) is reproduced",
			"reference pool":     "maps written from the property statement (sim/poolsim/c22.go)",
			"clock":              "testing/synctest fake clock",
			"pool/orphan limits": "set per run through the verif hook (package-level variables)",
		},
		Assumptions: []string{
			"'spendable outputs of pooled transactions' = every non-retirement ordinary output of a pooled transaction, whether or not another pooled transaction already spends it (the pool does not track in-pool spends; not claimed either way); vote outputs may be listed or not",
			"an output is available to a child when it is unspent in the store or an ordinary output of a pooled transaction; an orphan 'waits for' each input that is not available and was not spent on the chain",
			"promotion is required in the pool call (ProcessTransaction) that makes the last missing parent output available; an orphan whose last parent became available through a store change only (block connected without a pool call) is not required to be promoted, and an orphan one of whose inputs was taken away by a store change (reorganisation, confirmed double spend) is exempt from the index-completeness and promptness checks until it arrives again",
			"when the pool limit is reached inside a call, orphans that became complete may be pooled, kept or dropped; when an orphan's lifetime is over but ExpireOrphan has not been called explicitly, it may be present or gone (the scan interval is not part of the property); a re-arrival may or may not refresh the lifetime",
			"store errors are not injected; transactions are structurally well-formed (scripts/signatures are not the pool's business)",
		},
		FaultKinds: []string{"fault.pool_full", "fault.orphan_full", "fault.clock_jump_over_ttl", "fault.block_disconnected", "fault.store_output_spent"},
		Probes: []string{"probe.orphan_created", "probe.multi_parent_orphan", "probe.promotion", "probe.cascade", "probe.orphan_expired",
			"probe.orphan_resubmitted", "probe.dust_ignored", "probe.remove_unconfirmed_parent_of_orphan", "probe.block_connected",
			"probe.store_output_gained", "probe.orphan_input_lost_by_store", "probe.ended_at_pool_limit"},
	}
}
