// Package simdisk is the simulated disk: an ordered in-memory key/value store
// implementing Bytom's dbm.DB with goleveldb's observable semantics, a numbered
// log of atomic durable write boundaries, snapshots at any boundary and a few
// opt-in fault kinds. It is a stub of the storage engine; its faithfulness to the
// real backends is itself checked by dbsim (C20).
package simdisk

import (
	"bytes"
	"runtime"
	"sort"
	"strings"
	"sync"

	dbm "github.com/bytom/bytom/database/leveldb"
)

// Op is one key mutation inside a write boundary.
type Op struct {
	Del bool
	Key string
	Val []byte
}

// Disk implements dbm.DB.
type Disk struct {
	mu  sync.Mutex
	m   map[string][]byte
	log [][]Op // one entry per write boundary
	// KeepLog enables boundary recording (needed for snapshots).
	KeepLog bool
	base    map[string][]byte // contents when StartLog was called
	// Ctx is copied into CtxLog on each boundary (set by the driver).
	Ctx    string
	CtxLog []string
	// Frozen: writes go nowhere (a crashed node's zombie writes).
	Frozen bool
	// YieldBeforeWrite: number of scheduler yields before each write (slow-disk fault).
	YieldBeforeWrite int
	// OnBoundary, if set, is called after each write boundary with its index.
	OnBoundary func(k int)
	// ReadFault, if set, may alter a value on its way out of Get/Iterator.Value.
	ReadFault func(key string, val []byte) []byte
	Reads     int64
	Writes    int64
}

// New returns an empty disk.
func New() *Disk { return &Disk{m: map[string][]byte{}} }

var _ dbm.DB = (*Disk)(nil)

func cp(b []byte) []byte {
	if b == nil {
		return []byte{}
	}
	out := make([]byte, len(b))
	copy(out, b)
	return out
}

func (d *Disk) apply(ops []Op) {
	// "slow disk" fault: the writer yields the processor before the write becomes
	// durable, which widens the window for whatever runs concurrently with it
	for i := 0; i < d.YieldBeforeWrite; i++ {
		runtime.Gosched()
	}
	d.mu.Lock()
	defer d.mu.Unlock()
	if d.Frozen {
		return
	}
	for _, o := range ops {
		if o.Del {
			delete(d.m, o.Key)
		} else {
			d.m[o.Key] = o.Val
		}
	}
	d.Writes++
	if d.KeepLog {
		d.log = append(d.log, ops)
		d.CtxLog = append(d.CtxLog, d.Ctx)
	}
	if d.OnBoundary != nil {
		d.OnBoundary(len(d.log))
	}
}

func (d *Disk) out(key string, v []byte) []byte {
	if v == nil {
		return nil
	}
	v = cp(v)
	if d.ReadFault != nil {
		v = d.ReadFault(key, v)
	}
	return v
}

func (d *Disk) Get(key []byte) []byte {
	d.mu.Lock()
	defer d.mu.Unlock()
	d.Reads++
	return d.out(string(key), d.m[string(key)])
}
func (d *Disk) Set(key, value []byte)     { d.apply([]Op{{Key: string(key), Val: cp(value)}}) }
func (d *Disk) SetSync(key, value []byte) { d.Set(key, value) }
func (d *Disk) Delete(key []byte)         { d.apply([]Op{{Del: true, Key: string(key)}}) }
func (d *Disk) DeleteSync(key []byte)     { d.Delete(key) }
func (d *Disk) Close()                    {}
func (d *Disk) Print()                    {}
func (d *Disk) Stats() map[string]string  { return map[string]string{"database.type": "simdisk"} }

// StartLog starts recording write boundaries; SnapshotAt(k) then yields the
// current contents plus the first k boundaries written from now on.
func (d *Disk) StartLog() {
	d.mu.Lock()
	defer d.mu.Unlock()
	d.base = make(map[string][]byte, len(d.m))
	for k, v := range d.m {
		d.base[k] = v
	}
	d.log, d.CtxLog, d.KeepLog = nil, nil, true
}

// Boundaries returns the number of write boundaries so far.
func (d *Disk) Boundaries() int {
	d.mu.Lock()
	defer d.mu.Unlock()
	return len(d.log)
}

// Len returns the number of keys.
func (d *Disk) Len() int {
	d.mu.Lock()
	defer d.mu.Unlock()
	return len(d.m)
}

// SnapshotAt returns a new disk holding exactly the first k write boundaries.
func (d *Disk) SnapshotAt(k int) *Disk {
	d.mu.Lock()
	defer d.mu.Unlock()
	n := New()
	for key, v := range d.base {
		n.m[key] = v
	}
	for _, ops := range d.log[:k] {
		for _, o := range ops {
			if o.Del {
				delete(n.m, o.Key)
			} else {
				n.m[o.Key] = o.Val
			}
		}
	}
	return n
}

// Clone returns an independent copy of the current contents (no log).
func (d *Disk) Clone() *Disk {
	d.mu.Lock()
	defer d.mu.Unlock()
	n := New()
	for k, v := range d.m {
		n.m[k] = v
	}
	return n
}

// BoundaryOps returns the ops of boundary k (0-based).
func (d *Disk) BoundaryOps(k int) []Op { return d.log[k] }

// Keys returns all keys, sorted.
func (d *Disk) Keys() []string {
	d.mu.Lock()
	defer d.mu.Unlock()
	keys := make([]string, 0, len(d.m))
	for k := range d.m {
		keys = append(keys, k)
	}
	sort.Strings(keys)
	return keys
}

// Raw returns the stored value without copy or fault (harness use only).
func (d *Disk) Raw(key string) ([]byte, bool) {
	d.mu.Lock()
	defer d.mu.Unlock()
	v, ok := d.m[key]
	return v, ok
}

// SetRaw stores without creating a boundary (harness fault injection).
func (d *Disk) SetRaw(key string, val []byte) {
	d.mu.Lock()
	defer d.mu.Unlock()
	d.m[key] = val
}

type batch struct {
	d   *Disk
	ops []Op
}

func (d *Disk) NewBatch() dbm.Batch    { return &batch{d: d} }
func (b *batch) Set(key, value []byte) { b.ops = append(b.ops, Op{Key: string(key), Val: cp(value)}) }
func (b *batch) Delete(key []byte)     { b.ops = append(b.ops, Op{Del: true, Key: string(key)}) }
func (b *batch) Write()                { b.d.apply(b.ops) }

// iter is a snapshot iterator over the keys of a prefix, like goleveldb's.
type iter struct {
	d    *Disk
	keys []string
	vals [][]byte
	pos  int // -1 before first; len(keys) after last
	rev  bool
}

func (d *Disk) newIter(prefix []byte) *iter {
	d.mu.Lock()
	defer d.mu.Unlock()
	it := &iter{d: d, pos: -1}
	p := string(prefix)
	for k := range d.m {
		if strings.HasPrefix(k, p) {
			it.keys = append(it.keys, k)
		}
	}
	sort.Strings(it.keys)
	it.vals = make([][]byte, len(it.keys))
	for i, k := range it.keys {
		it.vals[i] = d.m[k]
	}
	return it
}

func (d *Disk) Iterator() dbm.Iterator                    { return d.newIter(nil) }
func (d *Disk) IteratorPrefix(prefix []byte) dbm.Iterator { return d.newIter(prefix) }
func (d *Disk) IteratorPrefixWithStart(prefix, start []byte, isReverse bool) dbm.Iterator {
	it := d.newIter(prefix)
	it.rev = isReverse
	if start != nil {
		if !it.Seek(start) && isReverse {
			it.pos = len(it.keys)
		}
	} else if isReverse {
		it.pos = len(it.keys)
	}
	return it
}

func (it *iter) Seek(point []byte) bool {
	for i, k := range it.keys {
		if bytes.Compare([]byte(k), point) >= 0 {
			it.pos = i
			return true
		}
	}
	it.pos = len(it.keys)
	return false
}

func (it *iter) Next() bool {
	if it.rev {
		if it.pos <= 0 {
			it.pos = -1
			return false
		}
		it.pos--
		return true
	}
	if it.pos >= len(it.keys)-1 {
		it.pos = len(it.keys)
		return false
	}
	it.pos++
	return true
}

func (it *iter) valid() bool { return it.pos >= 0 && it.pos < len(it.keys) }

func (it *iter) Key() []byte {
	if !it.valid() {
		return []byte{}
	}
	return []byte(it.keys[it.pos])
}

func (it *iter) Value() []byte {
	if !it.valid() {
		return []byte{}
	}
	it.d.mu.Lock()
	defer it.d.mu.Unlock()
	it.d.Reads++
	return it.d.out(it.keys[it.pos], it.vals[it.pos])
}

func (it *iter) Release()     {}
func (it *iter) Error() error { return nil }
